"""C26 The interpreter runs supported programs like bash.

Proof:   coq/Props/C26.v — the flag machine of interp/runner.go (Interp/Flags.v) refines the
         structured big-step semantics (Interp/Sem.v) on every core program, every fuel.
Code leg:   generated core programs: real interp.Runner (worker subprocess) vs Flags.v (vm_compute).
Oracle leg: the same programs: real bash 5.2 vs Sem.v (vm_compute).
Search:  interp vs bash directly — the core programs, generated programs of the wider supported
         language (restricted to the domains where the tree agrees with bash), and the pinned corpus
         of interp_test.go program literals (verdict of each stored in corpus/c26/verdicts.json; only
         CHANGES of verdict are reported)."""
import concurrent.futures
import hashlib
import json
import os
import re
import shutil
import subprocess
import tempfile

from vcheck import coq_bytes, coq_list, ROOT

FUEL = 300
CORE_VARS = ["x", "y", "z", "v", "i", "j"] + ["w%d" % i for i in range(1, 13)]
ABORTS = ["AFuel", "AUnsupported", "ABadCount", "ABadStatus", "AReturnOutside", "ABreakInCond", "AEmptyCond", "ASetInIgnored", "ANegatedInSubshell", "AErrexitInSubst", "APipeLastStage", "ASubstStatus"]

# known-finding classes decided on the SOURCE TEXT of a program (search leg; Go twin of the Sem aborts
# where they overlap).  Each names one mechanism.
def src_classes(src):
    out = []
    if re.search(r"\|[^|]", re.sub(r"\|\|", "", src)):
        out.append("pipeline_last_stage_in_parent")
    return out


def run_bash(srcs, timeout=4, workers=8):
    """Run each source in real bash 5.2: env -i, scratch cwd/HOME, no PATH, stdin /dev/null."""
    base = tempfile.mkdtemp(prefix="c26bash")
    bash = shutil.which("bash") or "/usr/bin/bash"

    def one(i_src):
        i, src = i_src
        d = os.path.join(base, "c%d" % i)
        os.mkdir(d)
        env = {"PATH": "/nonexistent", "HOME": d, "LC_ALL": "C.UTF-8", "TMPDIR": d}
        res = None
        if "\0" in src:
            shutil.rmtree(d, ignore_errors=True)
            return {"out": "", "status": -1, "skipped": True}
        for attempt, to in enumerate((timeout, timeout * 8)):
            try:
                p = subprocess.run([bash, "--norc", "--noprofile", "-c", src], cwd=d, env=env,
                                   stdin=subprocess.DEVNULL, stdout=subprocess.PIPE, stderr=subprocess.DEVNULL,
                                   timeout=to, start_new_session=True)
                res = {"out": p.stdout[:65536].hex(), "status": p.returncode}
                break
            except subprocess.TimeoutExpired:
                res = {"out": "", "status": -1, "timeout": True}
        shutil.rmtree(d, ignore_errors=True)
        return res

    try:
        with concurrent.futures.ThreadPoolExecutor(max_workers=workers) as ex:
            return list(ex.map(one, enumerate(srcs)))
    finally:
        shutil.rmtree(base, ignore_errors=True)


def coq_vars(vs):
    return coq_list(["(%s,%s)" % (coq_bytes(n.encode().hex()), coq_bytes(v)) for n, v in sorted(vs.items())])


CASE_HEADER = """From Verif Require Import Base.Str Interp.Core Interp.Flags Interp.Sem.
From Coq Require Import String.
Open Scope string_scope.
Open Scope N_scope.
Definition FUEL : nat := %d%%nat.
Definition names : list str := %s.
Fixpoint bytes_eqb (a b : str) : bool :=
  match a, b with [], [] => true | x :: a', y :: b' => N.eqb x y && bytes_eqb a' b' | _, _ => false end.
Definition optstr_eqb (a b : option str) : bool :=
  match a, b with None, None => true | Some x, Some y => bytes_eqb x y | _, _ => false end.
Definition vars_agree (m g : list (str * str)) : bool :=
  forallb (fun n => optstr_eqb (lookup n m) (lookup n g)) names.
Definition abort_num (a : abort) : N :=
  match a with AFuel => 1 | AUnsupported => 2 | ABadCount => 3 | ABadStatus => 4 | AReturnOutside => 5
  | ABreakInCond => 6 | AEmptyCond => 7 | ASetInIgnored => 8 | ANegatedInSubshell => 9 | AErrexitInSubst => 10 | APipeLastStage => 11 | ASubstStatus => 12 end.
(* per case: 1 flags stuck | 2 flags<>go | 4 sem<>bash | 8 flags<>sem | 16*abort reason *)
Definition judge (c : prog * (str * N * list (str * str)) * (str * N) * (bool * bool)) : N :=
  let '(p, (gout, gst, gvars), (bout, bst), (have_go, have_bash)) := c in
  let f := run_prog FUEL p init_st in
  let '(ss, scode, r) := sem_prog FUEL p init_sst in
  let a := match r with OAbort w => abort_num w | _ => 0 end in
  let fbad := if stuck f then 1 else
              if have_go && negb (bytes_eqb (out f) gout && N.eqb (code (ex f)) gst && vars_agree (vars f) gvars) then 2 else 0 in
  let sbad := if negb (N.eqb a 0) then 0 else
              if have_bash && negb (bytes_eqb (sout ss) bout && N.eqb scode bst) then 4 else 0 in
  let rbad := if stuck f || negb (N.eqb a 0) then 0 else
              if bytes_eqb (out f) (sout ss) && N.eqb (code (ex f)) scode && vars_agree (vars f) (svars ss) then 0 else 8 in
  fbad + sbad + rbad + 16 * a.
"""


def coq_judge(ctx, name, cases):
    """cases: list of dicts with coq, go (resp or None), bash (res or None). Returns list of ints or None."""
    items = []
    for c in cases:
        g, b = c.get("go"), c.get("bash")
        have_go = bool(g) and g.get("status", -1) >= 0 and not g.get("hang") and not g.get("panic")
        have_bash = bool(b) and b.get("status", -1) >= 0
        gobs = "(%s,%d,%s)" % (coq_bytes(g["out"]), g["status"], coq_vars(g.get("vars") or {})) if have_go else "([],0,[])"
        bobs = "(%s,%d)" % (coq_bytes(b["out"]), b["status"]) if have_bash else "([],0)"
        items.append("(%s,%s,%s,(%s,%s))" % (c["coq"], gobs, bobs, "true" if have_go else "false",
                                             "true" if have_bash else "false"))
    text = CASE_HEADER % (FUEL, coq_list([coq_bytes(n.encode().hex()) for n in CORE_VARS]))
    text += "Definition cases := %s.\nDefinition R := Eval vm_compute in List.map judge cases.\nPrint R.\n" % coq_list(items)
    ok, out = ctx.coq_cases(name, text)
    m = re.search(r"R\s*=\s*\[([^\]]*)\]", out)
    if not ok or not m:
        ctx.broken.append(("correspondence:core-eval", "coqc on generated cases failed: " + out[-1200:]))
        return None
    vals = [int(x) for x in re.findall(r"\d+", m.group(1))]
    if len(vals) != len(cases):
        ctx.broken.append(("correspondence:core-eval", "judge returned %d values for %d cases" % (len(vals), len(cases))))
        return None
    return vals


def core_legs(ctx, binp, n):
    rc, rows, err = ctx.jsonl([binp, "gen", "-seed", str(ctx.seed), "-n", str(n)], timeout=900)
    if rc != 0 or not rows:
        ctx.broken.append(("harness-run", "c26 gen failed rc=%d %s" % (rc, err[-600:])))
        return
    bres = run_bash([r["src"] for r in rows])
    for r, b in zip(rows, bres):
        r["bash"] = b
    code_mism, oracle_mism, refine_mism = [], [], []
    n_code = n_oracle = n_ref = 0
    aborts = {}
    stuck = 0
    for sh in range(0, len(rows), 400):
        part = rows[sh:sh + 400]
        vals = coq_judge(ctx, "c26_core_%d_%d" % (ctx.seed, sh), part)
        if vals is None:
            return
        for r, v in zip(part, vals):
            g, b = r["go"], r["bash"]
            a = v // 16
            have_go = g.get("status", -1) >= 0 and not g.get("hang") and not g.get("panic")
            have_bash = b.get("status", -1) >= 0
            if a:
                aborts[ABORTS[a - 1]] = aborts.get(ABORTS[a - 1], 0) + 1
            if v & 1:
                stuck += 1
            elif have_go:
                n_code += 1
                if v & 2:
                    code_mism.append({"src": r["src"], "go_out": bytes.fromhex(g["out"]).decode("latin1"),
                                      "go_status": g["status"], "go_vars": g.get("vars")})
            if not a and have_bash:
                n_oracle += 1
                if v & 4:
                    oracle_mism.append({"src": r["src"], "bash_out": bytes.fromhex(b["out"]).decode("latin1"),
                                        "bash_status": b["status"]})
            if not a and not (v & 1):
                n_ref += 1
                if v & 8:
                    refine_mism.append({"src": r["src"]})
            # ---- search on the same programs: interp vs bash directly
            if g.get("hang") or g.get("panic"):
                ctx.fail("interp_hangs_or_panics", {"src": r["src"]}, None, {"go": g})
            elif have_go and have_bash:
                ctx.count(1, [r["src"]] if len(r["src"]) > 40 else [])
                if g["out"] != b["out"] or g["status"] != b["status"]:
                    klass = None
                    if a:   # the Sem abort names the class (decided by the Coq predicate on this very program)
                        klass = "core_" + ABORTS[a - 1]
                    ctx.fail("stdout_status_equal_bash", {"src": r["src"]}, klass,
                             {"go": [bytes.fromhex(g["out"]).decode("latin1"), g["status"]],
                              "bash": [bytes.fromhex(b["out"]).decode("latin1"), b["status"]]})
    ctx.leg("code:interp.Runner vs Interp/Flags.v on core programs (vm_compute in kernel)", n_code, code_mism,
            "stdout, status, final variables; %d cases outside the model (stuck)" % stuck)
    ctx.leg("oracle:bash 5.2 vs Interp/Sem.v on core programs (vm_compute in kernel)", n_oracle, oracle_mism,
            "stdout, status; aborts (outside Sem's scope): %s" % json.dumps(aborts, sort_keys=True))
    ctx.leg("code:Flags.v vs Sem.v on the generated programs (instances of C26_flags_refines_sem)", n_ref, refine_mism)
    ctx.extra["core_aborts"] = aborts
    for r in rows[:2]:
        ctx.sample({"src": r["src"], "go": [r["go"]["out"], r["go"]["status"]], "bash": [r["bash"]["out"], r["bash"]["status"]]})


WITNESSES = [
    ("pipeline_last_stage_in_parent", "true | a=5; echo $a"),
    ("funcdecl_followed_by_andor", "f() { true; } && echo x; echo y"),
    ("cstyle_for_stops_after_failing_body", "for ((i=0;i<3;i++)); do echo $i; false; done"),
    ("err_trap_fires_on_exit_builtin", "trap 'echo err' ERR; exit 2"),
    ("err_trap_inherited_by_functions", "trap 'echo err' ERR; f() { false; echo in; }; f"),
    ("errexit_inherited_by_command_substitution", "set -e; x=$(false; echo hi); echo $x"),
    ("core_AReturnOutside", "f() { (return 3; echo x); echo y $?; }; f"),
    ("core_AReturnOutside", "return 3; echo $?"),
    ("core_ABreakInCond", "for i in 1; do if ! break; then echo a; fi; done; echo $?"),
    ("core_ABadStatus", "exit a; echo a $?"),
    ("core_ABadCount", "for i in 1 2; do echo $i; break 1 2; echo x; done; echo s=$?"),
    ("core_ASetInIgnored", "! { set -e; false; }; echo after $?"),
    ("core_ANegatedInSubshell", "set -e; ( ! { false; echo a; } ); echo after $?"),
    ("core_AErrexitInSubst", 'set -e; echo "$( false; echo hi )"'),
    ("core_APipeLastStage", 'true | x=5; echo "$x"'),
    ("core_ASubstStatus", 'echo "$( false )" "$?"'),
    ("core_ASubstStatus", 'for i in "$( false )"; do echo "$?"; done'),
]


def differs(g, b):
    return g["out"] != b["out"] or g["status"] != b["status"]


def run_sources(ctx, binp, srcs, tag):
    """interp (worker) and bash on a list of sources -> list of (go, bash)"""
    path = os.path.join(tempfile.gettempdir(), "c26_%s_%d_%d.jsonl" % (tag, ctx.seed, os.getpid()))
    with open(path, "w") as f:
        for s in srcs:
            f.write(json.dumps({"src": s}) + "\n")
    try:
        rc, rows, err = ctx.jsonl([binp, "run", "-in", path], timeout=900)
    finally:
        os.remove(path)
    if rc != 0 or len(rows) != len(srcs):
        ctx.broken.append(("harness-run", "c26 run failed rc=%d %s" % (rc, err[-400:])))
        return None
    bres = run_bash(srcs)
    return [(r["go"], b) for r, b in zip(rows, bres)]


def witness_leg(ctx, binp):
    res = run_sources(ctx, binp, [w[1] for w in WITNESSES], "wit")
    if res is None:
        return
    still = 0
    for (klass, src), (g, b) in zip(WITNESSES, res):
        if g.get("hang") or g.get("status", -1) < 0 or b.get("status", -1) < 0 or differs(g, b):
            still += 1
            ctx.fail("stdout_status_equal_bash", {"src": src}, klass,
                     {"go": [g.get("out"), g.get("status")], "bash": [b.get("out"), b.get("status")]})
    ctx.extra["witnesses_still_failing"] = "%d/%d" % (still, len(WITNESSES))


def wide_leg(ctx, binp, n):
    rc, rows, err = ctx.jsonl([binp, "wide", "-seed", str(ctx.seed), "-n", str(n)], timeout=900)
    if rc != 0 or not rows:
        ctx.broken.append(("harness-run", "c26 wide failed rc=%d %s" % (rc, err[-600:])))
        return
    bres = run_bash([r["src"] for r in rows])
    for r, b in zip(rows, bres):
        g = r["go"]
        if g.get("parse_err"):
            ctx.broken.append(("harness-run", "generated program does not parse: " + g["parse_err"]))
            continue
        if g.get("hang") or g.get("panic"):
            ctx.fail("interp_hangs_or_panics", {"src": r["src"]}, None, {"go": g})
            continue
        if g.get("status", -1) < 0 or b.get("status", -1) < 0:
            continue
        ctx.count(1, [r["src"]])
        if differs(g, b):
            ctx.fail("stdout_status_equal_bash", {"src": r["src"]}, None,
                     {"go": [bytes.fromhex(g["out"]).decode("latin1")[:400], g["status"]],
                      "bash": [bytes.fromhex(b["out"]).decode("latin1")[:400], b["status"]]})
    ctx.extra["wide_cases"] = len(rows)


REGRESS = os.path.join(ROOT, "corpus", "c26", "regress.jsonl")


def regress_leg(ctx, binp):
    """pinned regression corpus (runs first, every seed and tier): small programs, one or two per mechanism that a
    past change of the tree broke; same oracle as the generated programs (interp = bash on stdout and status)."""
    try:
        items = [json.loads(l) for l in open(REGRESS) if l.strip().startswith("{")]
    except (OSError, ValueError) as ex:
        ctx.broken.append(("corpus", "corpus/c26/regress.jsonl unreadable: %s" % ex))
        return
    res = run_sources(ctx, binp, [it["src"] for it in items], "regress")
    if res is None:
        return
    for it, (g, b) in zip(items, res):
        ctx.count(1, [it["src"]])
        if g.get("hang") or g.get("panic") or g.get("status", -1) < 0 or b.get("status", -1) < 0 or differs(g, b):
            ctx.fail("stdout_status_equal_bash(pinned:%s)" % it.get("id", ""), {"src": it["src"]}, it.get("class"),
                     {"go": [bytes.fromhex(g.get("out") or "").decode("latin1")[:300], g.get("status")],
                      "bash": [bytes.fromhex(b.get("out") or "").decode("latin1")[:300], b.get("status")]})
    ctx.extra["regress_programs"] = len(items)


VERDICTS = os.path.join(ROOT, "corpus", "c26", "verdicts.json")


def corpus_leg(ctx, binp, limit):
    """pinned corpus: the verdict (agrees with bash / differs) of every safe interp_test.go program was
    recorded by a thorough run on the unchanged tree; only CHANGES of verdict are reported."""
    try:
        verdicts = json.load(open(VERDICTS))
    except (OSError, ValueError):
        ctx.broken.append(("corpus", "corpus/c26/verdicts.json is missing"))
        return
    rc, rows, err = ctx.jsonl([binp, "corpus"], timeout=900)
    if rc != 0 or not rows:
        ctx.broken.append(("harness-run", "c26 corpus failed rc=%d %s" % (rc, err[-600:])))
        return
    if limit and len(rows) > limit:     # quick tier: a rotating slice, the thorough tier sees all
        k = (ctx.seed * limit) % len(rows)
        rows = (rows + rows)[k:k + limit]
    bres = run_bash([r["src"] for r in rows])
    changed_bad, changed_good, new = [], 0, 0
    for r, b in zip(rows, bres):
        g = r["go"]
        key = hashlib.sha1(r["src"].encode()).hexdigest()[:16]
        if g.get("status", -1) < 0 and not g.get("hang") and not g.get("panic") and not g.get("err"):
            continue
        now = "differ" if (g.get("hang") or g.get("panic") or g.get("status", -1) < 0 or b.get("status", -1) < 0 or differs(g, b)) else "agree"
        was = verdicts.get(key)
        ctx.count(1)
        if was is None:
            new += 1
            if now == "differ":
                ctx.fail("corpus_program_equal_bash(new program)", {"src": r["src"]}, None, None)
        elif was == "agree" and now == "differ":
            ctx.fail("corpus_program_equal_bash(was: agrees)", {"src": r["src"]}, None,
                     {"go": [bytes.fromhex(g.get("out", "")).decode("latin1")[:300], g.get("status")],
                      "bash": [bytes.fromhex(b.get("out", "")).decode("latin1")[:300], b.get("status")]})
        elif was == "differ" and now == "agree":
            changed_good += 1
    ctx.extra["corpus"] = {"programs": len(rows), "recorded": len(verdicts), "now_agree_was_differ": changed_good, "new": new}


def run(ctx):
    ctx.coq_props()
    binp = ctx.go_build("c26")
    if not binp:
        return
    quick = ctx.tier == "quick"
    ctx.rule = ("core programs: 2..8 statements, depth <= 3 over echo/true/false/:/assignments/\"$x\"/\"$?\"/!/&&/||/{ }/( )/"
                "if-elif-else/while/until (unary guard, <= 3 rounds)/for/case/functions (no recursion)/return/break n/"
                "continue n/exit n/set -e/+e/unknown commands; every 10th program may use the constructs of the known "
                "classes (break 0, return outside a function, bad arguments); non-trivial = distinct source > 40 bytes")
    regress_leg(ctx, binp)
    core_legs(ctx, binp, 250 if quick else 4000)
    witness_leg(ctx, binp)
    wide_leg(ctx, binp, 200 if quick else 3000)
    corpus_leg(ctx, binp, 250 if quick else 0)
    ctx.assumptions += ["stderr is not compared (bash prefixes its messages differently)",
                        "Sem.v is tied to bash by differential testing only (oracle leg)",
                        "the exec handler of the harness refuses every external command with status 127; bash runs with an empty PATH"]


def replay(ctx, obj):
    print(json.dumps(obj, indent=1))
    return 0


META = {
    "category": "proof",
    "text": ("Coq theorem C26_flags_refines_sem: the flag machine transliterated from interp/runner.go (stop(), stmt, "
             "stmtSync, cmd, loopStmtsBroken, call, subshell; flags returning/exiting/breakEnclosing/contnEnclosing/"
             "inLoop/inFunc/noErrExit/lastExit) computes, for every core program, every initial state and every fuel, "
             "the same stdout, status and variables as a structured big-step semantics (outcomes Normal/Break n/"
             "Continue n/Return/Exit, errexit as a rule on outcomes), outside seven named abort classes; the model is "
             "tied to the code (interp.Runner in a worker subprocess vs Flags.v inside the kernel) and the spec to real "
             "bash 5.2 on the same generated programs on every run; direct interp-vs-bash search on generated programs "
             "and on the pinned interp_test.go corpus."),
    "note": ("Trusted: Coq kernel + vm_compute; hand-written model and spec (tie = seeded differential testing); "
             "core language = control flow, functions/return, break/continue n, exit, errexit, case, for/while/until, "
             "subshells, command substitution, pipelines and pipefail; NOT in the model (search legs only): "
             "redirections, arrays, local, traps, here-documents, [[ ]]."),
    "design_ref": "DESIGN.md 4 C26",
}
