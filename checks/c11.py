"""C11 Language variants gate their features consistently.

Proofs (coq/Props/C11.v):
  * Gen/LangSets.v is REGENERATED ON EVERY RUN by go/ast over <repo>/syntax/*.go: every `X.lang.in(SET)` and
    `checkLang(pos, SET, ...)` call site with its constant variant set, plus every other use of a `.lang` field.
    Lemmas re-checked by vm_compute over this finite table (they cover the WHOLE parser's gating):
      C11_all_gated        no use of the variant outside a recognised gate,
      C11_bash_subset_bats every gate set that contains bash contains bats,
      C11_bats_extra       the gates that tell bats from bash are exactly the `@test` site,
      C11_posix_gate_table no feature gate contains POSIX.
  * generic theorems over an abstract gated parser (a process consulting gates and the recovery budget):
      C11_bash_bats, C11_recover_transparent; C11_posix_checker_sound for the Coq twin of the Go tree checker.
Code leg: Coq posix_only on exported generic trees == Go checker verdict; recoveredErrors == 0 after a valid parse.
Search: generated programs mixing constructs of all variants x variants x RecoverErrors(1,2,3,100)."""
import json
import os
import re

import vcheck

VAR = {"bash": 0, "posix": 1, "mksh": 2, "bats": 3, "zsh": 4}
KIND = {"in": "KIn", "notin": "KNotIn", "checkLang": "KCheckLang", "wrapper": "KWrapper", "ungated": "KUngated"}


def coq_str(s):
    return '"' + s.replace('"', '""').replace("\n", " ") + '"'


def write_if_changed(path, text):
    old = open(path).read() if os.path.exists(path) else None
    if old != text:
        tmp = path + ".tmp%d" % os.getpid()
        open(tmp, "w").write(text)
        os.replace(tmp, path)


def gen_langsets(ctx, binp):
    rc, gates, err = ctx.jsonl([binp, "gates"], timeout=120)
    rc2, kinds, err2 = ctx.jsonl([binp, "kinds"], timeout=60)
    if rc != 0 or rc2 != 0 or not gates or not kinds:
        ctx.broken.append(("gen-table", "c11 gates/kinds failed: %s" % (err + err2)[-600:]))
        return None, None
    lines = ["(* GENERATED on every run by checks/c11.py from %s/syntax/*.go (go/ast) - do not edit. *)" % "<repo>",
             "From Coq Require Import List String.", "From Verif Require Import Syntax.LangGate.", "Import ListNotations.",
             "Open Scope string_scope.", "", "Definition gates : list gate := ["]
    items = []
    for g in gates:
        site = "%s:%s" % (g["file"], g["func"])     # no line numbers: unrelated edits must not churn the table
        items.append("  mkGate %s %s [%s] %s" % (coq_str(site + " " + g["expr"][:60]), KIND[g["kind"]],
                                                  ";".join(str(VAR[v]) for v in (g.get("set") or [])), coq_str(g.get("feature", ""))))
    lines.append(";\n".join(items))
    lines += ["].", "", "(* flag table of the POSIX tree checker (harness/cmd/c11): (id, non-POSIX?) *)",
              "Definition flag_table : list (nat * bool) := ["]
    lines.append(";\n".join("  (%d, %s) (* %s *)" % (k["id"], "true" if k["nonposix"] else "false", k["name"].replace("*)", "* )")) for k in kinds))
    lines += ["].", ""]
    write_if_changed(os.path.join(vcheck.COQ, "Gen", "LangSets.v"), "\n".join(lines))
    return gates, kinds


def run(ctx):
    binp = ctx.go_build("c11")
    if not binp:
        ctx.coq_props()
        return
    os.environ["VERIF_REPO"] = vcheck.REPO
    gates, kinds = gen_langsets(ctx, binp)
    ctx.coq_props()
    if gates is None:
        return
    ctx.extra["gate_sites"] = len(gates)
    ctx.extra["gate_kinds"] = {k: sum(1 for g in gates if g["kind"] == k) for k in KIND}
    thorough = ctx.tier == "thorough"
    rc, rows, err = ctx.jsonl([binp, "search", "-seed", str(ctx.seed), "-tier", ctx.tier, "-n", "6000" if thorough else "500"],
                              timeout=2400)
    ab = False
    for r in rows:
        if "aborted" in r:
            ab = True
            ctx.fail("harness_aborted_" + r["aborted"], {"current": r.get("current", "")[:600]}, None,
                     "the parser under test did not return / allocated without bound")
    rows = [r for r in rows if "id" in r]
    if (rc != 0 and not ab) or not rows:
        ctx.broken.append(("harness-run", "c11 search failed rc=%d %s" % (rc, err[-800:])))
        return
    ctx.rule = ("every 4th (thorough: every) test-table literal of syntax/*_test.go + pinned `@test` witnesses; per seed N each of: "
                "grammar-generated programs mixing bash/mksh/zsh/bats/POSIX constructs, POSIX-only programs, byte mutations of corpus and "
                "generated programs, generated words; each parsed under all 5 variants, bash vs bats trees compared (DeepEqual with "
                "positions), every accepting variant re-parsed under RecoverErrors(1,2,3,100); non-trivial = distinct input accepted by "
                "at least one variant")
    for r in rows:
        ctx.count(1 + 4 * len(r.get("accepted") or []), [r["hex"]] if r.get("accepted") else [])
        inp = {"hex": r["hex"], "text": bytes.fromhex(r["hex"]).decode("utf-8", "replace")[:200]}
        for cl in r.get("fails") or []:
            klass = None
            if cl in ("bash_accepted_bats_rejected", "bash_bats_trees_differ") and r.get("class") == "bats_test_keyword":
                klass = "bats_test_keyword"
            ctx.fail(cl, inp, klass, r.get("note"))
    for r in [r for r in rows if r.get("accepted")][:3]:
        ctx.sample({"text": bytes.fromhex(r["hex"]).decode("utf-8", "replace")[:80], "accepted_by": r["accepted"]})
    ctx.extra["accepted_posix"] = sum(1 for r in rows if "posix" in (r.get("accepted") or []))
    ctx.extra["accepted_bash"] = sum(1 for r in rows if "bash" in (r.get("accepted") or []))
    # ---- code leg: Coq twin of the tree checker on exported generic trees
    trees = [r for r in rows if r.get("gtree")]
    trees += [{"hex": r["hex"], "gtree": r["gtree_bash"], "go_posix_only": r["go_bash_posix_only"]} for r in rows if r.get("gtree_bash")]
    ctx.extra["checker_verdicts"] = {"true": sum(1 for t in trees if t["go_posix_only"]), "false": sum(1 for t in trees if not t["go_posix_only"])}
    mism = []
    for sh in range(0, len(trees), 400):
        part = trees[sh:sh + 400]
        items = ["(%s, %s)" % (r["gtree"], "true" if r["go_posix_only"] else "false") for r in part]
        text = """From Coq Require Import List Bool Arith.
From Verif Require Import Syntax.LangGate Gen.LangSets.
Import ListNotations.
Definition cases : list (gtree * bool) := [%s].
Fixpoint mism (i : nat) (cs : list (gtree * bool)) : list nat :=
  match cs with [] => [] | (t, b) :: r => if Bool.eqb (posix_only (forbidden_of flag_table) t) b then mism (S i) r else i :: mism (S i) r end.
Definition M := Eval vm_compute in mism 0 cases.
Print M.
""" % ";\n".join(items)
        ok, out = ctx.coq_cases("c11_%d_%d" % (ctx.seed, sh), text)
        m = re.search(r"M\s*=\s*(\[[^\]]*\])", out)
        if not ok or not m:
            ctx.broken.append(("correspondence:code-eval", "coqc on generated cases failed: " + out[-800:]))
            return
        for i in [int(x) for x in re.findall(r"\d+", m.group(1))]:
            mism.append({"hex": part[i]["hex"], "go": part[i]["go_posix_only"]})
    ctx.leg("code:posix_only (Coq twin, vm_compute) vs Go tree checker on POSIX- and bash-accepted trees", len(trees), mism)
    ctx.assumptions += [
        "the abstract gated parser assumes the parser depends on the variant only through the listed gate call sites; "
        "C11_all_gated (regenerated each run) checks that no other use of a .lang field exists in syntax/*.go",
        "LangError values mention the variant (LangUsed); equality of runs is claimed for accepted results",
        "the POSIX checker's list of non-POSIX kinds/flags is the property's list + the checkLang features; it is a Go function "
        "in the harness with a Coq twin, compared on every sampled tree",
    ]


def replay(ctx, obj):
    print(json.dumps(obj, indent=1)[:4000])
    return 0


META = {
    "category": "proof",
    "text": ("Table of every language gate call site (go/ast, regenerated each run) with vm_compute-checked lemmas covering the whole "
             "parser's gating: no ungated use of the variant, bash-in-set implies bats-in-set, the only gate separating bats from bash "
             "is `@test`, no feature gate contains POSIX; generic Coq theorems over an abstract gated parser (bash run = bats run unless "
             "a bats-only gate is consulted; accepted runs are independent of the RecoverErrors budget); soundness of the Coq twin of the "
             "non-POSIX tree checker, compared with the Go checker on sampled trees; search over generated programs of all variants."),
    "note": ("Partial: the parser itself is not modelled; the gate table + abstract-process theorems give the structural argument, the "
             "search tests the property directly. Known finding: `@test` at command position (bats keyword). Two POSIX gate gaps found "
             "and fixed (array index in arithmetic, `()` anonymous functions)."),
    "design_ref": "DESIGN.md 4 C11",
}
