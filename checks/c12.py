"""C12 Parser acceptance agrees with the real shells.
Proof: coq/Props/C12.v over coq/Syntax/CoreGrammar.v: parse_core (transliteration of the Go statement parser on
       tokens) vs accepts (recogniser written from the POSIX grammar with the shell deltas as switches).
Code leg: Go Parse (bash, posix) vs parse_core in the Coq kernel on core token programs and their mutations.
Oracle leg: Coq accepts (bash / dash switches) vs `bash -n` / `dash -n` on the same token lists.
Search: Go Parse error vs shell -n exit status on grammar-generated core programs and their single-token
       insertions/deletions/swaps (pinned pool with cached shell verdicts, a sample re-run live, + fresh seeded cases live)."""
import json
import os
import re

from vcheck import ROOT, REPO, coq_list

import coregram

CACHE = os.path.join(ROOT, "corpus", "c12", "oracle_cache.jsonl.gz")
WITNESSES = os.path.join(ROOT, "corpus", "c12", "witnesses.txt")
REGRESS = os.path.join(ROOT, "corpus", "c12", "regress.txt")   # pinned regression inputs: every seed and tier, live shells
POOL_N = 3500


def run(ctx):
    ctx.coq_props()
    thorough = ctx.tier != "quick"
    binp = ctx.go_build("c12")
    if not binp:
        return
    # ---- documented intentional differences: the flipConfirm entries of the repository's tests, as data
    rc, flips, err = ctx.jsonl([binp, "flips", REPO])
    bang_documented = any(f["in"] in ("! !", "! ! foo") and "LangBash" in f["langs"] for f in flips)
    ctx.extra["flipConfirm_entries"] = len(flips)
    ctx.extra["flipConfirm_core_alphabet"] = [f for f in flips if f["in"] in ("! !", "! ! foo", "!")]
    if rc != 0 or len(flips) < 10:
        ctx.broken.append(("harness-run", "cannot extract flipConfirm entries from %s: %s" % (REPO, err[-400:])))
    # ---- search
    recheck, fresh = (4000, 500) if thorough else (30, 12)
    rc, rows, err = ctx.jsonl([binp, "gen", "-seed", str(ctx.seed), "-n", str(POOL_N), "-tier", ctx.tier,
                               "slices=1", "cache=" + CACHE, "recheck=%d" % recheck, "fresh=%d" % fresh], timeout=7200)
    rc2, wrows, err2 = ctx.jsonl([binp, "src", "-in", WITNESSES], timeout=600)
    rc3, rrows, err3 = ctx.jsonl([binp, "src", "-in", REGRESS], timeout=600)
    rrows = [r for r in rrows if "src" in r]
    if rc3 != 0 or len(rrows) < 15:
        ctx.broken.append(("harness-run", "c12 pinned regression corpus did not run: rc=%d %s" % (rc3, err3[-400:])))
    summ = [r for r in rows if "summary" in r]
    rows = [r for r in rows if "src" in r]
    wrows = [r for r in wrows if "src" in r]
    if rc != 0 or rc2 != 0 or not rows or not summ or len(wrows) < 10:
        ctx.broken.append(("harness-run", "c12 harness failed rc=%d/%d %s" % (rc, rc2, (err + err2)[-800:])))
        return
    ctx.extra["search"] = summ[0]["summary"]
    ctx.rule = ("token-level programs from the core grammar (simple commands, assignments, redirections incl. io-numbers, pipelines, "
                "&& ||, !, ( ), { }, if/elif/else, while/until, for [in], case with ;; and | patterns, f() compound; words: names, "
                "literals, quoted, $x ${x} $( )) and their single-token deletions, adjacent swaps and insertions of each of the 31 "
                "token kinds; LangBash vs `bash -n`, LangPOSIX vs `dash -n` (exit status). Pinned pool of %d base programs "
                "(~30k cases, shell verdicts cached in corpus/c12, a seeded sample re-run live; thorough: 4000 live) + fresh "
                "seeded programs run live + the witnesses of every known finding. non-trivial = distinct source of >= 3 tokens" % POOL_N)
    docs = {}
    for r in rows + wrows + rrows:
        nt = len(r.get("toks") or [])
        ctx.count(2, [r["src"]] if nt >= 3 else [])
        for f in r.get("fails") or []:
            k = f.get("class") or None
            inp = {"src": r["src"], "lang": "bash" if "bash" in f["clause"] else "posix"}
            det = {"go_bash": r["go_bash"], "go_posix": r["go_posix"], "bash_n": r["bash"], "dash_n": r["dash"], "live": r.get("live", False)}
            if k and k.startswith("documented:"):
                if bang_documented:
                    docs[k] = docs.get(k, 0) + 1
                    continue
                k = None   # the repository no longer documents the difference
            ctx.fail(f["clause"], inp, k, det)
    ctx.extra["documented_differences_seen"] = docs
    for r in rows[:2]:
        ctx.sample({"src": r["src"], "go_bash": r["go_bash"], "bash_n": r["bash"], "go_posix": r["go_posix"], "dash_n": r["dash"]})
    # every known finding's witness must still fail the same way (else the entry is stale)
    known = {k["class"]: k for k in ctx.known if k.get("status") == "known"}
    seen = set()
    for r in wrows:
        for f in r.get("fails") or []:
            seen.add(f.get("class"))
    for cls in known:
        if cls not in seen:
            ctx.broken.append(("known-finding-stale", "witness of %s no longer fails with class %s: fix the entry" % (known[cls]["id"], cls)))
    # ---- code leg + oracle leg on the core model
    crows = coregram.code_leg(ctx, "c12")
    coregram.oracle_leg(ctx, rows + wrows)
    ctx.assumptions += ["acceptance of bash 5.2.15 / dash as installed (`-n`, exit status 0); the repository's own TestParseConfirm wants bash 5.3",
                        "shell verdicts of the pinned pool are cached (corpus/c12/oracle_cache.jsonl.gz); a seeded sample is re-run live "
                        "on every run and a stale entry is reported; the thorough tier re-runs 4000",
                        "documented intentional differences inside the core alphabet: lone `!` and `! !` (flipConfirm(LangBash) on \"! !\" "
                        "with the comment 'bash allows lone `!`, unlike dash, mksh, and us'), recognised only while parser_test.go still lists them",
                        "mksh/zsh/bats variants have no shell oracle here"]


def replay(ctx, obj):
    import subprocess
    import tempfile
    binp = ctx.go_build("c12")
    fs = obj.get("failures") or []
    with tempfile.NamedTemporaryFile("w", suffix=".txt", delete=False) as f:
        for x in fs:
            f.write(json.dumps(x["input"]["src"]) + "\n")
    out = subprocess.run([binp, "src", "-in", f.name], stdout=subprocess.PIPE).stdout.decode()
    os.unlink(f.name)
    print(out)
    bad = 0
    for line in out.splitlines():
        if line.startswith("{") and '"src"' in line:
            r = json.loads(line)
            if any(not (x.get("class") or "").strip() for x in r.get("fails") or []):
                bad = 1
    return bad


META = {
    "category": "proof",
    "technique": "Coq proof on a core-grammar fragment model + differential search against bash -n / dash -n",
    "text": ("Coq model parse_core = token-level transliteration of the Go statement parser (tied to the code on every run: Go Parse "
             "vs parse_core in the kernel on generated token programs and mutations, incl. error class/position), and accepts = a "
             "recogniser written from the POSIX grammar with the shells' deltas as switches (tied to bash -n / dash -n on the same "
             "token lists by the oracle leg). Theorems relate the two on the core alphabet (see notes/C12.md for which part is proved "
             "for all token lists and which is _partial). Whole core language + single-token mutations: direct search Go vs bash -n / "
             "dash -n; every disagreement on the unchanged tree falls in a listed narrow class or a documented flipConfirm difference."),
    "note": ("PARTIAL w.r.t. the property: proof on the token-level core fragment; quoting/expansion words are opaque tokens; messages "
             "are not compared with the shells. Findings: `else` as command fixed (b1ebd60); 7 open narrow classes (KF-C12-1..7)."),
    "design_ref": "DESIGN.md 4 C12",
}
