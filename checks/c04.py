"""C04 Simplify preserves behaviour.
Proof: coq/Props/C04.v over the model coq/Syntax/Simplify.v (words, arithmetic, [[ ]] tests, subshell nesting).
Code leg: real syntax.Simplify on sub-trees of parsed programs and on synthetic trees vs the Coq model evaluated by
vm_compute on the same trees (tree after + returned bool; parser guarantees wf_* checked on the parsed ones).
Search: whole programs (generated, rich in the rewritten constructs; the interp test literals; pinned witnesses):
bool == tree changed, simplified tree prints/re-parses/prints identically, and printed original vs printed simplified
behave the same (stdout + exit status) under interp.Runner and under bash 5.2."""
import json
import time
import re

from vcheck import coq_list

KINDS = {
    "arith": ("bool * bool * aexpr * aexpr * bool * bool * bool",
              "fun c => match c with (p, i, b, a, m, k, k4) => opt_eqb aexpr_eqb (simplify_arith p i b) (Some (a, m)) "
              "&& Bool.eqb (kf_dollar_param_after_side_effect b) k && Bool.eqb (kf_dollar_exponent b) k4 end",
              "fun c => match c with (p, i, b, a, m, k, k4) => wf_arith b end"),
    "test": ("texpr * texpr * bool",
             "fun c => match c with (b, a, m) => opt_eqb texpr_eqb (simplify_test b) (Some (a, m)) end",
             "fun c => match c with (b, a, m) => wf_test b end"),
    "word": ("word * word * bool",
             "fun c => match c with (b, a, m) => let (a', m') := simplify_word b in word_eqb a' a && Bool.eqb m' m end",
             "fun c => match c with (b, a, m) => wf_word b end"),
    "cmd": ("cmd * cmd * bool",
            "fun c => match c with (b, a, m) => opt_eqb cmd_eqb (simplify_cmd b) (Some (a, m)) end",
            "fun c => true"),
}


def coq_bool(b):
    return "true" if b else "false"


def case_term(r):
    if r["k"] == "arith":
        return "(%s,%s,%s,%s,%s,%s,%s)" % (coq_bool(r["p"]), coq_bool(r["i"]), r["b"], r["a"], coq_bool(r["m"]),
                                           coq_bool(r.get("kf3", False)), coq_bool(r.get("kf4", False)))
    return "(%s,%s,%s)" % (r["b"], r["a"], coq_bool(r["m"]))


def code_leg(ctx, rows):
    mism, wfbad, total = [], [], 0
    direct = [r for r in rows if r["a"] in ("PANIC", "UNEXPORTABLE")]
    for r in direct:
        mism.append({"kind": r["k"], "src": r["src"], "before": r["b"][:300], "go": r["a"]})
    rows = [r for r in rows if r["a"] not in ("PANIC", "UNEXPORTABLE")]
    for sh in range(0, len(rows), 1500):
        shard = rows[sh:sh + 1500]
        text = """From Verif Require Import Base.Str Syntax.Simplify KF.C04KF.
Open Scope N_scope.
Fixpoint idx {A} (f : A -> bool) (i : nat) (l : list A) : list nat :=
  match l with [] => [] | x :: r => if f x then idx f (S i) r else i :: idx f (S i) r end.
Fixpoint idx2 {A} (f : A -> bool) (i : nat) (l : list A) (ps : list bool) : list nat :=
  match l, ps with x :: r, p :: ps' => if negb p || f x then idx2 f (S i) r ps' else i :: idx2 f (S i) r ps' | _, _ => [] end.
"""
        parts = {}
        for kind, (ty, ok_fn, wf_fn) in KINDS.items():
            part = [r for r in shard if r["k"] == kind]
            parts[kind] = part
            text += """Definition cases_%s : list (%s) := %s.
Definition parsed_%s : list bool := %s.
Definition M_%s := Eval vm_compute in idx (%s) 0 cases_%s.
Definition W_%s := Eval vm_compute in idx2 (%s) 0 cases_%s parsed_%s.
Print M_%s.
Print W_%s.
""" % (kind, ty, coq_list([case_term(r) for r in part]), kind, coq_list([coq_bool(not r["syn"]) for r in part]),
       kind, ok_fn, kind, kind, wf_fn, kind, kind, kind, kind)
        ok, out = ctx.coq_cases("c04_%d" % sh, text)
        for kind, part in parts.items():
            m = re.search(r"M_%s\s*=\s*(\[[^\]]*\])" % kind, out)
            w = re.search(r"W_%s\s*=\s*(\[[^\]]*\])" % kind, out)
            if not ok or not m or not w:
                ctx.broken.append(("correspondence:code-eval", "coqc on generated %s cases failed: %s" % (kind, out[-800:])))
                return
            total += len(part)
            for i in [int(x) for x in re.findall(r"\d+", m.group(1))]:
                r = part[i]
                mism.append({"kind": kind, "src": r["src"], "before": r["b"][:400], "go_after": r["a"][:400], "go_bool": r["m"],
                             "synthetic": r["syn"]})
            for i in [int(x) for x in re.findall(r"\d+", w.group(1))]:
                r = part[i]
                wfbad.append({"kind": kind, "src": r["src"], "before": r["b"][:400]})
    ctx.leg("code:syntax.Simplify vs Syntax/Simplify.v (tree after + bool; KF class twin; vm_compute in kernel)", total + len(direct), mism)
    ctx.leg("code:parser output satisfies wf_arith/wf_test/wf_word (scope of the theorems)", sum(1 for r in rows if not r["syn"]), wfbad)
    return total


def run(ctx):
    ctx.coq_props()
    ctx.extra.setdefault("timing", {})["props"] = round(time.time() - ctx.t0, 1)
    quick = ctx.tier == "quick"
    binp = ctx.go_build("c04")
    if not binp:
        return
    ncode = 1200 if quick else 9000
    nsearch = 160 if quick else 2000
    rc, rows, err = ctx.jsonl([binp, "code", "-seed", str(ctx.seed), "-n", str(ncode)])
    if rc != 0 or not rows:
        ctx.broken.append(("harness-run", "c04 code failed rc=%d %s" % (rc, err[-800:])))
        return
    code_leg(ctx, rows)
    ctx.extra.setdefault("timing", {})["code"] = round(time.time() - ctx.t0, 1)
    changed = [r for r in rows if r["m"]]
    ctx.count(len(rows), [(r["k"], r["b"]) for r in changed])
    for r in changed[:3]:
        ctx.sample({"kind": r["k"], "printed_before": r["src"], "model_term_before": r["b"][:200], "go_after": r["a"][:200], "go_bool": r["m"]})
    ctx.extra["code_cases_by_kind"] = {k: sum(1 for r in rows if r["k"] == k) for k in KINDS}
    ctx.extra["code_cases_modified"] = len(changed)
    ctx.extra["code_cases_synthetic"] = sum(1 for r in rows if r["syn"])
    # ---- search
    rc, srows, err = ctx.jsonl([binp, "search", "-seed", str(ctx.seed), "-n", str(nsearch)], timeout=3000)
    if rc != 0 or not srows:
        ctx.broken.append(("harness-run", "c04 search failed rc=%d %s" % (rc, err[-800:])))
        return
    ran = [r for r in srows if r.get("ran")]
    ctx.count(len(srows), [("prog", r["src"]) for r in ran])
    feats = {}
    for r in srows:
        for f in r.get("feats") or []:
            feats[f] = feats.get(f, 0) + 1
    ctx.extra["search_programs"] = len(srows)
    ctx.extra["search_by_source"] = {k: sum(1 for r in srows if r["from"] == k) for k in ("gen", "corpus", "witness", "regress")}
    ctx.extra["search_modified_by_simplify"] = sum(1 for r in srows if r.get("mod"))
    ctx.extra["search_behaviour_compared"] = len(ran)
    ctx.extra["generator_feature_histogram"] = feats
    for r in srows:
        for cl in r.get("fails") or []:
            ctx.fail(cl, {"src": r["src"], "from": r["from"]}, r.get("class") or None,
                     {"detail": r.get("detail"), "printed_original": r.get("orig"), "printed_simplified": r.get("simp")})
    for r in ran[:2]:
        ctx.sample({"program": r["src"][:300], "from": r["from"], "simplify_bool": r["mod"]})
    ctx.rule = ("code leg: sub-trees (arithmetic roots with their holder kind, [[ ]] clauses, words, subshell skeletons) of parsed "
                "generated programs rich in $v/${v} operands, redundant and needed parens, negations, quoted params, = vs ==, "
                "escapes in double quotes, $\"...\", nested subshells; plus synthetic trees the parser would not build; "
                "non-trivial = distinct trees that Simplify changes. search: generated runnable programs (builtins/functions only, "
                "integer-valued arithmetic variables), safe subset of interp_test.go literals, pinned witnesses; non-trivial = "
                "distinct programs that Simplify changed and whose behaviour was compared under interp and bash")
    ctx.assumptions += [
        "model is byte-level: the parser only yields valid UTF-8 literals, on which simplifyWord's rune loop equals the byte loop",
        "evaluators in Simplify.v are Spec-level (abstract operator tables, integer environment); they are tied to the "
        "real interpreter and to bash only through the behavioural search",
        "behavioural search compares printed original vs printed simplified (both through syntax.Printer)",
        "programs that declare associative arrays and use $name inside a compound index are the known class assoc_index_param_inlined",
    ]


def replay(ctx, obj):
    print(json.dumps(obj, indent=1)[:6000])
    return 0


META = {
    "category": "proof",
    "text": ("Coq theorems over a transliterated model of syntax/simplify.go on words, arithmetic, [[ ]] tests and subshell nesting: "
             "simplification preserves arithmetic value and variable updates (integer environment), the truth value of tests, the "
             "quote-removed expansion of words, the semantics of nested subshells, and returns true exactly when the tree changed; "
             "the model is tied to the code on every run by evaluating it inside the Coq kernel on the trees the real Simplify was run "
             "on; behavioural differential (original vs simplified under interp.Runner and bash) over generated programs and the "
             "interpreter test corpus."),
    "note": ("Theorems cover the modelled sub-languages (no command substitutions / nested arithmetic inside words); the whole "
             "language is covered by the behavioural search. Fixed on the way: $\"a\\\\b\" -> $'a\\b'. Known: compound associative "
             "array index x[$i+1] has its $i inlined."),
    "design_ref": "DESIGN.md 4 C04",
}
