"""C28 The interpreter never panics.
Proof: coq/Props/C28.v over coq/Interp/Builtins.v (argument handling and indexing of shift, getopts, set/Params
with the flagParser, break/continue/exit/return, wait, pushd/popd/dirs, positional parameters, unset 'a[i]',
${v:o:l} / ${@:o:l} / ${a[@]:o:l}), every Go index/slice operation explicit.
Code leg: generated histories of the modelled builtins run by interp.Runner in a worker subprocess; panic / exit
status / stdout / observed state after every call compared with the model evaluated inside the Coq kernel.
Search: recover()/subprocess-crash detection around parse+Run: every builtin x random argument vectors, template
programs in all variants, literals of interp_test.go + a fixed enumeration of mutations, interp.New options and
interp.Params arguments."""
import json
import os
import re

from vcheck import coq_bytes, coq_list, ROOT


def coq_z(n):
    return "(%d)" % n


def coq_strs(hexes):
    return coq_list([coq_bytes(h) for h in (hexes or [])])


def coq_call(c):
    k = c["k"]
    a = coq_strs(c.get("args"))
    if k == "set":
        return "CSet %s" % a
    if k == "shift":
        return "CShift %s" % a
    if k == "getopts":
        return "CGetopts %s" % a
    if k == "assign":
        return "CAssign %s %s" % (coq_bytes(c.get("name", "")), coq_bytes(c.get("val", "")))
    if k == "unsetvar":
        return "CUnsetVar %s" % coq_bytes(c.get("name", ""))
    if k == "pushd":
        return "CPushd %s" % a
    if k == "popd":
        return "CPopd %s" % a
    if k == "dirs":
        return "CDirs %s" % a
    if k == "wait":
        return "CWait %s" % a
    if k == "bg":
        return "CBg %s" % coq_z(c.get("code", 0))
    if k == "break":
        return "CBreak %s %s" % ("true" if c.get("cont") else "false", a)
    if k == "return":
        return "CReturn %s" % a
    if k == "loop":
        return "CLoop %s %s" % ("true" if c.get("cont") else "false", a)
    if k == "func":
        return "CFunc %s" % a
    if k == "exit":
        return "CExit %s" % a
    if k == "echo":
        return "CEcho %s" % a
    if k == "pwd":
        return "CPwd %s" % a
    if k == "unset":
        return "CUnset %s" % a
    raise ValueError(k)


CASES_HEAD = """From Verif Require Import Base.Str Interp.Builtins.
From Coq Require Import List ZArith NArith. Import ListNotations.
Open Scope N_scope.
Fixpoint strs_eqb (a b : list str) : bool :=
  match a, b with [], [] => true | x :: a', y :: b' => str_eqb x y && strs_eqb a' b' | _, _ => false end.
Fixpoint obs_eqb (a b : list (list str)) : bool :=
  match a, b with [], [] => true | x :: a', y :: b' => strs_eqb x y && obs_eqb a' b' | _, _ => false end.
(* a case: scratch dir, calls, Go panicked?, Go exit status, Go __obs vectors *)
Definition case := (str * list call * bool * Z * list (list str))%type.
Definition agrees (c : case) : bool :=
  let '(t, cs, gopanic, goexit, goobs) := c in
  let fs := [t; t ++ [47;100;49]; t ++ [47;100;50]; t ++ [47;100;49;47;100;49]] in
  match run_calls_c fs cs (init_state t) with
  | Panic => gopanic
  | Err _ => false
  | Ok (_, ev, code) => negb gopanic && Z.eqb code goexit && obs_eqb ev goobs
  end.
Fixpoint mism (i : nat) (cs : list case) : list nat :=
  match cs with [] => [] | c :: rest => if agrees c then mism (S i) rest else i :: mism (S i) rest end.
"""


def code_leg(ctx, binp, n):
    rc, rows, err = ctx.jsonl([binp, "code", "-seed", str(ctx.seed), "-n", str(n)], timeout=1500)
    rows = [r for r in rows if "calls" in r]
    if rc != 0 or not rows:
        ctx.broken.append(("harness-run", "c28 code harness failed rc=%d %s" % (rc, err[-800:])))
        return
    usable = []
    for r in rows:
        if r.get("hang") or r.get("parse_err") or r.get("timeout") or (r.get("crash") and not r.get("panic")):
            # not an observation of the builtins (watchdog / resource); counted, never a verdict
            ctx.extra["code_leg_unusable"] = ctx.extra.get("code_leg_unusable", 0) + 1
            continue
        usable.append(r)
        if r.get("panic"):
            ctx.fail("modelled_builtin_panics", {"src": bytes.fromhex(r["src"]).decode("utf-8", "replace")}, None,
                     {"msg": r.get("msg"), "where": r.get("where")})
    mism = []
    total = 0
    for sh in range(0, len(usable), 600):
        part = usable[sh:sh + 600]
        items = []
        for r in part:
            obs = coq_list([coq_strs(o) for o in (r.get("obs") or [])])
            items.append("(%s, %s, %s, (%d)%%Z, %s)" % (coq_bytes(r["tmp"]), coq_list([coq_call(c) for c in r["calls"]]),
                                                     "true" if r["panic"] else "false", r["exit"], obs))
        text = CASES_HEAD + "Definition cases : list case := %s.\nDefinition M := Eval vm_compute in mism 0 cases.\nPrint M.\n" % coq_list(items)
        ok, out = ctx.coq_cases("c28_%d_%d" % (ctx.seed, sh), text)
        m = re.search(r"M\s*=\s*(\[[^\]]*\])", out)
        if not ok or not m:
            ctx.broken.append(("correspondence:code-eval", "coqc on generated cases failed: " + out[-800:]))
            return
        total += len(part)
        for i in [int(x) for x in re.findall(r"\d+", m.group(1))]:
            r = part[i]
            mism.append({"src": bytes.fromhex(r["src"]).decode("utf-8", "replace"), "go_panic": r["panic"], "go_exit": r["exit"],
                         "go_obs": [[bytes.fromhex(x).decode("utf-8", "replace") for x in o] for o in (r.get("obs") or [])]})
    kinds = {}
    for r in usable:
        for c in r["calls"]:
            kinds[c["k"]] = kinds.get(c["k"], 0) + 1
        ctx.count(1, [r["src"]])
    ctx.extra["code_leg_calls_by_builtin"] = kinds
    for r in usable[:2]:
        ctx.sample({"program": bytes.fromhex(r["src"]).decode("utf-8", "replace")[:600], "go_exit": r["exit"], "go_panic": r["panic"]})
    ctx.leg("code:interp.Runner builtins (worker subprocess) vs Interp/Builtins.v run_calls (vm_compute in kernel)", total, mism)


CASES2_HEAD = CASES_HEAD + """
Open Scope Z_scope.
Fixpoint apply_unsets (ks : list Z) (p : list str * list Z) : res (list str * list Z) :=
  match ks with
  | [] => Ok p
  | k :: r => match unset_indexed (fst p) (snd p) k with
              | Ok (Some q) => apply_unsets r q
              | Ok None => apply_unsets r p
              | Err e => Err e
              | Panic => Panic
              end
  end.
Definition GOSH : str := [103;111;115;104]%N.
Definition indexes_of (l : list str) (ix : list Z) : list Z :=
  if is_empty ix then map Z.of_nat (seq 0 (length l)) else ix.
(* v, params, arr, unsets, off, len, digit, Go panicked?, Go __obs vectors *)
Definition ecase := (str * list str * list str * list Z * Z * option Z * N * bool * list (list str))%type.
Definition expected (c : ecase) : res (list (list str)) :=
  let '(v, ps, arr, ks, off, len, digit, _, _) := c in
  match apply_unsets ks (arr, []) with
  | Ok (l, ix) =>
    match slice_str v true (Some off) len, slice_elems GOSH ps [] true (Some off) len,
          slice_elems GOSH l ix false (Some off) len, positional digit (set_params (init_state []) ps) with
    | Ok s1, Ok s2, Ok s3, Ok d =>
        (* s1 = None: "substring expression < 0", the command fails and __obs is not called *)
        Ok ([ [] :: l; [] :: map itoa_c (indexes_of l ix) ] ++ (match s1 with Some x => [[[]; x]] | None => [] end) ++
            [ [] :: s2; [] :: s3; [[]; match d with Some x => 83%N :: x | None => [85%N] end] ])
    | _, _, _, _ => Panic
    end
  | _ => Panic
  end.
Definition agrees2 (c : ecase) : bool :=
  let '(_, _, _, _, _, _, _, gopanic, goobs) := c in
  match expected c with
  | Panic => gopanic
  | Err _ => false
  | Ok ev => negb gopanic && obs_eqb ev goobs
  end.
Fixpoint mism2 (i : nat) (cs : list ecase) : list nat :=
  match cs with [] => [] | c :: rest => if agrees2 c then mism2 (S i) rest else i :: mism2 (S i) rest end.
"""


def code_leg2(ctx, binp, n):
    rc, rows, err = ctx.jsonl([binp, "code2", "-seed", str(ctx.seed), "-n", str(n)], timeout=1500)
    rows = [r for r in rows if "exp" in r]
    if rc != 0 or not rows:
        ctx.broken.append(("harness-run", "c28 code2 harness failed rc=%d %s" % (rc, err[-800:])))
        return
    usable = [r for r in rows if not (r.get("hang") or r.get("parse_err") or r.get("timeout") or (r.get("crash") and not r.get("panic")))]
    ctx.extra["code_leg2_unusable"] = len(rows) - len(usable)
    items = []
    for r in usable:
        e = r["exp"]
        if r.get("panic"):
            ctx.fail("modelled_expansion_panics", {"src": bytes.fromhex(r["src"]).decode("utf-8", "replace")}, None,
                     {"msg": r.get("msg"), "where": r.get("where")})
        obs = coq_list([coq_strs(o) for o in (r.get("obs") or [])])
        items.append("(%s, %s, %s, %s, (%d)%%Z, %s, %d%%N, %s, %s)" % (
            coq_bytes(e["v"]), coq_strs(e.get("params")), coq_strs(e.get("arr")),
            coq_list(["(%d)%%Z" % k for k in (e.get("unsets") or [])]), e["off"],
            ("(Some (%d)%%Z)" % e["len"]) if e.get("has_len") else "None", 48 + e["digit"],
            "true" if r["panic"] else "false", obs))
        ctx.count(1, [r["src"]])
    text = CASES2_HEAD + "Open Scope N_scope.\nDefinition cases2 : list ecase := %s.\nDefinition M := Eval vm_compute in mism2 0 cases2.\nPrint M.\n" % coq_list(items)
    ok, out = ctx.coq_cases("c28x_%d" % ctx.seed, text)
    m = re.search(r"M\s*=\s*(\[[^\]]*\])", out)
    if not ok or not m:
        ctx.broken.append(("correspondence:code2-eval", "coqc on generated cases failed: " + out[-800:]))
        return
    mism = []
    for i in [int(x) for x in re.findall(r"\d+", m.group(1))]:
        r = usable[i]
        mism.append({"src": bytes.fromhex(r["src"]).decode("utf-8", "replace"), "go_panic": r["panic"],
                     "go_obs": [[bytes.fromhex(x).decode("utf-8", "replace") for x in o] for o in (r.get("obs") or [])]})
    if usable:
        ctx.sample({"expansion_program": bytes.fromhex(usable[0]["src"]).decode("utf-8", "replace")[:500]})
    ctx.leg("code:${v:o:l} ${@:o:l} ${a[@]:o:l} $N unset 'a[k]' (worker subprocess) vs slice_str/slice_elems/positional/unset_indexed (vm_compute in kernel)",
            len(usable), mism)


WITNESSES = [
    # the two defects repaired by fix: commits; they must not panic any more
    {"ID": "fixed-shift", "Lang": "bash", "Src": "set -- a b; shift -1"},
    {"ID": "fixed-getopts", "Lang": "bash", "Src": "set -- -ab; getopts ab x; set -- -a; getopts ab x"},
    {"ID": "fixed-emptyname-unset", "Lang": "bash", "Src": "unset ''; unset -v ''"},
    {"ID": "fixed-emptyname-test", "Lang": "bash", "Src": "[[ -v '' ]]; test -v ''; [[ -R '' ]]"},
    {"ID": "fixed-emptyname-nameref", "Lang": "bash", "Src": "declare -n r=''; echo $r"},
    {"ID": "fixed-emptyname-arith", "Lang": "bash", "Src": "b=(1 2); (( b[1] = 5 )); : $(( b[0]++ ))"},
    {"ID": "fixed-new-params-o", "Lang": "bash", "Src": "", "Opts": ["params"], "Params": ["-o"]},
    {"ID": "fixed-new-params-plus-o", "Lang": "bash", "Src": "echo $-", "Opts": ["params", "dir"], "Params": ["+o"]},
    {"ID": "fixed-test-operand", "Lang": "bash", "Src": "[ \\( a = x -a -a b = x \\) -o c = c ]"},
    {"ID": "fixed-assoc-literal", "Lang": "bash", "Src": "a=(['']=x y z); declare -A c=([x]=1 2 [y]=2); d=(['']=b [-1]=c d)"},
    {"ID": "fixed-assoc-subscript", "Lang": "bash", "Src": "declare -A a=(); echo ${a[-1]} ${a[1+1]} ${a[1+1]=v}"},
]


def search(ctx, binp):
    rc, rows, err = ctx.jsonl([binp, "search", "-seed", str(ctx.seed), "-tier", ctx.tier], timeout=3000)
    summ = [r for r in rows if "summary" in r]
    if rc != 0 or not summ:
        ctx.broken.append(("harness-run", "c28 search failed rc=%d %s" % (rc, err[-800:])))
        return
    s = summ[0]
    ctx.extra["search_streams"] = s["summary"]
    ctx.extra["corpus_programs"] = s.get("corpus_programs")
    ctx.extra["mutations_run"] = s.get("mutations_run")
    ran = sum(v["Run"] for v in s["summary"].values())
    ctx.count(ran)
    ctx.nontrivial.update(range(10 ** 9, 10 ** 9 + s.get("distinct", 0)))
    ctx.extra["search_hangs_not_counted"] = sum(v["Hang"] for v in s["summary"].values())
    ctx.extra["search_resource_not_counted"] = sum(v["Resource"] for v in s["summary"].values())
    for x in s.get("samples") or []:
        ctx.sample({"search_program": x[:400]})
    for r in rows:
        f = r.get("finding")
        if not f:
            continue
        ctx.fail("run_panics" if f["stream"] != "new" else "new_or_params_panics",
                 {"stream": f["stream"], "lang": f["lang"], "program": f["text"][:1500]}, f.get("class") or None,
                 {"msg": f["msg"], "where": f["where"], "crash": f["crash"]})


def witnesses(ctx, binp):
    known = [k for k in ctx.known if k.get("status") == "known" and k.get("witness")]
    ws = list(WITNESSES)
    for k in known:
        w = k["witness"]
        ws.append({"ID": k["id"], "Lang": w.get("lang", "bash"), "Src": w.get("src", ""), "Opts": w.get("opts"), "Params": w.get("params")})
    # the pinned regression corpus: ordinary small inputs exercising mechanisms that once failed or that a seeded
    # change broke; visited on every seed and tier, same oracle (no panic) as the generated programs
    pinned = []
    try:
        for line in open(os.path.join(ROOT, "corpus", "c28", "regress.jsonl")):
            line = line.strip()
            if line.startswith("{"):
                pinned.append(json.loads(line))
    except OSError:
        ctx.broken.append(("pinned-corpus", "corpus/c28/regress.jsonl is missing"))
    ws += pinned
    path = os.path.join(ROOT, "build", "c28_witness_%d.jsonl" % ctx.seed)
    with open(path, "w") as f:
        for w in ws:
            f.write(json.dumps({k: v for k, v in w.items() if v is not None}) + "\n")
    rc, rows, err = ctx.jsonl([binp, "witness", "-in", path], timeout=600)
    os.remove(path)
    byid = {r["id"]: r for r in rows if "id" in r}
    for w in WITNESSES:
        r = byid.get(w["ID"])
        ctx.count(1)
        if not r:
            ctx.broken.append(("witness", "no result for " + w["ID"]))
        elif r.get("parse_err") or r.get("hang"):
            ctx.broken.append(("witness", "witness %s did not run (parse_err=%s hang=%s)" % (w["ID"], r.get("parse_err"), r.get("hang"))))
        elif r["panic"]:
            ctx.fail("fixed_defect_recurs", {"program": w["Src"]}, None, {"msg": r["msg"], "where": r["where"]})
    for w in pinned:
        r = byid.get(w["ID"])
        ctx.count(1, ["pinned:" + w["ID"]])
        if not r or r.get("parse_err") or r.get("hang"):
            ctx.broken.append(("pinned-corpus", "pinned input %s did not run: %s" % (w["ID"], json.dumps(r)[:200])))
        elif r["panic"]:
            ctx.fail("pinned_input_panics", {"id": w["ID"], "program": w.get("Src", ""), "opts": w.get("Opts"), "params": w.get("Params")},
                     None, {"msg": r["msg"], "where": r["where"]})
    ctx.extra["pinned_inputs"] = len(pinned)
    for k in known:
        r = byid.get(k["id"])
        ctx.count(1)
        if r and r["panic"]:
            ctx.fail("known_witness", {"program": k["witness"].get("src", ""), "opts": k["witness"].get("opts")}, k["class"], {"msg": r["msg"]})
        elif r:
            ctx.extra.setdefault("known_witness_no_longer_fails", []).append(k["id"])


def run(ctx):
    ctx.coq_props()
    binp = ctx.go_build("c28")
    if not binp:
        return
    ctx.rule = ("code leg: histories of 2..8 calls of the modelled builtins (set, shift, getopts, OPTIND/OPTARG assignments, pushd/popd/dirs, "
                "wait with background jobs, echo, pwd, unset (flags, names, name[sub]), break/continue in a two-level loop and outside, return in a function and outside, exit) with printable-ASCII "
                "arguments biased to negative/huge/malformed numbers, option groups, `--`, `-`, `+`, empty strings; after every call the program reports "
                "$? $- OPTIND OPTARG x y PWD $! \"$@\" and the stdout of the call. search: every builtin name x 0..11 odd arguments in 17 calling contexts "
                "after 16 preludes with repeated calls and changing parameters; ~330 statement templates x ~330 word forms in the five variants; the "
                "string literals of interp/*_test.go that parse, as is and under a fixed enumeration of mutations (number tokens -> odd numbers, word "
                "dropped/duplicated/emptied, 12 wrapping contexts); a fixed enumeration of parameter expansions: 19 subjects (scalars, unset, $@ $* arrays, sparse and associative arrays, positional and special parameters) x every operator (# ## % %% ^ ^^ , ,, : :- - := = :+ + :? ? / // /# /% with one or two arguments) x 27 argument forms that are present in the source but expand to nothing ($unset, \"\", $(true), ...) or to something, unquoted / quoted / in for and [[ ]]; interp.New with random option lists and interp.Params with odd arguments. "
                "non-trivial = distinct program texts that parse and were run to completion")
    witnesses(ctx, binp)     # repaired inputs + pinned regression corpus run first
    code_leg(ctx, binp, 500 if ctx.tier == "quick" else 6000)
    code_leg2(ctx, binp, 400 if ctx.tier == "quick" else 5000)
    search(ctx, binp)
    ctx.assumptions += [
        "the model's library functions (strconv.Atoi, interp.atoi, Itoa, []rune, IndexRune, ValidName, changeDir) are Section variables: "
        "the theorems hold for every such function; the in-kernel evaluation uses ASCII instances and the code leg only printable-ASCII arguments",
        "slice_to is stricter than Go (x[:j] is legal up to cap(x)); slices.BinarySearch on the sorted Indexes is modelled as the lower bound",
        "stderr is not modelled; sourceSetParams is not modelled (no `source` in the code leg)",
        "a worker hang or an out-of-memory kill is counted, never a verdict (C31 covers hangs)",
    ]


def replay(ctx, obj):
    """re-run the failing programs of a replay file against the current tree"""
    binp = ctx.go_build("c28")
    ws = []
    for i, f in enumerate(obj.get("failures") or []):
        inp = f.get("input") or {}
        src = inp.get("program") or inp.get("src")
        if src is None or inp.get("stream") == "new":
            continue
        ws.append({"ID": "r%d" % i, "Lang": inp.get("lang") or "bash", "Src": src})
    if not binp or not ws:
        print(json.dumps(obj, indent=1)[:4000])
        return 0 if not obj.get("failures") else 1
    path = os.path.join(ROOT, "build", "c28_replay.jsonl")
    with open(path, "w") as f:
        for w in ws:
            f.write(json.dumps(w) + "\n")
    rc, rows, err = ctx.jsonl([binp, "witness", "-in", path], timeout=600)
    os.remove(path)
    bad = 0
    for r in rows:
        if "id" in r:
            print("%s panic=%s msg=%s where=%s :: %s" % (r["id"], r["panic"], r.get("msg"), r.get("where"), r["src"][:200].replace("\n", "\\n")))
            bad += 1 if r["panic"] else 0
    return 1 if bad else 0


META = {
    "category": "proof",
    "text": ("Coq theorems (all argument vectors, all states satisfying the proved-invariant of reachable states, all call histories) that the "
             "transliterated argument handling and slice/string indexing of shift, getopts (state persisting across calls while the parameters "
             "change), set/interp.Params with the flagParser, break/continue/exit/return, wait, pushd/popd/dirs, positional parameters, unset 'a[i]' "
             "and the ${v:o:l} ${@:o:l} ${a[@]:o:l} slicing never reach a Go index/slice panic; the pre-fix shift and getopts code is refuted by "
             "witnesses. The model is tied to the code on every run (worker subprocess, vm_compute in the kernel), and a crash/recover search "
             "runs every builtin on odd argument vectors, template programs in all variants, the interp test literals with mutations, and "
             "interp.New/Params option combinations."),
    "note": ("Proved for the modelled builtins only; the rest of the interpreter (expansion, arithmetic, test, declare, redirections, unsupported "
             "nodes) is covered by the search alone. Trusted: Coq kernel + vm_compute, the hand-written model (tie = seeded differential testing), "
             "the harness' crash detection."),
    "design_ref": "DESIGN.md 4 C28",
}
