"""C18 QuoteMeta and HasMeta are consistent with matching.
Proof: coq/Props/C18.v on the C17 model (Translate.quote_meta_glob / has_meta, GlobSpec.glob_spec).
Code leg: Go pattern.QuoteMeta / pattern.HasMeta vs the model, evaluated in the Coq kernel on the same strings.
Oracle leg: bash (case, extglob off) agrees that QuoteMeta(s) matches s and nothing else (the spec-side theorem).
Search: the property itself on the real code: HasMeta(QuoteMeta(s)) is false, the real matchers
(pattern.Regexp+regexp, and the interpreter's ExtendedOperators matcher) accept s and nothing else for QuoteMeta(s),
and at most unescape(p) for a HasMeta-false p."""
import json
import os

import c17 as C


def run(ctx):
    ctx.coq_props(extra_targets=["Pattern/CaseEval.vo"])
    binp = ctx.go_build("c18")
    if not binp:
        return
    quick = ctx.tier == "quick"
    rc, rows, err = ctx.jsonl([binp, "meta", "-seed", str(ctx.seed), "-n", "2000", "-tier", ctx.tier], timeout=1800)
    pinned = C.read_regress(os.path.join(C.ROOT, "corpus", "c18", "regress.txt"))   # runs first, on every seed and tier
    rc2, wrows, err2 = ctx.jsonl([binp, "list", "--"] + pinned + ["@(a)", "@(a|b)", "a*b", "\\", "[a", "é*", "+(a"], timeout=300)
    if rc != 0 or rc2 != 0 or not rows:
        ctx.broken.append(("harness-run", "c18 meta failed rc=%d %s" % (rc, (err + err2)[-600:])))
        return
    rows = wrows + rows
    ctx.rule = ("strings/patterns: every string of length <= 2 over * ? [ ] ! ^ - \\ / . a b : ( | ) @ +, the (seed mod 8)-th "
                "eighth of length 3 (thorough: all of length <= 4), every ASCII rune except NUL/newline and a few multi-byte runes alone, "
                "doubled, embedded and escaped, plus a pinned list of 2000 token strings (classes, groups, regexp-special literals, "
                "multi-byte runes; seed rotates an eighth); each tested against all strings of length <= 3 over its runes, itself "
                "and its unescaped form, with the plain matcher and the ExtendedOperators matcher; "
                "non-trivial = distinct strings containing a metacharacter or backslash")
    # ---- search: verdicts computed by the harness against the real matchers
    for r in rows:
        s = bytes.fromhex(r["hex"]).decode("utf-8")
        ctx.count(2 * len(r.get("strs") or []), [s] if any(c in s for c in "*?[\\(") else [])
        for cl in r.get("fails") or []:
            ctx.fail(cl, {"string": s, "quotemeta": bytes.fromhex(r.get("qhex", "")).decode("utf-8")},
                     r.get("class") or None, r.get("detail"))
    for r in rows[:3]:
        ctx.sample({"s": bytes.fromhex(r["hex"]).decode(), "quotemeta": bytes.fromhex(r["qhex"]).decode(),
                    "hasmeta_q": r["hasq"], "hasmeta_s": r["hass"]})
    # ---- code leg
    step = 1 if quick else 8
    sub = rows[::step]
    items = ["(%s,%s,%s,%s)" % (C.cl(r["s"]), C.cl(r["q"]), "true" if r["hasq"] else "false", "true" if r["hass"] else "false")
             for r in sub if "q" in r]
    res = C.coq_shards(ctx, "c18meta", C.HEADER, "list N * list N * bool * bool",
                       "(fun c => match c with (s,q,a,b) => meta_case s q a b end)", items)
    if res is not None:
        mism = [{"s": "".join(map(chr, sub[i]["s"])), "go_quotemeta": "".join(map(chr, sub[i]["q"])),
                 "go_hasq": sub[i]["hasq"], "go_hass": sub[i]["hass"], "kind": v} for i, v in res]
        ctx.leg("code:pattern.QuoteMeta/HasMeta vs Translate.quote_meta_glob/has_meta (vm_compute)", len(items), mism)
    # ---- oracle leg: in bash without extglob, QuoteMeta(s) matches exactly s (what C18_quotemeta_matches_only_self says of the spec)
    # (the empty string is skipped here: the oracle file cannot carry a second empty test string)
    osub = [r for r in rows[::(2 if quick else 10)] if r.get("strs") and r["hex"] != "" and "1f" not in [r["hex"][i:i + 2] for i in range(0, len(r["hex"]), 2)]]
    items = [(bytes.fromhex(r["qhex"]).decode(), [bytes.fromhex(x).decode() for x in r["strs"]]) for r in osub]
    bits = C.run_bash(ctx, "case_noext", items)
    quoted = C.run_bash(ctx, "quoted", [(bytes.fromhex(r["hex"]).decode(), it[1]) for r, it in zip(osub, items)])
    mism = []
    for r, it, b, qb in zip(osub, items, bits, quoted):
        s = bytes.fromhex(r["hex"]).decode()
        want = "".join("1" if t == s else "0" for t in it[1])
        if b != want or qb != want:
            mism.append({"s": s, "quotemeta": it[0], "bash_unquoted_q": b, "bash_quoted_s": qb, "want": want})
    ctx.leg("oracle:bash (extglob off) matches QuoteMeta(s) / the quoted \"$s\" against exactly s", len(items), mism)
    ctx.assumptions += ["strings are valid UTF-8 without NUL", "the matchers are the real Go ones; their own fidelity to bash is C17"]


def replay(ctx, obj):
    print(json.dumps(obj, indent=1))
    return 0


META = {
    "category": "proof",
    "text": ("Coq theorems on the C17 model: QuoteMeta(s) has no metacharacters (all s) and, under bash's matching rule "
             "without extended operators, matches s and nothing else (all s without NUL, all candidates); HasMeta-false "
             "flat patterns match only their unescaped text; both laws refuted by witness when extended operators are on. "
             "Model tied to pattern.QuoteMeta/HasMeta by in-kernel evaluation; the law itself searched on the real matchers "
             "(plain and ExtendedOperators) over exhaustive short strings."),
    "note": ("Known finding: QuoteMeta/HasMeta ignore extended operators (case a in \"$x\" with x='@(a)' matches). "
             "hasmeta_false_single is proved for patterns without an unescaped '[' only."),
    "design_ref": "DESIGN.md 4 C18",
}
