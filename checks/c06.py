"""C06 Parsing and printing never crash or hang.

Mainly a SEARCH: recover()+watchdog around Parse/StmtsSeq/WordsSeq/InteractiveSeq/Document/Arithmetic x 5 variants x
KeepComments x StopAt x RecoverErrors(0..3), then Print (5 option sets), Walk, typedjson.Encode, Simplify on every node
that comes back, in a worker subprocess (a hang/crash is an observation).  Inputs: the repo's test-table literals
(read as data), grammar-generated programs of all variants, byte mutations, random bytes, deep nesting.
Proof: coq/Props/C06.v - the parser's progress discipline as an abstract progress machine (Syntax/Fuel.v):
every run takes <= 2*len + c steps.  Code leg: the same bound on the real parser, counted by build-time
instrumentation (go build -overlay of a generated copy of lexer.go/parser.go/parser_arithm.go; the repo is not
touched): calls of Parser.next <= 2*len+c, calls of Parser.rune <= 2*len+c, loop iterations <= L*len+L0, and exact
linear growth of the step count on repeated/nested families at sizes n,2n,4n,8n."""
import fcntl
import hashlib
import json
import os
import re

import vcheck

# constants of the progress bound.  NEXT/RUNE: "2*len + c" is the bound proved for the abstract machine in
# Syntax/Fuel.v (each call consumes >= 1 byte, or happens at EOF where at most one call per open construct + c are made).
C_CONST = 6
# loop iterations per byte: calibrated on the unchanged tree (max observed 20.5/byte on nested a[a[..]]=1), not derived.
LOOP_A, LOOP_B = 60, 96


def build_instrumented(ctx):
    """c06inst -> overlay; go build -overlay cmd/c06.  Returns path of the instrumented binary or None."""
    inst = ctx.go_build("c06inst")
    if not inst:
        return None, None
    tag = "" if vcheck.REPO == "/repo" else "-" + hashlib.sha1(vcheck.REPO.encode()).hexdigest()[:8]
    ovdir = os.path.join(vcheck.BUILD, "c06ov" + tag)
    rc, rows, err = ctx.jsonl([inst, "inst", "-in", vcheck.REPO, ovdir])
    if rc != 0 or not rows:
        ctx.broken.append(("instrumentation", "c06inst failed on %s: %s" % (vcheck.REPO, err[-600:])))
        return None, None
    sites = rows[0]
    if sites.get("next_sites") != 1 or sites.get("rune_sites") != 1 or sites.get("loop_sites", 0) < 20:
        ctx.broken.append(("instrumentation", "anchors Parser.next/Parser.rune/for-loops not found as expected: %s" % sites))
        return None, None
    h = os.path.join(vcheck.ROOT, "harness")
    modfile = os.path.join(vcheck.BUILD, "go%s.mod" % tag)   # written by go_build above
    out = os.path.join(vcheck.BUILD, "c06i" + tag)
    lock = open(os.path.join(vcheck.BUILD, ".golock"), "w")
    fcntl.flock(lock, fcntl.LOCK_EX)
    try:
        rc, o, e = ctx.run(["go", "build", "-overlay", os.path.join(ovdir, "overlay.json"), "-modfile", modfile,
                            "-tags", "verif", "-o", out, "./cmd/c06"], cwd=h, timeout=900)
    finally:
        fcntl.flock(lock, fcntl.LOCK_UN)
        lock.close()
    if tag:
        import shutil
        shutil.rmtree(ovdir, ignore_errors=True)   # scratch trees: leave nothing behind in build/
    if rc != 0:
        ctx.broken.append(("go-build", "instrumented c06 harness does not build: %s" % (o + e)[-1200:]))
        return None, None
    return out, sites


def klass_of_panic(p):
    """narrow attribution: Parser.Arithmetic hands back a partial expression (nil operands) together with its error."""
    if p["entry"] == "Arithmetic" and p.get("err") and p["stage"] != "parse":
        return "arithmetic_partial_tree_with_error"
    return None


def run(ctx):
    ctx.coq_props()
    binp, sites = build_instrumented(ctx)
    if not binp:
        return
    thorough = ctx.tier == "thorough"
    ngen = "1500" if thorough else "120"
    env = {"VERIF_REPO": vcheck.REPO, "C06_BUDGET_S": "3000" if thorough else "60"}
    rc, out, err = ctx.run([binp, "search", "-seed", str(ctx.seed), "-tier", ctx.tier, "-n", ngen],
                           timeout=4800 if thorough else 300, env=env)
    rows = [json.loads(l) for l in out.splitlines() if l.startswith("{")]
    summ = [r["summary"] for r in rows if "summary" in r]
    rows = [r for r in rows if "id" in r]
    if rc != 0 or not rows or not summ:
        ctx.broken.append(("harness-run", "c06 search failed rc=%d %s" % (rc, err[-800:])))
        return
    ctx.rule = ("FIXED ENUMERATION every run: every byte-prefix of a catalogue of ~100 constructs (one instance of every clause, "
                "operator family and node type in every variant) x 5 variants x RecoverErrors(0..3) x Parse/StmtsSeq/InteractiveSeq "
                "(+WordsSeq/Document/Arithmetic); prefixes at every token boundary of a 1/32 corpus slice (thorough: whole corpus) under "
                "RecoverErrors(1,3); then: every 8th (thorough: every) string literal of syntax/{filetests,printer,parser}_test.go (slice rotated by "
                "seed) + pinned witnesses; per seed N each of: grammar-generated programs mixing bash/mksh/zsh/bats/POSIX constructs, "
                "POSIX-only programs, 1-3 byte-level mutations of corpus and of generated programs, random bytes (uniform / metachar "
                "soup / keyword soup), nesting of one construct 1..40 deep (closed or not), generated words, arithmetic expressions; "
                "each input x 6 entry points x 5 variants x options (full 480-way cross on every 16th input, seeded sample of 50 "
                "otherwise); non-trivial = distinct input on which at least one entry point returned a node")
    ctx.extra["search_summary"] = summ[0]
    ctx.extra["instrumentation_sites"] = sites
    # ---------------- search: panics, hangs, crashes
    nconf = 0
    for r in rows:
        nconf += r.get("nconf", 0)
        ctx.count(r.get("nconf", 1), [r["hex"]] if r.get("ntrees") else [])
        inp = {"hex": r["hex"], "text": bytes.fromhex(r["hex"]).decode("utf-8", "replace")[:200]}
        if r.get("hang"):
            ctx.fail("hang", inp, None, r["hang"])
        if r.get("crash"):
            ctx.fail("crash_unrecoverable", inp, None, r["crash"])
        seen = set()
        for p in r.get("panics") or []:
            k = klass_of_panic(p)
            key = (k, p["stage"].split("/")[0])
            if key in seen:
                continue
            seen.add(key)
            clause = "panic_in_parse" if p["stage"] == "parse" else "panic_in_" + p["stage"].split("/")[0]
            ctx.fail(clause, dict(inp, entry=p["entry"], cfg=p["cfg"]), k, p)
    for r in rows[:2]:
        ctx.sample({"id": r["id"], "text": bytes.fromhex(r["hex"]).decode("utf-8", "replace")[:80], "configs": r["nconf"],
                    "trees": r["ntrees"], "errors": r["nerr"], "next": r["next"], "rune": r["rune"], "loop": r["loop"]})
    # ---------------- code leg: the progress bound of Syntax/Fuel.v on the real parser (instrumented counters)
    mism = []
    if not any(r.get("rune") for r in rows):
        ctx.broken.append(("instrumentation", "counters stayed zero: the overlay was not compiled in"))
    for r in rows:
        if r.get("hang") or r.get("crash"):
            continue
        n = r["len"]
        bad = []
        if r["xrune"] + n > 2 * n + C_CONST:
            bad.append("rune calls %d > 2*%d+%d" % (r["xrune"] + n, n, C_CONST))
        if r["xnext"] + n > 2 * n + C_CONST:
            bad.append("next calls %d > 2*%d+%d" % (r["xnext"] + n, n, C_CONST))
        if r["max_step"] > (LOOP_A + 4) * n + LOOP_B:
            bad.append("steps %d > %d*%d+%d (%s)" % (r["max_step"], LOOP_A + 4, n, LOOP_B, r.get("max_cfg")))
        if bad:
            mism.append({"hex": r["hex"][:400], "len": n, "why": bad, "cfg": r.get("xcfg")})
            ctx.fail("superlinear_steps", {"hex": r["hex"], "text": bytes.fromhex(r["hex"]).decode("utf-8", "replace")[:200]}, None, bad)
    ctx.leg("code:progress bound (next,rune <= 2*len+%d; steps <= %d*len+%d) on instrumented parser" % (C_CONST, LOOP_A + 4, LOOP_B),
            nconf, mism)
    # ---------------- time: linear envelope fitted on the run; outliers re-run alone before they count
    ratios = sorted(r["ns_parse"] / (r["len"] + 100.0) for r in rows if r.get("ns_parse"))
    if ratios:
        k = ratios[len(ratios) // 2]
        ctx.extra["time_envelope_ns_per_byte"] = round(k, 2)
        sus = [r for r in rows if r.get("ns_parse") and r["ns_parse"] > 20 * k * (r["len"] + 100) and r["ns_parse"] > 20e6]
        for r in sus[:10]:
            path = os.path.join(vcheck.BUILD, "c06_one_%d.hex" % ctx.seed)
            open(path, "w").write(r["hex"])
            best = None
            for _ in range(3):
                rc1, one, _e = ctx.jsonl([binp, "one", "-in", path], timeout=600, )
                if one:
                    t = one[0]["ns_parse"]
                    best = t if best is None else min(best, t)
            if best is not None and best > 20 * k * (r["len"] + 100) and best > 20e6:
                ctx.fail("time_outlier_20x", {"hex": r["hex"], "text": bytes.fromhex(r["hex"]).decode("utf-8", "replace")[:200]}, None,
                         {"ns": best, "envelope_ns": k * (r["len"] + 100)})
        ctx.extra["time_outliers_rechecked"] = len(sus)
    # ---------------- scale families: step counts must grow exactly linearly
    rc, srows, err = ctx.jsonl([binp, "scale", "-seed", str(ctx.seed), "-tier", ctx.tier], timeout=1200)
    smism = []
    for s in srows:
        if "family" not in s:
            continue
        ctx.count(4)
        if s.get("hang") or s.get("crash"):
            ctx.fail("hang" if s.get("hang") else "crash_unrecoverable",
                     {"family": s["family"], "closed": s["closed"], "lang": s["lang"], "entry": s["entry"]}, None, s.get("hang") or s.get("crash"))
            continue
        if s.get("panic"):
            pk = None
            if s["entry"] == "Arithmetic" and s.get("with_err") and not s["panic"].startswith("parse:"):
                pk = "arithmetic_partial_tree_with_error"   # Post ran on the node Arithmetic returned with its error
            ctx.fail("panic_on_large_input", {"family": s["family"], "closed": s["closed"], "lang": s["lang"], "entry": s["entry"],
                                              "sizes": s["sizes"]}, pk, s["panic"])
        per = [st / float(sz) for st, sz in zip(s["steps"], s["sizes"])]
        if per[0] > 0 and max(per) > 1.15 * per[0] + 0.5:
            smism.append({"family": s["family"], "steps_per_byte": [round(x, 2) for x in per], "sizes": s["sizes"]})
            ctx.fail("superlinear_steps", {"family": s["family"], "closed": s["closed"], "lang": s["lang"], "entry": s["entry"],
                                           "sizes": s["sizes"]}, None, per)
        if max(per) > LOOP_A + 4:
            smism.append({"family": s["family"], "steps_per_byte": [round(x, 2) for x in per]})
    ctx.leg("code:step count linear in n on %d repeated/nested families (n,2n,4n,8n)" % len(srows), 4 * len(srows), smism)
    ctx.assumptions += [
        "C06 is mainly established by search; the Coq theorem covers the progress argument (abstract machine) only",
        "loop-iteration constant %d/byte is calibrated on the unchanged tree, not derived" % LOOP_A,
        "wall-clock outliers count only after three solitary re-runs (the machine is shared); step counts are the primary linearity measure",
        "inputs are <= ~50 kB (thorough: 400 kB); Go stack exhaustion on multi-megabyte nesting is not explored",
    ]


def replay(ctx, obj):
    print(json.dumps(obj, indent=1)[:4000])
    return 0


META = {
    "category": "proof",
    "text": ("Search (main evidence): six parser entry points x 5 variants x KeepComments/StopAt/RecoverErrors(0..3) on corpus, "
             "grammar-generated, mutated, random and deeply nested inputs, then Print/Walk/typedjson/Simplify on every returned node, "
             "under recover() in a watchdog-supervised worker; deterministic linearity check by counting Parser.next/Parser.rune calls "
             "and loop iterations (build-time overlay instrumentation). Coq: abstract progress machine with theorem "
             "C06_progress_terminates (steps <= 2*len + c), tied to the code by checking the same bound on the counters."),
    "note": ("Partial: a theorem about Go runtime panics in the unmodelled parser is not possible; the proof covers the progress "
             "argument only. Known finding: Parser.Arithmetic returns a partial expression with nil operands together with an error; "
             "Walk/Simplify/typedjson/Print panic on it."),
    "design_ref": "DESIGN.md 4 C06",
}
