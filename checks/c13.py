"""C13 Quote produces a word that expands back to the string.
Proof: coq/Props/C13.v over the model coq/Syntax/Quote.v (+ Base/Utf8.v).
Code leg: Go syntax.Quote vs the Coq model (vm_compute in the kernel) on the same strings, five variants,
          is_print = the table dumped from the Go runtime on this run.
Search: Parse(": "+Quote(s)) shape + expand.Literal/Fields == s for every variant; printf in real bash (LangBash)
        and dash (LangPOSIX); bash `type -t` as reserved-word oracle for unquoted results; direct
        fails-only-when spec in the harness."""
import json
import os
import re

import hashlib
import time

from vcheck import BUILD, COQ, ROOT, coq_bytes, coq_list

LANGS = ["LBash", "LPosix", "LMksh", "LBats", "LZsh"]
LANGNAMES = ["bash", "posix", "mksh", "bats", "zsh"]


def tree(ranges):
    """balanced search tree over the printable ranges, as a Coq term"""
    def go(lo, hi):
        if lo >= hi:
            return "L"
        m = (lo + hi) // 2
        return "(Nd %s %d %d %s)" % (go(lo, m), ranges[m][0], ranges[m][1], go(m + 1, hi))
    return go(0, len(ranges))


def coq_res(q):
    if q == "P":
        return "Panic"
    if q.startswith("Q:"):
        return "(Ok %s)" % coq_bytes(q[2:])
    _, code, offs = q.split(":")
    return "(Err %d)" % (8 * int(offs) + int(code))


PRELUDE = """From Verif Require Import Base.Str Base.Utf8 Syntax.Quote.
Open Scope N_scope.
Inductive T := L | Nd (l : T) (lo hi : N) (r : T).
Fixpoint tlook (t : T) (x : N) : bool :=
  match t with L => false
  | Nd l lo hi r => if x <? lo then tlook l x else if hi <? x then tlook r x else true end.
Definition table : T := %s.
Definition is_print (r : N) : bool := tlook table r.
Definition res_eqb (a b : res str) : bool :=
  match a, b with
  | Panic, Panic => true
  | Ok x, Ok y => str_eqb x y
  | Err x, Err y => x =? y
  | _, _ => false end.
Definition langs := [LBash; LPosix; LMksh; LBats; LZsh].
Fixpoint all_eq (s : str) (ls : list lang) (es : list (res str)) : bool :=
  match ls, es with
  | [], [] => true
  | l :: ls', e :: es' => res_eqb (quote is_print s l) e && all_eq s ls' es'
  | _, _ => false end.
(* model-side round trip: whenever the model quotes, the model's unquote gives s back *)
Definition rt_ok (s : str) : bool :=
  forallb (fun l => match quote is_print s l with
                    | Ok q => match unquote l q with Some t => str_eqb t s | None => false end
                    | _ => true end) langs.
Fixpoint mism (i : nat) (cs : list (str * list (res str))) : list nat :=
  match cs with [] => []
  | (s, es) :: rest => if all_eq s langs es then mism (S i) rest else i :: mism (S i) rest end.
Fixpoint rtbad (i : nat) (cs : list (str * list (res str))) : list nat :=
  match cs with [] => []
  | (s, es) :: rest => if rt_ok s then rtbad (S i) rest else i :: rtbad (S i) rest end.
"""


def build_extracted(ctx):
    """Extract/quote/QuoteExtract.v (built with the props) wrote quote_model.ml; compile it with the driver."""
    d = os.path.join(COQ, "Extract", "quote")
    try:
        srcs = [open(os.path.join(d, f)).read() for f in ("quote_model.mli", "quote_model.ml", "driver.ml")]
    except OSError as ex:
        ctx.broken.append(("extraction", "extracted model missing: %s" % ex))
        return None
    h = hashlib.sha1("\0".join(srcs).encode()).hexdigest()[:10]
    out = os.path.join(BUILD, "c13_model_" + h)
    if os.path.exists(out):
        return out
    wd = os.path.join(BUILD, "c13_ml_%d" % os.getpid())
    os.makedirs(wd, exist_ok=True)
    for f, s in zip(("quote_model.mli", "quote_model.ml", "driver.ml"), srcs):
        open(os.path.join(wd, f), "w").write(s)
    rc, o, e = ctx.run(["ocamlfind", "ocamlopt", "-O3", "-o", out + ".tmp", "quote_model.mli", "quote_model.ml", "driver.ml"],
                       cwd=wd, timeout=300)
    import shutil
    shutil.rmtree(wd, ignore_errors=True)
    if rc != 0:
        ctx.broken.append(("extraction", "ocamlopt failed: " + (o + e)[-800:]))
        return None
    os.replace(out + ".tmp", out)
    return out


def run(ctx):
    ph = ctx.extra.setdefault("phase_s", {})
    t0 = time.time()
    ctx.coq_props(extra_targets=["Extract/quote/QuoteExtract.vo"])
    ph["coq_props"] = round(time.time() - t0, 1)
    t0 = time.time()
    binp = ctx.go_build("c13")
    ph["go_build"] = round(time.time() - t0, 1)
    if not binp:
        return
    n = 1500 if ctx.tier == "quick" else 20000
    t0 = time.time()
    rc0, trows, err0 = ctx.jsonl([binp, "table"])
    rc, rows, err = ctx.jsonl([binp, "gen", "-seed", str(ctx.seed), "-n", str(n), "-tier", ctx.tier,
                               "-in", os.path.join(ROOT, "corpus", "c13", "regress.txt")], timeout=1500)
    ph["harness"] = round(time.time() - t0, 1)
    summary = [r for r in rows if "summary" in r]
    rows = [r for r in rows if "s" in r]
    if rc0 != 0 or rc != 0 or not rows or not trows or not summary:
        ctx.broken.append(("harness-run", "c13 harness failed rc=%d/%d %s" % (rc0, rc, (err0 + err)[-800:])))
        return
    ranges = trows[0]["ranges"]
    summary = summary[0]["summary"]
    if summary.get("shell_broken"):
        ctx.broken.append(("shell-oracle", "bash/dash runs did not complete: " + summary["shell_broken"]))
    ctx.extra["shell_cases"] = {"bash": summary["bash_cases"], "dash": summary["dash_cases"]}
    ctx.extra["is_print_ranges"] = len(ranges)
    # witnesses of listed findings are re-run every time
    wit = [k["witness"]["s_hex"] for k in ctx.known if k.get("witness", {}).get("s_hex") is not None]
    if wit:
        wf = os.path.join(os.path.dirname(binp), "c13_witness_%d.txt" % os.getpid())
        open(wf, "w").write("\n".join(w or "-" for w in wit) + "\n")
        rcw, wrows, errw = ctx.jsonl([binp, "one", "-in", wf])
        os.remove(wf)
        rows += [r for r in wrows if "s" in r]
    ctx.rule = ("strings: pinned regression corpus corpus/c13/regress.txt (first, every seed and tier) + '' + all 256 one-byte strings + two-byte strings (quick: the 8*256 with first byte = seed%32 + 32j; "
                "thorough: all 65536) + every string of length <= 3 over a 13-token critical alphabet (quotes, \\ ` $, hex digit, "
                "control, newline, multi-byte, invalid byte) + the reserved-word list + random strings (3/8 from profiles aimed at the "
                "\"..\", $'..' and '..' strategies) of 1..16 tokens biased to shell metacharacters, reserved words, multi-byte "
                "runes (incl. U+FFFD, U+FFFE, non-characters, C1 controls, planes 1..16), invalid UTF-8 (lone lead/continuation "
                "bytes, overlongs, surrogates, > U+10FFFF), control bytes, hex digits (mksh re-quoting), occasional NUL; each for "
                "the five variants; non-trivial = distinct string that some variant has to quote or refuse. Unquote legs: quoted "
                "texts = Quote outputs with 0..2 byte mutations, and assemblies of 1..3 parts (bare run, '..', \"..\", $'..') over "
                "an alphabet of escapes, quotes, $ ` backslash, hex/octal digits, multi-byte and invalid bytes; non-trivial = text that "
                "some variant's parser accepts as one inert word")
    # ---- search verdicts (computed in the harness against the real code / real shells)
    for r in rows:
        ctx.count(1, [r["s"]] if r.get("nt") else [])
        for f in r.get("fails") or []:
            clause = f.split(":")[0]
            ctx.fail(clause, {"s_hex": r["s"]}, r.get("class") or None, {"q": r["q"], "fail": f})
    for r in rows[300:303]:
        ctx.sample({"s_hex": r["s"], "go_quote": dict(zip(LANGNAMES, r["q"]))})
    # ---- code leg, volume: the model extracted to OCaml (N/positive/nat stay inductive) on every case
    def enc(q):
        if q == "P":
            return "P"
        if q.startswith("Q:"):
            return "Q" + (q[2:] or "-")
        _, code, offs = q.split(":")
        return "E%d" % (8 * int(offs) + int(code))
    t0 = time.time()
    mbin = build_extracted(ctx)
    if not mbin:
        return
    tf = os.path.join(BUILD, "c13_table_%d.txt" % os.getpid())
    cf = os.path.join(BUILD, "c13_cases_%d.txt" % os.getpid())
    open(tf, "w").write("".join("%d %d\n" % (a, b) for a, b in ranges))
    open(cf, "w").write("".join((r["s"] or "-") + " " + " ".join(enc(q) for q in r["q"]) + "\n" for r in rows))
    rcm, outm, errm = ctx.run([mbin, tf, cf], timeout=1200)
    os.remove(tf)
    os.remove(cf)
    if rcm != 0 or ("done %d" % len(rows)) not in outm:
        ctx.broken.append(("correspondence:code-eval", "extracted model driver failed rc=%d %s" % (rcm, (outm + errm)[-600:])))
        return
    has_nul = lambda h: "00" in [h[j:j + 2] for j in range(0, len(h), 2)]
    mism = [{"s_hex": rows[int(x)]["s"], "go_quote": rows[int(x)]["q"]} for x in re.findall(r"^M (\d+)$", outm, re.M)]
    rtbad = [{"s_hex": rows[int(x)]["s"]} for x in re.findall(r"^R (\d+)$", outm, re.M) if not has_nul(rows[int(x)]["s"])]
    ctx.leg("code:syntax.Quote (5 variants) vs Syntax/Quote.v quote (extracted OCaml)", len(rows) * 5, mism)
    ctx.leg("model:unquote l (quote s l) = Some s evaluated (extracted OCaml) on the same strings", len(rows), rtbad,
            note="evaluation of the round-trip statement; covers what C13_roundtrip leaves _partial")
    ph["extracted"] = round(time.time() - t0, 1)
    t0 = time.time()
    # ---- code leg, in-kernel cross-check (vm_compute) on a sample: short strings + the random tail + earlier mismatches
    k = 400 if ctx.tier == "quick" else 2500
    rnd = [r for r in rows if len(r["s"]) > 4]
    short = [r for r in rows if len(r["s"]) <= 4]
    step = max(1, len(short) // (k // 2))
    off = ctx.seed % step
    samp = rows[:60] + short[off::step][:k // 2] + rnd[:k // 2]
    bads = set(m["s_hex"] for m in mism + rtbad)
    samp += [r for r in rows if r["s"] in bads][:50]
    prelude = PRELUDE % tree(ranges)
    kmism, krt, total = [], [], 0
    shard = 1300
    for sh in range(0, len(samp), shard):
        part = samp[sh:sh + shard]
        items = ["(%s,%s)" % (coq_bytes(r["s"]), coq_list([coq_res(q) for q in r["q"]])) for r in part]
        text = prelude + "Definition cases : list (str * list (res str)) := %s.\n" % coq_list(items) + \
            "Definition M := Eval vm_compute in mism 0 cases.\nPrint M.\n" \
            "Definition R := Eval vm_compute in rtbad 0 cases.\nPrint R.\n"
        ok, out = ctx.coq_cases("c13_%d_%d" % (os.getpid(), sh), text, timeout=1500)
        try:
            os.remove(os.path.join(ROOT, "coq", "Cases", "c13_%d_%d.v" % (os.getpid(), sh)))
        except OSError:
            pass
        m = re.search(r"M\s*=\s*(\[[^\]]*\])", out)
        m2 = re.search(r"R\s*=\s*(\[[^\]]*\])", out)
        if not ok or not m or not m2:
            ctx.broken.append(("correspondence:code-eval", "coqc on generated cases failed: " + out[-800:]))
            return
        total += len(part)
        for i in [int(x) for x in re.findall(r"\d+", m.group(1))]:
            kmism.append({"s_hex": part[i]["s"], "go_quote": part[i]["q"]})
        for i in [int(x) for x in re.findall(r"\d+", m2.group(1))]:
            if not has_nul(part[i]["s"]):
                krt.append({"s_hex": part[i]["s"]})
    ctx.leg("code:syntax.Quote vs Syntax/Quote.v quote + model round trip (vm_compute in kernel, sample)", total * 5, kmism + krt)
    ph["kernel"] = round(time.time() - t0, 1)
    # ---- unquote legs: the model's unquote vs syntax.Parser + expand.Literal (five variants) and vs bash / dash,
    #      on arbitrary quoted texts (mutated Quote outputs and random '..' ".." $'..' assemblies)
    t0 = time.time()
    nu = 3000 if ctx.tier == "quick" else 60000
    rcu, urows, erru = ctx.jsonl([binp, "unq", "-seed", str(ctx.seed), "-n", str(nu)], timeout=1200)
    urows = [r for r in urows if "uq" in r]
    if rcu != 0 or not urows:
        ctx.broken.append(("harness-run", "c13 unq failed rc=%d %s" % (rcu, erru[-600:])))
        return
    uf = os.path.join(BUILD, "c13_ucases_%d.txt" % os.getpid())
    open(uf, "w").write("".join(" ".join([r["uq"]] + r["g"] + [r["bash"], r["dash"]]) + "\n" for r in urows))
    rcm, outu, errm = ctx.run([mbin, "-unq", uf], timeout=1200)
    os.remove(uf)
    msome = re.search(r"^some (\d+)$", outu, re.M)
    if rcm != 0 or ("done %d" % len(urows)) not in outu or not msome:
        ctx.broken.append(("correspondence:unquote-eval", "extracted model driver (-unq) failed rc=%d %s" % (rcm, (outu + errm)[-600:])))
        return
    def urow(i, li=None):
        r = urows[int(i)]
        d = {"q_hex": r["uq"], "go": r["g"], "bash": r["bash"], "dash": r["dash"]}
        if li is not None:
            d["variant"] = LANGNAMES[int(li)]
        return d
    um = [urow(i, li) for i, li in re.findall(r"^U (\d+) (-?\d+)$", outu, re.M)]
    bm = [urow(i) for i in re.findall(r"^B (\d+)$", outu, re.M)]
    dm = [urow(i) for i in re.findall(r"^D (\d+)$", outu, re.M)]
    nb = sum(1 for r in urows if r["bash"] != "?")
    nd = sum(1 for r in urows if r["dash"] != "?")
    ctx.leg("code:Syntax/Quote.v unquote = Some t  =>  syntax.Parser + expand.Literal give the one inert word t (5 variants, extracted OCaml)",
            int(msome.group(1)), um, note="%d quoted texts; compared whenever the conservative model answers Some" % len(urows))
    ctx.leg("oracle:unquote LBash q = Some t => bash printf gives t", nb, bm)
    ctx.leg("oracle:unquote LPosix q = Some t => dash printf gives t", nd, dm)
    for r in urows:
        ctx.count(1, ["u" + r["uq"]] if any(g.startswith("W") for g in r["g"]) else [])
    # in-kernel cross-check of unquote on a sample
    ks = [r for r in urows if all(g != "?" for g in r["g"])][:250]
    def coq_opt(g):
        return "(Some %s)" % coq_bytes(g[2:]) if g.startswith("W:") else "None"
    items = ["(%s,%s)" % (coq_bytes(r["uq"]), coq_list([coq_opt(g) for g in r["g"]])) for r in ks]
    text = """From Verif Require Import Base.Str Base.Utf8 Syntax.Quote.
Open Scope N_scope.
Definition langs := [LBash; LPosix; LMksh; LBats; LZsh].
Definition ok1 (l : lang) (q : str) (g : option str) : bool :=
  match unquote l q, g with Some t, Some t' => str_eqb t t' | Some _, None => false | None, _ => true end.
Fixpoint okall (q : str) (ls : list lang) (gs : list (option str)) : bool :=
  match ls, gs with [], [] => true | l :: ls', g :: gs' => ok1 l q g && okall q ls' gs' | _, _ => false end.
Fixpoint bad (i : nat) (cs : list (str * list (option str))) : list nat :=
  match cs with [] => [] | (q, gs) :: rest => if okall q langs gs then bad (S i) rest else i :: bad (S i) rest end.
Definition cases : list (str * list (option str)) := %s.
Definition U := Eval vm_compute in bad 0 cases.
Print U.
""" % coq_list(items)
    ok, out = ctx.coq_cases("c13_%d_u" % os.getpid(), text, timeout=900)
    try:
        os.remove(os.path.join(ROOT, "coq", "Cases", "c13_%d_u.v" % os.getpid()))
    except OSError:
        pass
    m = re.search(r"U\s*=\s*(\[[^\]]*\])", out)
    if not ok or not m:
        ctx.broken.append(("correspondence:unquote-eval", "coqc on generated unquote cases failed: " + out[-800:]))
        return
    ctx.leg("code:unquote vs syntax.Parser + expand.Literal (vm_compute in kernel, sample)", len(ks) * 5,
            [urow(urows.index(ks[int(x)])) for x in re.findall(r"\d+", m.group(1))])
    ph["unquote"] = round(time.time() - t0, 1)
    ctx.assumptions += ["is_print := unicode.IsPrint table dumped from the Go runtime on this run (Section variable in the model; "
                        "the theorems hold for every is_print)",
                        "no mksh/zsh binary here: for LangMirBSDKorn/LangZsh/LangBats the expansion oracle is syntax.Parser + expand only",
                        "unquote is a conservative model of word lexing + quote removal + $'..' decoding (follows expand.Format); its "
                        "agreement with bash/dash is what the shell search tests",
                        "LangVariant(0) (legacy zero value) is outside the modelled variant set"]


def replay(ctx, obj):
    print(json.dumps(obj, indent=1))
    return 0


META = {
    "category": "proof",
    "text": ("Coq theorems over a transliterated model of syntax.Quote (UTF-8 rune loop, unquoted / '..' / \"..\" / $'..' strategies, "
             "mksh hex re-quoting, error cases) and a transducer model of word lexing + quote removal + $'..' decoding: "
             "round trip unquote(Quote s) = s for all byte strings, exact characterisation of the error cases, unquoted results "
             "contain no metacharacter and are no reserved word; model tied to the code on every run by vm_compute on the "
             "same strings (exhaustive <= 1 byte, rotating/exhaustive 2 bytes, biased random); search with syntax.Parser + "
             "expand.Literal for five variants and real bash/dash printf."),
    "note": ("Trusted: Coq kernel + vm_compute; hand-written model (tie = differential testing); unquote models expand.Format's "
             "escape rules, bash/dash agreement is tested, mksh/zsh shells unavailable."),
    "design_ref": "DESIGN.md 4 C13",
}
