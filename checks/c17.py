"""C17 Glob patterns match exactly what bash matches.
Proof: coq/Props/C17.v over coq/Pattern/{Regex,Translate,GlobSpec}.v.
Code leg: pattern.Regexp text/error (+ regexp.Compile) and internal.ExtendedPatternMatcher vs the Coq model
(Translate.v) evaluated by vm_compute on the same patterns x modes; regexp-meaning leg: Go regexp.MatchString vs the
Coq derivative matcher on all strings of length <= 3 over the pattern's alphabet.
Oracle leg: GlobSpec.v (bash's rule) vs real bash 5.2 on a sample of the searched patterns.
Search: the interpreter's matcher / pattern.Regexp+regexp vs real bash ([[ s == p ]], case with extglob on/off,
nocasematch) on exhaustive short patterns over the metacharacter alphabet and a pinned list of longer token patterns."""
import json
import os
import re
import tempfile
from concurrent.futures import ThreadPoolExecutor

ROOT = os.path.dirname(os.path.dirname(os.path.abspath(__file__)))
ORACLE = os.path.join(ROOT, "corpus", "c17", "oracle.sh")


# ------------------------------------------------------------------ helpers shared with c18
def cl(xs):
    return "[" + ";".join(str(x) for x in xs) + "]"


def cbits(b):
    return "[" + ";".join("true" if c == "1" else "false" for c in b) + "]"


def unhex(h):
    return bytes.fromhex(h).decode("utf-8")


def run_bash(ctx, cfg, items, par=8):
    """items: list of (pattern, [strings, first is '']) -> list of bit strings (one per pattern)."""
    if not items:
        return []

    def one(chunk):
        f = tempfile.NamedTemporaryFile("w", delete=False, dir=os.path.join(ROOT, "build"), suffix=".c17in", encoding="utf-8")
        try:
            for p, ss in chunk:
                f.write(p + "\n" + "\x1f".join(ss[1:]) + "\n")
            f.close()
            rc, out, err = ctx.run(["env", "-i", "LC_ALL=C.UTF-8", "PATH=/usr/bin:/bin", "timeout", "600", "bash", ORACLE, cfg, f.name],
                                   timeout=700, cwd=os.path.join(ROOT, "build"))
        finally:
            os.unlink(f.name)
        lines = out.split("\n")[:-1]
        if len(lines) != len(chunk):
            raise RuntimeError("bash oracle returned %d lines for %d patterns (rc=%s): %s" % (len(lines), len(chunk), rc, err[-300:]))
        return lines
    n = max(1, len(items) // par + 1)
    chunks = [items[i:i + n] for i in range(0, len(items), n)]
    with ThreadPoolExecutor(par) as ex:
        res = list(ex.map(one, chunks))
    return [x for c in res for x in c]


def coq_shards(ctx, name, header, ctype, runner, items, nshards=8):
    """Evaluate `runner` (a Coq function item -> N verdict, 0 = agree) over items in parallel shards.
    Returns list of (index, verdict) with verdict != 0, or None if coqc failed."""
    if not items:
        return []
    n = max(1, (len(items) + nshards - 1) // nshards)

    def one(k):
        part = items[k * n:(k + 1) * n]
        if not part:
            return []
        text = """%s
Open Scope N_scope.
Definition cases : list (%s) := %s.
Fixpoint run (i : nat) (cs : list (%s)) : list (nat * N) :=
  match cs with [] => []
  | c :: rest => let v := %s c in if v =? 0 then run (S i) rest else (i, v) :: run (S i) rest end.
Definition M := Eval vm_compute in run 0 cases.
Print M.
""" % (header, ctype, "[" + ";\n".join(part) + "]", ctype, runner)
        ok, out = ctx.coq_cases("%s_%d_%d" % (name, ctx.seed, k), text)
        m = re.search(r"M\s*=\s*(\[.*?\])\s*:", out, re.S)
        if not ok or not m:
            return "coqc failed: " + out[-800:]
        return [(k * n + int(i), int(v)) for i, v in re.findall(r"\((\d+)%nat,\s*(\d+)\)", m.group(1))]
    with ThreadPoolExecutor(nshards) as ex:
        res = list(ex.map(one, range(nshards)))
    out = []
    for r in res:
        if isinstance(r, str):
            ctx.broken.append(("correspondence:code-eval", r))
            return None
        out += r
    return out


HEADER = "From Verif Require Import Base.Str Pattern.Regex Pattern.Translate Pattern.GlobSpec Pattern.CaseEval."


def gobs(o):
    k = o["k"]
    if k == "ok":
        return "(GText %s true)" % cl(o.get("text", []))
    if k == "nocompile":
        return "(GText %s false)" % cl(o.get("text", []))
    if k == "eb":
        return "(GErr EBackslash)"
    if k == "ec":
        return "(GErr EClass)"
    if k == "er":
        return "(GErr (ERange %d %d))" % (o.get("ra", 0), o.get("rb", 0))
    if k == "neg":
        return "(GNeg [%s])" % ";".join("(%d%%nat,%d%%nat)" % (a, b) for a, b in o["groups"])
    return None


def mobs(s):
    if s == "P":
        return "MPanicked"
    if s == "E":
        return "MError"
    return "(MBits %s)" % cbits(s)


# ------------------------------------------------------------------ class predicates (known findings)
OPS = "!?*+@"


def unescaped_positions(p):
    """indices of runes not escaped by a preceding backslash (outside any bracket analysis)"""
    out, i = [], 0
    while i < len(p):
        if p[i] == "\\":
            i += 2
            continue
        out.append(i)
        i += 1
    return out


def scan_bracket(p, i):
    """p[i] == '['. Index just past the closing ']' following the scanning rule shared by bash and the package
    (']' first is literal, backslash escapes, [:class:] skipped), or None when the bracket is not closed."""
    j = i + 1
    if j < len(p) and p[j] in "!^":
        j += 1
    if j < len(p) and p[j] == "]":
        j += 1
    while j < len(p):
        c = p[j]
        if c == "\\":
            j += 2
            continue
        if c == "]":
            return j + 1
        if c == "[" and j + 1 < len(p) and p[j + 1] in ":.=":
            k = p.find(p[j + 1] + "]", j + 2)
            if k >= 0:
                j = k + 2
                continue
        j += 1
    return None


def has_unclosed_bracket_ending_in_dash(p):
    # an unescaped '[' that never closes, at least one set rune, and the pattern ends right after a '-' range operator
    if not p.endswith("-") or (len(p) - 1) not in unescaped_positions(p):
        return False
    for i in unescaped_positions(p):
        if p[i] == "[" and scan_bracket(p, i) is None and len(p) - i >= 3:
            return True
    return False


def ext_groups(p):
    """(op index, closed?) for every top-level-or-nested extglob opener X( that the package's parser would start
    (not escaped, not inside a closed bracket expression)."""
    out = []
    i = 0
    while i < len(p):
        c = p[i]
        if c == "\\":
            i += 2
            continue
        if c == "[":
            e = scan_bracket(p, i)
            if e is not None:
                i = e
                continue
        if c in OPS and i + 1 < len(p) and p[i + 1] == "(":
            out.append(i)
            i += 2
            continue
        i += 1
    return out


def bash_patscan(p, i):
    """index just past the ')' matching the group whose '(' is at p[i], by bash's PATSCAN (nests bare parens,
    skips bracket expressions), or None."""
    pn = bn = 0
    bfirst = -1
    j = i + 1
    while j < len(p):
        c = p[j]
        if c == "\\":
            j += 2
            continue
        if c == "[":
            if bn == 0:
                bfirst = j + 1
                if bfirst < len(p) and p[bfirst] in "!^":
                    bfirst += 1
                bn = 1
            elif j + 1 < len(p) and p[j + 1] in ":.=":
                bn += 1
        elif c == "]":
            if bn:
                if j >= 1 and p[j - 1] in ":.=" and bn > 1:
                    bn -= 1
                elif j != bfirst:
                    bn -= 1
                    bfirst = -1
        elif c == "(" and bn == 0:
            pn += 1
        elif c == ")" and bn == 0:
            if pn == 0:
                return j + 1
            pn -= 1
        j += 1
    return None


def go_group_end(p, i):
    """index just past the ')' that closes the group opened at p[i] == '(' in the package's parser: nested X( groups
    recurse, closed bracket expressions are skipped, a bare '(' does not nest."""
    j = i + 1
    while j < len(p):
        c = p[j]
        if c == ")":
            return j + 1
        if c == "\\":
            j += 2
            continue
        if c == "[":
            e = scan_bracket(p, j)
            if e is not None:
                j = e
                continue
        if c in OPS and j + 1 < len(p) and p[j + 1] == "(":
            e = go_group_end(p, j + 1)
            if e is None:
                return None
            j = e
            continue
        j += 1
    return None


CLASSES = ("alnum", "alpha", "ascii", "blank", "cntrl", "digit", "graph", "lower", "print", "punct", "space", "upper", "word", "xdigit")


def bracket_items(p):
    """for every CLOSED bracket expression of p: the list of its items scanned left to right the way bash and
    Go's regexp both read them: ("class", name) | ("coll", text) | ("char", c) | ("range", lo, hi)."""
    out = []
    for i in unescaped_positions(p):
        if p[i] != "[":
            continue
        e = scan_bracket(p, i)
        if e is None:
            continue
        body = p[i + 1:e - 1]
        j = 1 if body[:1] in ("!", "^") else 0
        items = []

        def take(j):
            # one rune, possibly escaped: (rune, next index)
            if body[j] == "\\" and j + 1 < len(body):
                return body[j + 1], j + 2
            return body[j], j + 1
        while j < len(body):
            if body[j] == "[" and j + 1 < len(body) and body[j + 1] in ":.=":
                k = body.find(body[j + 1] + "]", j + 2)
                if k >= 0:
                    items.append(("class" if body[j + 1] == ":" else "coll", body[j + 2:k]))
                    j = k + 2
                    continue
                if body[j + 1] == ":":
                    items.append(("class", None))     # [: without :]
                else:
                    items.append(("coll", None))
                j += 2
                continue
            lo, j = take(j)
            if j + 1 < len(body) and body[j] == "-":
                hi, j = take(j + 1)
                items.append(("range", lo, hi))
            else:
                items.append(("char", lo))
        out.append(items)
    return out


def malformed_closed_bracket(p):
    """the pattern has a CLOSED bracket expression containing a [: without a valid class name or a reversed range:
    the package may report a syntax error for it (the property allows that)."""
    for items in bracket_items(p):
        for it in items:
            if it[0] == "class" and it[1] not in CLASSES:
                return True
            if it[0] == "range" and it[2] < it[1]:
                return True
    return False


def nocase_range_crosses_case_blocks(p):
    """a range containing letters whose end points are not both lower-case or both upper-case letters: Go's (?i)
    closes it under folding, bash folds the end points and the tested character instead"""
    for items in bracket_items(p):
        for it in items:
            if it[0] == "range" and it[1] <= it[2]:
                lo, hi = it[1], it[2]
                same = (lo.islower() and hi.islower() and lo.isascii() and hi.isascii()) or (lo.isupper() and hi.isupper() and lo.isascii() and hi.isascii())
                has_letter = any(chr(c).isalpha() for c in range(max(ord(lo), 65), min(ord(hi), 122) + 1))
                if has_letter and not same:
                    return True
    return False


def classify(p, cfg, go, bash_bits):
    """go = {"err":..., "bits":...}; returns (clause, class or None) for a disagreement."""
    err = go.get("err", "")
    ext = cfg in ("ext", "fold")
    groups = ext_groups(p) if ext else []
    if err.startswith("PANIC") or err.startswith("NOCOMPILE"):
        return "does_not_compile_or_panics", None
    if err:
        if err == "\\ at end of pattern" and p.endswith("\\"):
            return "error_on_valid_pattern", "trailing_backslash_is_error"
        if err == "charClass invalid" and any(p[i] == "[" and scan_bracket(p, i) is None and re.search(r"\[[:.=]", p[i + 1:])
                                              for i in unescaped_positions(p)):
            return "error_on_valid_pattern", "class_opener_in_unclosed_bracket_is_error"
        if ext and "!(" in p and ("extglob !" in err or "multiple extglob" in err or err.startswith("NEG")):
            return "error_on_valid_pattern", "negated_extglob_unsupported_context"
        if err == "charClass invalid" and re.search(r"\[[.=]", p) and not malformed_closed_bracket(p):
            return "error_on_valid_pattern", "collating_symbol_or_equivalence_class_is_error"
        if err in ("charClass invalid",) or err.startswith("invalid range"):
            if malformed_closed_bracket(p):
                return None, None      # a syntax error for a malformed pattern: allowed by the property
        return "error_on_valid_pattern", None
    # no error: the language differs
    if any(ord(c) > 127 for c in p) and any(it[0] == "class" and it[1] in CLASSES for items in bracket_items(p) for it in items):
        return "language_differs", "named_classes_are_ascii_only"
    if cfg == "fold" and nocase_range_crosses_case_blocks(p):
        return "language_differs", "nocase_range_crossing_case_blocks"
    if cfg == "fold" and ("[:upper:]" in p or "[:lower:]" in p):
        return "language_differs", "nocase_folds_upper_lower_classes"
    if has_unclosed_bracket_ending_in_dash(p):
        return "language_differs", "unclosed_bracket_ending_in_range_operator"
    if ext and groups:
        unclosed = [g for g in groups if bash_patscan(p, g + 1) is None]
        go_unclosed = [g for g in groups if go_group_end(p, g + 1) is None]
        if unclosed and unclosed == go_unclosed:
            g = unclosed[0]
            # bash swallows the rest of the pattern when a wildcard run containing '*' precedes an ill-formed group
            k = g
            star = False
            while k > 0 and p[k - 1] in "*?" and not (k >= 2 and p[k - 2] == "\\"):
                star = star or p[k - 1] == "*"
                k -= 1
            if star or (p[g] in "*?" and k < g):
                return "language_differs", "wildcard_before_unclosed_extglob"
            if cfg == "fold":
                return "language_differs", "unclosed_extglob_literal_is_case_sensitive_in_bash"
        if re.search(r"\*[@+]\(\)", p):
            return "language_differs", "star_before_empty_extglob_group"
        if any(bash_patscan(p, g + 1) != go_group_end(p, g + 1) for g in groups):
            return "language_differs", "extglob_group_end_differs_bare_paren_or_open_bracket"
        negs = [g for g in groups if p[g] == "!"]
        if cfg == "fold" and len(negs) == 1 and re.search(r"[A-Za-z]", p):
            return "language_differs", "negated_extglob_ignores_nocase"
        if len(negs) == 1:
            e = go_group_end(p, negs[0] + 1)
            if e is not None and any(c in (p[:negs[0]] + p[e:]) for c in "\\()|"):
                return "language_differs", "negated_extglob_prefix_suffix_not_plain"
    return "language_differs", None


# ------------------------------------------------------------------ legs
def code_leg(ctx, binp, n_tokens):
    rc, rows, err = ctx.jsonl([binp, "code", "-seed", str(ctx.seed), "-n", str(n_tokens), "-tier", ctx.tier], timeout=900)
    rcw, wrows, errw = ctx.jsonl([binp, "codelist", "-seed", str(ctx.seed), "--"] + WITNESSES, timeout=900)
    rows = wrows + rows
    if rc != 0 or rcw != 0 or not rows:
        ctx.broken.append(("harness-run", "c17 code failed rc=%d %s" % (rc, err[-600:])))
        return
    items, idx = [], []
    mitems, midx = [], []
    skipped = 0
    for i, r in enumerate(rows):
        g = gobs(r["obs"])
        if g is None:
            # panic / unknown error of pattern.Regexp itself: a property failure, reported by the search clause
            ctx.fail("regexp_panics_or_unknown_error", {"pattern": "".join(map(chr, r["p"])), "mode": r["m"]}, None, r["obs"])
            continue
        items.append("(%d,%s,%s,%s,%s)" % (r["m"], cl(r["p"]), g, cl(r["alpha"]), cbits(r["bits"])))
        idx.append(i)
        if r.get("mobs"):
            mitems.append("(%d,%s,%s,%s)" % (r["m"], cl(r["p"]), mobs(r["mobs"]), cl(r["alpha"])))
            midx.append(i)
    res = coq_shards(ctx, "c17code", HEADER, "N * list N * gobs * list N * list bool",
                     "(fun c => match c with (m,p,o,a,b) => code_case m p o (strings_upto a 3) b end)", items)
    if res is None:
        return
    mism = []
    for i, v in res:
        r = rows[idx[i]]
        if v == 3:
            skipped += 1
            continue
        mism.append({"pattern": "".join(map(chr, r["p"])), "mode": r["m"], "go": r["obs"], "kind": {1: "text/error", 2: "match bits", 4: "fuel"}.get(v, v)})
    ctx.leg("code:pattern.Regexp text+error, regexp.MatchString bits vs Pattern/Translate.v+Regex.v (vm_compute)", len(items) - skipped, mism,
            note="%d cases skipped as unmodelled by the model itself (range ending in a class opener)" % skipped)
    res = coq_shards(ctx, "c17mat", HEADER, "N * list N * mobs * list N",
                     "(fun c => match c with (m,p,o,a) => matcher_case m p o (strings_upto a 3) end)", mitems)
    if res is None:
        return
    mism = []
    sk = 0
    for i, v in res:
        r = rows[midx[i]]
        if v == 3:
            sk += 1
            continue
        mism.append({"pattern": "".join(map(chr, r["p"])), "mode": r["m"], "go": r["mobs"], "kind": v})
    ctx.leg("code:internal.ExtendedPatternMatcher (incl. !(...) path) vs Translate.ext_matcher (vm_compute)", len(mitems) - sk, mism)
    for r in rows[:2]:
        ctx.sample({"pattern": "".join(map(chr, r["p"])), "mode": r["m"], "go": r["obs"].get("k"), "text": "".join(map(chr, r["obs"].get("text", [])))})
    return rows


CFGS = (("ext", "dbl", 1, "strs"), ("noext", "case_noext", 0, "strs"), ("fold", "fold", 3, "fstrs"))


def search(ctx, rows, spec_every):
    """rows from the harness' enum/tokens/list modes. Compares with bash, classifies, and returns the spec-leg cases."""
    P = [unhex(r["p"]) for r in rows]
    S = {"strs": [[unhex(s) for s in r["strs"]] for r in rows], "fstrs": [[unhex(s) for s in r["fstrs"]] for r in rows]}
    bash = {}
    for cfg, bcfg, _, sk in CFGS:
        bash[cfg] = run_bash(ctx, bcfg, list(zip(P, S[sk])))
    bash["case_ext"] = run_bash(ctx, "case_ext", list(zip(P, S["strs"])))
    oracle_mism = []
    spec_cases = []
    nfail = 0
    for i, r in enumerate(rows):
        p = P[i]
        if bash["case_ext"][i] != bash["ext"][i]:
            oracle_mism.append({"pattern": p, "dbl": bash["ext"][i], "case": bash["case_ext"][i]})
        nontriv = any(c in p for c in "*?[(")
        for cfg, _, fb, sk in CFGS:
            g = r["cfg"][cfg]
            b = bash[cfg][i]
            ctx.count(len(b), [(p, cfg)] if nontriv else [])
            if i % spec_every == 0:
                alpha = [ord(s) for s in S[sk][i] if len(s) == 1]
                spec_cases.append((fb, p, alpha, b))
            if g["bits"] != b:
                clause, klass = classify(p, cfg, g, b)
                if clause is None:
                    continue
                nfail += 1
                diff = [S[sk][i][j] for j in range(len(b)) if g["bits"][j] != b[j]][:4]
                ctx.fail(clause, {"pattern": p, "config": cfg}, klass, {"go_err": g.get("err", ""), "strings_differing": diff,
                                                                       "go": "".join(g["bits"][j] for j in range(len(b)) if g["bits"][j] != b[j])[:4]})
    ctx.leg("oracle-consistency: bash [[ s == p ]] vs bash case (extglob on)", len(rows), oracle_mism)
    return spec_cases, nfail


def spec_leg(ctx, spec_cases):
    items = ["(%d,%s,%s,%s)" % (fb, cl([ord(c) for c in p]), cl(a), cbits(b)) for (fb, p, a, b) in spec_cases]
    res = coq_shards(ctx, "c17spec", HEADER, "N * list N * list N * list bool",
                     "(fun c => match c with (f,p,a,b) => spec_case f p a b end)", items)
    if res is None:
        return
    mism, known = [], 0
    for i, v in res:
        fb, p, a, b = spec_cases[i]
        # the spec does not transliterate bash's behaviour for a wildcard run before an ill-formed extglob group
        if fb & 1 and classify(p, "ext", {"bits": ""}, b)[1] == "wildcard_before_unclosed_extglob":
            known += 1
            continue
        if fb & 1 and re.search(r"\*[@+]\(\)", p):   # bash: * before an empty group matches nothing (KF-C17-9), not transliterated
            known += 1
            continue
        if re.search(r"\[[.=]", p):      # collating symbols / equivalence classes are not transliterated in GlobSpec.v
            known += 1
            continue
        mism.append({"pattern": p, "flags": fb, "bash": b[:40]})
    ctx.leg("oracle:Pattern/GlobSpec.v glob_spec vs real bash 5.2 (vm_compute)", len(items) - known, mism,
            note="%d cases outside the spec's transliterated domain (wildcard before an unclosed extglob group, [. .] / [= =] elements) not compared" % known)


WITNESSES = ["\\", "a\\", "[a-", "[[:", "x!(a)*", "**(", "@(()", "!(a)@(b)", "*(a", "[+-\\*]", "*@()",
             "[-*]", "@(a", "[a-\\]]", "a!(b)c", "!(a|b)", "x!(*.c)", "+(a|b)c", "?(a)b", "*(ab|c)", "@(a|b|)", "a[!b-d]?", "[]-a]",
             "[a\\]b]", "**/a", "a/**", ".[!.]*", "a!(b)a", "ab!(x)bc"]
# every character class once, plain and negated, plus an invalid and a collating one (pinned)
for _k in ("alnum", "alpha", "ascii", "blank", "cntrl", "digit", "graph", "lower", "print", "punct", "space", "upper", "word", "xdigit", "foo"):
    WITNESSES += ["[[:%s:]]" % _k, "x[![:%s:]0]" % _k]
WITNESSES += ["[[.a.]]", "[[=a=]]", "[a[:digit:]_]*"]


def read_regress(path):
    """pinned regression inputs: one per line; '# ' comment lines and empty lines skipped"""
    out = []
    try:
        for line in open(path, encoding="utf-8"):
            line = line.rstrip("\n")
            if line and not line.startswith("# ") and line != "#":
                out.append(line)
    except OSError:
        pass
    return out


# the pinned regression corpus runs with the witnesses: first, on every seed and tier
WITNESSES = read_regress(os.path.join(ROOT, "corpus", "c17", "regress.txt")) + WITNESSES


def run(ctx):
    ctx.coq_props(extra_targets=["Pattern/CaseEval.vo"])
    binp = ctx.go_build("c17")
    if not binp:
        return
    quick = ctx.tier == "quick"
    ctx.rule = ("search: every pattern of length <= 2 over the 18-rune alphabet * ? [ ] ! ^ - \\ / . a b : ( | ) @ +, "
                "the (seed mod 8)-th eighth of length 3 (thorough: all of length <= 4) and a pinned list of token patterns "
                "(classes, ranges, extglob groups, every regexp-special rune as a literal; seed rotates an eighth, thorough all), "
                "an enumeration of bracket expressions ([, optional ! or ^, up to 2 (thorough 3) elements from - a c Z 9 . space ^ ! ] $ \\] \\- \\a [ [:digit:] /, "
                "], optional tail), [[:name:]] for every valid class name, every substring and misspelling of one, and the "
                "literal forms c, \\c, QuoteMeta(c) of every ASCII rune; each against every string of length <= 3 "
                "over the pattern's first 4 distinct runes + 'a' (+ upper case for nocasematch), in three configurations "
                "(extglob matcher vs [[ ]], plain Regexp vs case with extglob off, NoGlobCase vs nocasematch); "
                "non-trivial = distinct (pattern, config) whose pattern has * ? [ or (")
    code_leg(ctx, binp, 30 if quick else 1500)
    # ---- search
    rc, rows, err = ctx.jsonl([binp, "enum", "-n", "3" if quick else "4", "-seed", str(ctx.seed), "-tier", ctx.tier], timeout=1800)
    rc2, trows, err2 = ctx.jsonl([binp, "tokens", "-n", "4000", "-seed", str(ctx.seed), "-tier", ctx.tier], timeout=1800)
    rc3, wrows, err3 = ctx.jsonl([binp, "list", "--"] + WITNESSES, timeout=600)
    rc4, brows, err4 = ctx.jsonl([binp, "brackets", "-seed", str(ctx.seed), "-tier", ctx.tier], timeout=1800)
    rc5, srows, err5 = ctx.jsonl([binp, "sweep"], timeout=600)
    if rc != 0 or rc2 != 0 or rc3 != 0 or rc4 != 0 or rc5 != 0 or not rows or not brows:
        ctx.broken.append(("harness-run", "c17 enum/tokens/brackets/sweep failed %s" % (err + err2 + err3 + err4 + err5)[-600:]))
        return
    # ---- literal sweep: every ASCII rune (and some multi-byte) as c, \c, QuoteMeta(c), embedded; all 128 modes; law tested in Go
    nsweep = 0
    for r in srows:
        if "summary" in r:
            nsweep = r["summary"]["cases"]
        else:
            ctx.fail(r["clause"], {"pattern": unhex(r["p"]), "mode": r["m"]}, None, r.get("detail"))
    ctx.count(nsweep)
    ctx.extra["literal_sweep_cases"] = nsweep
    # ---- Filenames mode: a run of >= 3 stars means the same as one star (only an exact ** element is globstar); Go-side law
    rc6, lrows, err6 = ctx.jsonl([binp, "starlaw", "-seed", str(ctx.seed), "-tier", ctx.tier], timeout=900)
    nlaw = 0
    for r in lrows:
        if "summary" in r:
            nlaw = r["summary"]["cases"]
        else:
            ctx.fail(r["clause"], {"pattern": unhex(r["p"]), "mode": r["m"]}, r.get("class") or None, r.get("detail"))
    ctx.count(nlaw)
    ctx.extra["filenames_star_run_law_cases"] = nlaw
    # the premise of that law checked against real bash: pathname expansion (globstar on) in a scratch tree gives the same
    # list for the pattern and for its collapsed form
    rc7, prow, err7 = ctx.jsonl([binp, "starpairs", "-seed", str(ctx.seed), "-tier", ctx.tier], timeout=600)
    if prow:
        import shutil
        scratch = tempfile.mkdtemp(prefix="c17paths", dir=os.path.join(ROOT, "build"))
        try:
            inp = os.path.join(scratch, "..", os.path.basename(scratch) + ".in")
            with open(inp, "w") as f:
                for r in prow:
                    f.write(r["p"] + "\n" + r["q"] + "\n")
            rcb, out, errb = ctx.run(["env", "-i", "LC_ALL=C.UTF-8", "PATH=/usr/bin:/bin", "timeout", "300", "bash",
                                      os.path.join(ROOT, "corpus", "c17", "oracle_paths.sh"), os.path.abspath(inp)], timeout=400, cwd=scratch)
        finally:
            shutil.rmtree(scratch, ignore_errors=True)
            try:
                os.unlink(inp)
            except OSError:
                pass
        lines = out.split("\n")[:-1]
        mism = [{"pattern": r["p"], "collapsed": r["q"], "bash": l[:200]} for r, l in zip(prow, lines) if l != "1"]
        if len(lines) != len(prow):
            mism.append({"error": "bash returned %d lines for %d pairs: %s" % (len(lines), len(prow), errb[-200:])})
        ctx.leg("oracle:bash pathname expansion (globstar) treats a run of >=3 stars like one star", len(prow), mism)
    if rc6 != 0 or not nlaw:
        ctx.broken.append(("harness-run", "star-run law produced no summary: " + err6[-300:]))
    if not nsweep:
        ctx.broken.append(("harness-run", "literal sweep produced no summary"))
    allrows = wrows + rows + trows + brows      # pinned regression corpus and witnesses first
    spec_cases, nfail = search(ctx, allrows, 20 if quick else 40)
    ctx.extra["search_patterns"] = len(allrows)
    ctx.extra["search_disagreements_all_classified"] = nfail
    spec_leg(ctx, spec_cases)
    ctx.assumptions += ["patterns and strings are valid UTF-8 without NUL; the model works on runes",
                        "Go's regexp engine implements the Regex.v denotation for the emitted subset (tested by the regexp-meaning leg on strings of length <= 3)",
                        "case folding is modelled for ASCII letters (+ the k/K/KELVIN and s/S/LONG-S orbits)",
                        "Filenames-mode language is tied to the model (code leg) but has no bash oracle here (pathname expansion is C19)"]


def replay(ctx, obj):
    print(json.dumps(obj, indent=1))
    return 0


META = {
    "category": "proof",
    "text": ("Coq model of pattern.Regexp (all modes) producing regexp text and AST in lockstep, a derivative matcher proved "
             "equivalent to the AST denotation, and bash's matching rule transliterated as a direct matcher (GlobSpec.v); "
             "theorems: matcher correctness, translate sound+complete w.r.t. the bash rule on the bracket-free fragment in "
             "EntireString mode, refutation witnesses for the trailing backslash; model tied to the code on every run by "
             "in-kernel evaluation (text, errors, match bits) and GlobSpec tied to real bash; exhaustive short-pattern "
             "differential of the interpreter's matcher against bash 5.2."),
    "note": ("Partial: the soundness theorem covers * ? literals and escapes (no unescaped '[', no extended operators, "
             "no Filenames); brackets, extended operators, case folding and Filenames are covered by the legs and the search. "
             "Known findings: trailing backslash, unclosed-bracket quirks, !(...) contexts, ill-formed extglob scanning."),
    "design_ref": "DESIGN.md 4 C17",
}
