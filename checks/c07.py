"""C07 Parsing does not depend on how input bytes arrive.
Proof: coq/Props/C07.v over the reader model coq/Syntax/Reader.v (reader under a read schedule).
Code leg: the real Parser.rune/peek/peekTwo/zshNumRange driven through the hook
syntax.VerifReaderScript under generated schedules vs the model evaluated in the Coq kernel.
Search: real syntax.Parser.Parse (tree with every position, or the error) under one-byte reads,
data+EOF reads, split points and random chunkings with empty reads vs a single read."""
import re
from vcheck import coq_list


def zl(l):
    return "[" + ";".join("(%d)%%Z" % x for x in l) + "]"


def nl(l):
    return "[" + ";".join("%d%%nat" % x for x in l) + "]"


CASES_V = """From Verif Require Import Base.Str Syntax.Pos Syntax.Reader.
Open Scope N_scope.
Definition cases : list (str * list nat * bool * nat * nat * list N * nat * list (list Z)) := %s.
Fixpoint zl_eqb (a b : list Z) : bool := match a, b with [], [] => true | x::a', y::b' => Z.eqb x y && zl_eqb a' b' | _, _ => false end.
Fixpoint zll_eqb (a b : list (list Z)) : bool := match a, b with [], [] => true | x::a', y::b' => zl_eqb x y && zll_eqb a' b' | _, _ => false end.
Fixpoint mism (i : nat) (cs : list (str * list nat * bool * nat * nat * list N * nat * list (list Z))) : list nat :=
  match cs with [] => []
  | (inp, sched, eager, obq, obqd, scr, from, obs) :: rest =>
     if zll_eqb (skipn from (run_script 1024 obq obqd scr (init (mkreader inp sched eager)))) obs then mism (S i) rest else i :: mism (S i) rest end.
Definition M := Eval vm_compute in mism 0 cases.
Print M.
"""


def code_leg(ctx, rows, name):
    mism, total = [], 0
    shard = 400
    for sh in range(0, len(rows), shard):
        part = rows[sh:sh + shard]
        items = []
        for r in part:
            obs = "[" + ";".join(zl(o + [0]) for o in r["obs"]) + "]"   # last column: model's bad flag must be Good
            inp = "[" + ";".join(str(b) for b in bytes.fromhex(r["in"])) + "]"
            scr = "[" + ";".join(str(ord(c)) for c in r["script"]) + "]"
            items.append("(%s,%s,%s,%d%%nat,%d%%nat,%s,%d%%nat,%s)" % (
                inp, nl(r["sched"]), "true" if r["eager"] else "false", r["obq"], r["obqd"], scr, r.get("from", 0), obs))
        ok, out = ctx.coq_cases("%s_%d" % (name, sh), CASES_V % coq_list(items))
        m = re.search(r"M\s*=\s*(\[[^\]]*\])", out)
        if not ok or not m:
            ctx.broken.append(("correspondence:code-eval", "coqc on generated reader cases failed: " + out[-800:]))
            return
        total += len(part)
        for i in [int(x) for x in re.findall(r"\d+", m.group(1))]:
            r = part[i]
            mism.append({"in": r["in"], "sched": r["sched"], "eager": r["eager"], "obq": r["obq"], "obqd": r["obqd"],
                         "script": r["script"], "go_obs_first": r["obs"][:4]})
    ctx.leg("code:Parser.rune/fill/peek/peekTwo/zshNumRange (hook VerifReaderScript) vs Syntax/Reader.v (vm_compute in kernel)",
            total, mism)


def run(ctx):
    ctx.coq_props()
    binp = ctx.go_build("c07")
    if not binp:
        return
    quick = ctx.tier == "quick"
    ntrace = 380 if quick else 6000
    rc, rows, err = ctx.jsonl([binp, "trace", "-seed", str(ctx.seed), "-n", str(ntrace)])
    rc2, wrows, err2 = ctx.jsonl([binp, "witness"])
    if rc != 0 or rc2 != 0 or not rows or not wrows:
        ctx.broken.append(("harness-run", "c07 trace failed rc=%d/%d %s" % (rc, rc2, (err + err2)[-800:])))
        return
    rows = wrows + rows
    ctx.rule = ("reader cases: inputs of 0..17 pieces from an alphabet of backslash, LF, CR, CRLF, backslash-LF, backslash-CR-LF, NUL, "
                "$ ` \" < - > digits, 2/3/4-byte runes, truncated and invalid UTF-8 (every 150th input ~1 KiB with the lookahead at the "
                "1024-byte buffer end); schedule = none / all ones / random chunk lengths incl. 0; data+EOF reads 1 in 3; "
                "openBquotes 0..3; script of rune calls with peek/peekTwo/zshNumRange probes mixed in. Parse search: a third of the "
                "2.6k corpus literals of syntax/*_test.go (all in thorough) x 5 variants + a seed-rotated slice of the fixed mutation "
                "enumeration (insert one of 27 reader-relevant pieces at every position) + random multi-mutations; schedules: all ones, "
                "data+EOF, split points (all for <=24 bytes, all for every input in thorough), random chunkings with empty reads; plus, every run, "
                "27 lookahead-sensitive constructs (zsh doubled flags, <n-m>, backslash-CR-LF, $' $\", ((, multi-byte runes, backquote escapes...) "
                "placed at every alignment across the read-buffer boundary 1024*k, k=1,2, under whole, half-buffer, one-byte and boundary+-1 reads. "
                "non-trivial = distinct (input,schedule,script) with a non-empty schedule")
    for r in rows:
        key = (r["in"], tuple(r["sched"]), r["eager"], r["obq"], r["script"])
        ctx.count(1, [key] if r["sched"] else [])
        for cl in r.get("fails") or []:
            ctx.fail(cl, {"in": r["in"], "sched": r["sched"], "eager": r["eager"], "obq": r["obq"], "obqd": r["obqd"],
                          "script": r["script"]}, r.get("class") or None, {"obs": (r.get("obs") or [])[:6], "panic": r.get("panic")})
    for r in rows[len(wrows):len(wrows) + 2]:
        ctx.sample({"input_hex": r["in"], "sched": r["sched"], "eager": r["eager"], "script": r["script"], "go_obs": r["obs"][:3]})
    code_leg(ctx, [r for r in rows if r.get("obs")], "c07")
    # ---- search on the real Parse
    nmut = 2500 if quick else 0
    rc, srows, err = ctx.jsonl([binp, "search", "-seed", str(ctx.seed), "-n", str(nmut), "-tier", ctx.tier],
                               timeout=900 if quick else 7200)
    summ = None
    for r in srows:
        if "summary" in r:
            summ = r["summary"]
            continue
        ctx.fail(r.get("clause") or "parse_depends_on_read_schedule", {"in": r["in"], "lang": r["lang"]}, r.get("class") or None,
                 r.get("fails"))
    if rc != 0 or summ is None:
        ctx.broken.append(("harness-run", "c07 search failed rc=%d %s" % (rc, err[-800:])))
        return
    ctx.count(summ["schedules"])
    ctx.extra["parse_search"] = summ
    ctx.legs.append({"leg": "search:Parse under schedules == Parse of one read", "cases": summ["schedules"],
                     "mismatches": summ["failing_inputs"], "note": "%d inputs x variants" % summ["inputs"], "first_mismatches": []})
    ctx.assumptions += ["read errors other than io.EOF are not modelled",
                        "p.litBs accumulation and lastBquoteEsc are not in the reader model (covered by the Parse search only)",
                        "the parser above the reader is covered by the search, not by the theorems"]


def replay(ctx, obj):
    import json
    print(json.dumps(obj, indent=1))
    return 0


META = {
    "category": "proof",
    "text": ("Coq theorems over a transliterated model of the parser's byte reader (fill/peek/peekAt/peekTwo/zshNumRange/rune with "
             "position bookkeeping) driven by an arbitrary read schedule (chunk lengths incl. 0 and 1, EOF with or after the last "
             "data): the rune stream with widths and positions and every lookahead result is independent of the schedule; model "
             "tied to the code on every run through the hook VerifReaderScript (same schedules, in-kernel vm_compute); the property "
             "itself searched on the real Parse (tree incl. positions or error) under one-byte, data+EOF, split-point and random "
             "chunked readers over the repository's test literals and a fixed mutation enumeration, 5 variants."),
    "note": ("The rune-stream theorem holds for all byte inputs incl. split and invalid UTF-8. Universal statements are about the reader model; the parser above it is covered by the search only. Trusted: Coq "
             "kernel + vm_compute, hand-written model (tie = differential testing). Six defects found and repaired by fix: commits."),
    "design_ref": "DESIGN.md 4 C07",
}
