"""C27 Subshells cannot change the parent shell.
Proof: coq/Props/C27.v over coq/Interp/Isolation.v (Runner state on the Go-slice heap of Base/GoSlice.v).
Code leg: generated parent operations x isolating context x child operations run as real programs in
interp.Runner; structured snapshots (hook VerifC27Snapshot) of the parent before, the child at its end and
the parent after are compared with the Coq model evaluated in the kernel (vm_compute).
Search: the same before/after comparison on the real interpreter for a wide set of mutating commands in every
isolating context, plus real bash 5.2 as sanity oracle for the law itself."""
import json
import os
import re
import shutil
import subprocess
import tempfile

from vcheck import coq_bytes, coq_list

KINDS = ["KUnknown", "KString", "KNameRef", "KIndexed", "KAssoc", "KKeep"]


def cb(b):
    return "true" if b else "false"


def cz(n):
    return "(%d)%%Z" % n


class Intern:
    """Coq parses long numeral lists slowly: every distinct string / variable record is defined once."""
    def __init__(self):
        self.tab = {}
        self.defs = []

    def get(self, prefix, typ, term):
        k = (typ, term)
        if k not in self.tab:
            name = "%s%d" % (prefix, len(self.tab))
            self.tab[k] = name
            self.defs.append("Definition %s : %s := %s." % (name, typ, term))
        return self.tab[k]


INTERN = Intern()


def cstr(s):
    b = s.encode("utf-8", "surrogateescape") if isinstance(s, str) else s
    if len(b) <= 2:
        return coq_bytes(b)
    return INTERN.get("s_", "str", coq_bytes(b))


def cstr_hex(h):
    return cstr(bytes.fromhex(h))


def coq_rhs(r):
    k = r["k"]
    if k == "str":
        return "(RStr %s)" % cstr(r.get("s", ""))
    if k == "none":
        return "RNone"
    if k == "arr":
        return "(RArr %s)" % coq_list(["(%s,%s)" % ("Some %s" % cz(e.get("i", 0)) if e.get("hi") else "None", cstr(e.get("v", "")))
                                        for e in r.get("arr") or []])
    if k == "assoc":
        return "(RAssocLit %s)" % coq_list(["(%s,%s)" % (cstr(a), cstr(b)) for a, b in r.get("assoc") or []])
    raise ValueError(k)


def coq_key(i):
    return "(%s,%s)" % (cz(i), cstr(str(i)))


def coq_op(o):
    t = o["op"]
    name = cstr(o.get("name", ""))
    if t == "assign":
        idx = "(Some %s)" % coq_key(o.get("idx", 0)) if o.get("hasidx") else "None"
        return "(OAssign %s %s %s %s)" % (name, idx, cb(o.get("app")), coq_rhs(o["rhs"]))
    if t == "decl":
        dv = {"declare": "DDeclare", "local": "DLocal", "export": "DExport", "readonly": "DReadonly"}[o["variant"]]
        vt = {"": "VNone", "a": "VA", "A": "VAA"}[o.get("vt", "")]
        asg = "(Some (%s,%s))" % (cb(o.get("app")), coq_rhs(o["rhs"])) if o.get("rhs") else "None"
        return "(ODecl %s %s %s %s %s %s %s)" % (dv, cb(o.get("fx")), cb(o.get("fr")), cb(o.get("fg")), vt, name, asg)
    if t == "unset":
        return "(OUnset %s)" % name
    if t == "unsetelem":
        return "(OUnsetElem %s %s)" % (name, coq_key(o.get("idx", 0)))
    if t == "unsetall":
        return "(OUnsetAll %s)" % name
    if t == "unsetf":
        return "(OUnsetF %s)" % name
    if t == "shift":
        return "(OShift %d)" % o.get("n", 0)
    if t == "setparams":
        return "(OSetParams %s)" % coq_list([cstr(a) for a in o.get("args") or []])
    if t == "cd":
        return "(OCd %s)" % cstr(o["path"])
    if t == "pushd":
        return "(OPushd %s)" % cstr(o["path"])
    if t == "pushdswap":
        return "OPushdSwap"
    if t == "popd":
        return "OPopd"
    if t == "alias":
        return "(OAlias %s %s)" % (name, cstr(o.get("src", "")))
    if t == "unalias":
        return "(OUnalias %s)" % name
    if t == "funcdef":
        return "(OFuncDef %s %d%%N)" % (name, o.get("body", 0))
    if t == "setstr":
        return "(OSetString %s %s)" % (name, cstr(o.get("src", "")))
    if t == "setopt":
        return "(OSetOpt %d %s)" % (o.get("opt", 0), cb(o.get("on")))
    if t == "callbegin":
        return "(OCallBegin %s)" % coq_list([cstr(a) for a in o.get("args") or []])
    if t == "callend":
        return "OCallEnd"
    raise ValueError(t)


def coq_evar(v):
    idx = "(Some %s)" % coq_list([cz(i) for i in v.get("indexes") or []]) if v.get("hasidx") else "None"
    mp = "(Some %s)" % coq_list(["(%s,%s)" % (cstr_hex(a), cstr_hex(b)) for a, b in v.get("map") or []]) if v.get("hasmap") else "None"
    return INTERN.get("v_", "evar", "(mkEV %s %s %s %s %s %s %s %s %s)" % (cb(v["set"]), cb(v["local"]), cb(v["exported"]), cb(v["readonly"]),
                                                 KINDS[v["kind"]], cstr_hex(v["str"]),
                                                 coq_list([cstr_hex(x) for x in v.get("list") or []]), idx, mp))


def coq_snap(s, bodies):
    vars_ = coq_list(["(%s,%s)" % (cstr_hex(v["name"]), coq_evar(v)) for v in s.get("vars") or []])
    funcs = coq_list(["(%s,%d%%N)" % (cstr_hex(n), bodies.get(b, 0)) for n, b in s.get("funcs") or []])
    alias = coq_list(["(%s,%s)" % (cstr_hex(n), cstr_hex(b)) for n, b in s.get("alias") or []])
    return "(mkES %s %s %s %s %s %s %s)" % (vars_, funcs, alias, coq_list([cb(x) for x in s.get("opts") or []]),
                                           cstr_hex(s["dir"]), coq_list([cstr_hex(x) for x in s.get("dirstack") or []]),
                                           coq_list([cstr_hex(x) for x in s.get("params") or []]))


def coq_case(r):
    bodies = {h: i + 1 for i, h in enumerate(r.get("bodies") or [])}
    sn = r["snaps"]
    return "(mkCase %s %s %s %s %s %s %s)" % (coq_snap(sn["init"], bodies), coq_list([coq_op(o) for o in r.get("parent") or []]),
                                             cb(r["bg"]), coq_list([coq_op(o) for o in r.get("child") or []]),
                                             coq_snap(sn["p0"], bodies), coq_snap(sn["c"], bodies), coq_snap(sn["p1"], bodies))


CASES_HEADER = """From Verif Require Import Base.Str Base.GoSlice Interp.Isolation Interp.IsolationCheck.
Open Scope N_scope.
%s
Definition cases : list ccase := %s.
Definition M := Eval vm_compute in run_cases 0%%nat cases.
Print M.
"""


def code_leg(ctx, rows, name, shard=300):
    """rows: harness gen rows with all four snapshots. Returns (total, mismatches)."""
    mism, total = [], 0
    for sh in range(0, len(rows), shard):
        part = rows[sh:sh + shard]
        INTERN.__init__()
        body = coq_list([coq_case(r) for r in part])
        text = CASES_HEADER % ("\n".join(INTERN.defs), body)
        ok, out = ctx.coq_cases("%s_%d_%d" % (name, os.getpid(), sh), text)
        try:
            os.remove(os.path.join(os.path.dirname(os.path.dirname(os.path.abspath(__file__))), "coq", "Cases",
                                   "%s_%d_%d.v" % (name, os.getpid(), sh)))
        except OSError:
            pass
        m = re.search(r"M\s*=\s*(.*?)\s*:\s*list", out, re.S)
        if not ok or not m:
            ctx.broken.append(("correspondence:code-eval", "coqc on generated cases failed: " + out[-1200:]))
            return total, mism
        total += len(part)
        for mm in re.finditer(r"\((\d+)(?:%nat)?,\s*\[([^\]]*)\]\)", m.group(1)):
            r = part[int(mm.group(1))]
            mism.append({"prog": r["prog"], "ctx": r["ctx"], "codes": [int(x) for x in re.findall(r"\d+", mm.group(2))],
                         "meaning": "stage*10+component; stage 1 parent-before 2 child 3 parent-after; comp 1 vars 2 extra-names 3 funcs 4 alias 5 opts 6 dir 7 dirstack 8 params; 40 model panic"})
    return total, mism


def run_bash(prog, scratch):
    """returns dict tag -> block text (None on failure)"""
    try:
        p = subprocess.run(["env", "-i", "PATH=/nonexistent", "HOME=" + scratch, "LC_ALL=C.UTF-8", "timeout", "-k", "1", "5",
                            "bash", "--norc", "--noprofile", "-c", "exec 3>&1 1>/dev/null 2>/dev/null\n" + prog],
                           cwd=scratch, stdout=subprocess.PIPE, stderr=subprocess.DEVNULL, timeout=10)
    except subprocess.TimeoutExpired:
        return None
    blocks = {}
    for m in re.finditer(r"@@ (\w+)\n(.*?)@@end\n", p.stdout.decode("utf-8", "replace"), re.S):
        blocks[m.group(1)] = m.group(2)
    return blocks


def bash_leg(ctx, rows, limit):
    """sanity oracle: in real bash the same programs leave the parent dump unchanged (every isolating context,
    including the last pipeline stage). Returns (n, disagreements)."""
    scratch = tempfile.mkdtemp(prefix="c27b_")
    n, bad = 0, []
    try:
        for r in rows:
            if n >= limit:
                break
            if not r.get("bash") or r["ctx"] in ("api", "none"):
                continue
            prog = r["bash"].replace(r.get("scratch") or "\0", scratch)
            for d in ("d1", "d2", "d1/e"):
                os.makedirs(os.path.join(scratch, d), exist_ok=True)
            b = run_bash(prog, scratch)
            n += 1
            if b is None or "p0" not in b or "p1" not in b:
                # the parent did not reach p1 in bash either (e.g. `exit` in a function context): not a disagreement
                # about the law, but record it when the interpreter did continue
                if not r.get("fails") and b is not None and "p0" in b:
                    bad.append({"prog": r["prog"], "what": "bash parent did not continue"})
                continue
            if b["p0"] != b["p1"]:
                bad.append({"prog": r["prog"], "what": "bash itself changes the parent", "p0": b["p0"][-300:], "p1": b["p1"][-300:]})
    finally:
        shutil.rmtree(scratch, ignore_errors=True)
    return n, bad


def run(ctx):
    import time
    tm = ctx.extra.setdefault("timing", {})
    t0 = time.time()
    ctx.coq_props(extra_targets=["Interp/IsolationCheck.vo"])
    tm["coq_props"] = round(time.time() - t0, 1)
    quick = ctx.tier == "quick"
    t0 = time.time()
    binp = ctx.go_build("c27")
    tm["go_build"] = round(time.time() - t0, 1)
    if not binp:
        return
    t0 = time.time()
    ngen = 210 if quick else 2800
    nsearch = 480 if quick else 8000
    rc, rows, err = ctx.jsonl([binp, "gen", "-seed", str(ctx.seed), "-n", str(ngen)], timeout=1500)
    rc2, srows, err2 = ctx.jsonl([binp, "search", "-seed", str(ctx.seed), "-n", str(nsearch)], timeout=3000)
    rc3, wrows, err3 = ctx.jsonl([binp, "witness"], timeout=600)
    if rc or rc2 or rc3 or not rows or not srows or not wrows:
        ctx.broken.append(("harness-run", "c27 harness failed rc=%d/%d/%d %s" % (rc, rc2, rc3, (err + err2 + err3)[-800:])))
        return
    tm["harness"] = round(time.time() - t0, 1)
    ctx.rule = ("gen: parent = 2..7 operations (scalar/array/sparse/assoc assignment, the += shapes, element assignment and "
                "append, unset of variables/elements, declare/local/export/readonly with flags, shift, set --, cd/pushd/popd, "
                "alias/unalias, function definition/removal, set -o/shopt, function calls with locals, possibly left open so "
                "that the construct runs inside the function) x context in ( ), $( ), <( ), >( ), pipeline stage, & + wait, "
                "Runner.Subshell x child = 1..5 such operations. search: same parents x 1..4 commands from ~190 mutating "
                "command templates (read, mapfile, printf -v, arithmetic, ${x:=}, loops, getopts, eval, namerefs, traps, exit, "
                "...) in the same contexts plus the last pipeline stage and no isolation. non-trivial = distinct program whose "
                "un-isolated twin context changes the dump, or any gen case with a non-empty child")
    # ---- direct verdicts (search part 1: modelled-fragment programs; part 2: wide commands; witnesses)
    sens = [0, 0]
    for r in rows + srows + wrows:
        key = (r["ctx"], r["prog"])
        ctx.count(1, [key] if r["mode"] != "search" or r["ctx"] != "none" else [])
        if r["ctx"] == "none":
            sens[0] += 1
            sens[1] += 1 if r.get("detail") else 0
        if r.get("err"):
            ctx.broken.append(("harness-case", "case could not be set up: %s: %s" % (r.get("err"), r["prog"][:300])))
            continue
        for cl in r.get("fails") or []:
            ctx.fail(cl, {"ctx": r["ctx"], "prog": r["prog"]}, r.get("class") or None,
                     {"detail": r.get("detail"), "panic": r.get("panic")})
    for r in rows[:2] + srows[:2]:
        ctx.sample({"ctx": r["ctx"], "prog": r["prog"][:400], "fails": r.get("fails")})
    ctx.extra["dump_sensitivity"] = {"unisolated_cases": sens[0], "dump_changed": sens[1]}
    if sens[0] and sens[1] * 2 < sens[0]:
        ctx.broken.append(("search-sensitivity", "the dump saw a change in only %d of %d un-isolated runs" % (sens[1], sens[0])))
    # the open finding must still reproduce
    if not any(r["ctx"] == "pipe_last" and r.get("fails") for r in wrows):
        ctx.assumptions.append("witness of pipeline_last_stage_in_parent no longer fails (finding may be fixed)")
    # ---- code leg
    good = [r for r in rows if r.get("snaps") and all(k in r["snaps"] for k in ("init", "p0", "c", "p1")) and not r.get("err")]
    nonstr = [r for r in good if any(v["kind"] != 1 for v in r["snaps"]["init"]["vars"])]
    if nonstr:
        ctx.broken.append(("code-leg-init", "initial Runner state has non-string variables"))
    t0 = time.time()
    total, mism = code_leg(ctx, good, "c27")
    tm["code_leg"] = round(time.time() - t0, 1)
    ctx.leg("code:interp.Runner programs vs Interp/Isolation.v (snapshots p0/child/p1, vm_compute in kernel)", total, mism)
    if len(good) < len(rows) * 0.9:
        ctx.broken.append(("code-leg-coverage", "only %d of %d generated cases produced all snapshots" % (len(good), len(rows))))
    # ---- bash sanity oracle
    t0 = time.time()
    nb, bad = bash_leg(ctx, rows + srows + wrows, 160 if quick else 1500)
    tm["bash"] = round(time.time() - t0, 1)
    ctx.leg("oracle:bash 5.2 keeps the parent dump unchanged on the same programs", nb, bad)
    ctx.assumptions += [
        "Go memory model not modelled; the heap model is sequential (see C32)",
        "namerefs, special variables (DIRSTACK, RANDOM, ...), traps, inline `a=1 cmd` assignments and builtins beyond the "
        "listed operations are covered by the search only",
        "cd/pushd/popd targets are existing absolute clean directories (filesystem is an input of the model)",
        "snapshots are taken by the add-only hook interp/verif_hooks_c27.go",
    ]


def replay(ctx, obj):
    print(json.dumps(obj, indent=1))
    return 0


META = {
    "category": "proof",
    "text": ("Coq theorem C27_isolated over a transliterated model of the Runner's mutable state (overlay environments with "
             "parent pointers, variables with slice/map fields on an explicit heap, Funcs/alias maps, dirStack, Params, options) "
             "and of Runner.subshell(background): for every well-formed parent state, every list of child operations, foreground "
             "and background, the parent's observation is unchanged; proved by the ownership invariant that every in-place store "
             "of the child targets a cell allocated after the subshell was created. Model tied to the code on every run by "
             "running generated programs in interp.Runner and comparing structured snapshots with the model evaluated in the "
             "Coq kernel; direct before/after search over a wide command set in every isolating context; bash 5.2 sanity oracle."),
    "note": ("Found and fixed (d35f0af): name+=scalar on an indexed array wrote the parent's backing array. Open finding: the "
             "last stage of a pipeline runs in the parent shell (class pipeline_last_stage_in_parent). Trusted: Coq kernel + "
             "vm_compute, hand-written model (tie = differential testing), hook VerifC27Snapshot, wf hypothesis = no dangling "
             "pointers (Go memory safety)."),
    "design_ref": "DESIGN.md 4 C27",
}
