"""C03 Formatting never changes what a script does.
Search (= the oracle this property asks for): generated runnable programs with irregular layout and the safe subset of
the interp_test.go literals; original text vs the text printed by syntax.Printer under 8 option sets + Minify; stdout and
exit status compared original-vs-formatted under interp.Runner (worker subprocesses) and under bash 5.2.
Proof: coq/Props/C03.v over coq/Syntax/FormatSem.v (core fragment): norm t = norm t' -> sem t = sem t'.
Code leg: the real printer's output re-parses to a norm-equal tree on generated fragment programs (checked in the kernel)."""
import json
import time
import re


def frag_leg(ctx, rows):
    mism = []
    direct = [r for r in rows if r.get("err")]
    for r in direct:
        mism.append({"src": r["src"], "variant": r["variant"], "error": r["err"]})
    rows = [r for r in rows if not r.get("err")]
    total = 0
    for sh in range(0, len(rows), 800):
        part = rows[sh:sh + 800]
        text = "From Verif Require Import Base.Str Syntax.FormatSem.\nOpen Scope N_scope.\n"
        for i, r in enumerate(part):
            text += ("Goal norm_stmts %s = norm_stmts %s.\nProof. tryif (vm_compute; reflexivity) then idtac else idtac \"MISMATCH\" %d. Abort.\n"
                     % (r["b"], r["a"], i))
        ok, out = ctx.coq_cases("c03_%d" % sh, text)
        if not ok:
            ctx.broken.append(("correspondence:code-eval", "coqc on fragment cases failed: " + out[-800:]))
            return
        total += len(part)
        for m in re.finditer(r"MISMATCH\s+(\d+)", out):
            r = part[int(m.group(1))]
            mism.append({"src": r["src"], "variant": r["variant"], "formatted": r.get("fmt")})
    ctx.leg("code:printer output re-parses to a norm-equal fragment tree (norm of Syntax/FormatSem.v, in kernel)", total + len(direct), mism)


def run(ctx):
    ctx.coq_props()
    ctx.extra.setdefault("timing", {})["props"] = round(time.time() - ctx.t0, 1)
    quick = ctx.tier == "quick"
    binp = ctx.go_build("c03")
    if not binp:
        return
    nfrag = 400 if quick else 4000
    ngen = 60 if quick else 800
    rc, frows, err = ctx.jsonl([binp, "frag", "-seed", str(ctx.seed), "-n", str(nfrag)])
    if rc != 0 or not frows:
        ctx.broken.append(("harness-run", "c03 frag failed rc=%d %s" % (rc, err[-800:])))
        return
    frag_leg(ctx, frows)
    ctx.extra.setdefault("timing", {})["frag"] = round(time.time() - ctx.t0, 1)
    ctx.count(len(frows), [("frag", r["src"]) for r in frows if r.get("fmt") and r["fmt"] != r["src"]])
    for r in frows[:2]:
        ctx.sample({"fragment_program": r["src"][:300], "variant": r["variant"], "formatted": (r.get("fmt") or "")[:300]})
    rc, rows, err = ctx.jsonl([binp, "search", "-seed", str(ctx.seed), "-n", str(ngen), "-tier", ctx.tier], timeout=20000)
    if rc != 0 or not rows:
        ctx.broken.append(("harness-run", "c03 search failed rc=%d %s" % (rc, err[-800:])))
        return
    ran = [r for r in rows if r.get("ran")]
    ctx.count(len(rows), [("prog", r["src"]) for r in ran])
    skips = {}
    for r in rows:
        if not r.get("ran"):
            k = (r.get("skip") or "identical-after-formatting").split(":")[0]
            skips[k] = skips.get(k, 0) + 1
    feats = {}
    for r in rows:
        for f in r.get("feats") or []:
            feats[f] = feats.get(f, 0) + 1
    ctx.extra["search_programs"] = len(rows)
    ctx.extra["search_by_source"] = {k: sum(1 for r in rows if r["from"] == k) for k in ("gen", "corpus", "witness", "regress")}
    ctx.extra["search_behaviour_compared"] = len(ran)
    ctx.extra["search_distinct_formatted_texts"] = sum(r.get("nvar", 0) for r in ran)
    ctx.extra["search_not_run"] = skips
    ctx.extra["generator_feature_histogram"] = feats
    for r in rows:
        for cl in r.get("fails") or []:
            ctx.fail(cl, {"src": r["src"], "from": r["from"], "variant": r.get("variant")}, r.get("class") or None,
                     {"detail": r.get("detail"), "formatted": r.get("fmt")})
    for r in ran[:2]:
        ctx.sample({"program": r["src"][:300], "from": r["from"], "distinct_formatted_texts": r.get("nvar")})
    ctx.rule = ("search: generated runnable programs (builtins and functions only, bounded loops, messy layout: ; vs newline, "
                "comments, escaped newlines, backquotes, ${x} vs $x, function spellings, here-documents, redirect placement) and the "
                "interp_test.go literals that pass the safety filter; each compared with up to 9 formatted texts (8 option sets + "
                "Minify) under interp and bash; inputs ending in a lone backslash excluded; non-trivial = distinct programs with at "
                "least one formatted text different from the source, both run. code leg: generated core-fragment programs, "
                "non-trivial = formatted text differs from the source")
    ctx.assumptions += [
        "theorem C03_norm_preserves_sem is over the core fragment of FormatSem.v (simple commands, ! && || { } ( ) if while, "
        "words of literals/quotes/$x/${x}/command substitutions); the rest of the language is covered by the behavioural search only",
        "LINENO (the position-dependent parameter) and other position/clock/pid dependent parameters are excluded from the programs run",
        "programs run are restricted to builtins and functions (safety filter); external commands, background jobs, eval/source/alias are not exercised",
        "Minify is exercised as a printer option only (shfmt -mn additionally runs Simplify, which is C04)",
    ]


def replay(ctx, obj):
    print(json.dumps(obj, indent=1)[:6000])
    return 0


META = {
    "category": "proof",
    "text": ("Behavioural differential as the property demands: original vs formatted text (8 printer option sets + Minify, printed "
             "in-process by syntax.Printer) run under interp.Runner and under bash 5.2, stdout + exit status compared pairwise, over "
             "generated builtin-only programs and the safe subset of the interpreter's test programs; plus a Coq theorem on a core "
             "fragment: everything the printer's normal form erases (positions, comments, ; vs newline, line continuations, "
             "backquote spelling, ${x} vs $x) is invisible to the semantics, with the hypothesis norm t = norm t' established for the "
             "real printer on generated fragment programs inside the kernel."),
    "note": ("Theorem on the core fragment only; whole language by search. Known classes: bash abandons the rest of a line after a "
             "fatal expansion error (; vs newline is observable), SingleLine vs shopt -s extglob, associative array subscripts "
             "re-spaced, interp declare -f prints source layout."),
    "design_ref": "DESIGN.md 4 C03",
}
