"""C10 Parse errors are well-formed and incompleteness is reported.
Proof: coq/Props/C10.v over the token-level core model coq/Syntax/CoreGrammar.v (parse_core with the
       Incomplete flag and error positions of the Go parser).
Code leg: Go Parse (accept / IsIncomplete / error message class / error token index) vs parse_core evaluated
       in the Coq kernel, on core token programs, every token-boundary cut of them and their mutations.
Search (whole language): every line-boundary prefix of every valid program (repo test-table literals +
       generated multi-line programs with here-documents, quotes, substitutions) x 5 variants; error positions
       of corpus items, all their byte prefixes and seeded byte mutations; Quote errors."""
import os
import re

from vcheck import coq_list, REPO, ROOT

import coregram


def run(ctx):
    ctx.coq_props()
    thorough = ctx.tier != "quick"
    binp = ctx.go_build("c10")
    if not binp:
        return
    # ------------------------------------------------------------------ search
    n_prefix = 12000 if thorough else 500
    n_pos = 60000 if thorough else 3000
    ctx.rule = ("prefix clause: string constants of syntax/filetests_test.go, parser_test.go, printer_test.go (go/parser as data) + "
                "seeded multi-line programs (here-documents with quoted/unquoted/dash delimiters at top level and inside $( ), "
                "backquotes, subshells, blocks, if/while/for/case/function bodies; multi-line quotes, continuations, comments, "
                "bash [[ ]] (( )) arrays) + core token programs; each valid in variant L is cut after every newline and the "
                "prefix parsed in L: must succeed or IsIncomplete. position clause: every ParseError/LangError of corpus items, "
                "of all byte prefixes of a seeded slice (thorough: all) and of seeded byte mutations has offset<=len, a line "
                "matching the offset, a column inside that line; QuoteError.ByteOffset < len. non-trivial = valid program with >=1 cut")
    rc, rows, err = ctx.jsonl([binp, "prefix", "-seed", str(ctx.seed), "-n", str(n_prefix), "-tier", ctx.tier, REPO,
                               "regress=" + os.path.join(ROOT, "corpus", "c10", "regress.txt")], timeout=3000)
    rc2, rows2, err2 = ctx.jsonl([binp, "pos", "-seed", str(ctx.seed), "-n", str(n_pos), "-tier", ctx.tier, REPO,
                                  "regress_pos=" + os.path.join(ROOT, "corpus", "c10", "regress_pos.txt")], timeout=3000)
    if rc != 0 or rc2 != 0 or not rows or not rows2 or "summary" not in rows[-1] or "summary" not in rows2[-1]:
        ctx.broken.append(("harness-run", "c10 harness failed rc=%d/%d %s" % (rc, rc2, (err + err2)[-800:])))
        return
    for rs in (rows, rows2):
        for r in rs[:-1]:
            if "clause" not in r:
                continue
            ctx.fail(r["clause"], {"src": r["src"], "lang": r["lang"]}, r.get("class") or None,
                     {"err": r.get("err"), "detail": r.get("detail"), "origin": r.get("origin"), "whole": (r.get("whole") or "")[:300]})
    s1, s2 = rows[-1]["summary"], rows2[-1]["summary"]
    ctx.evaluations += s1["parses"] + s2["parses"]
    for i in range(s1["multi_line_valid_programs"]):
        ctx.nontrivial.add(("p", i))
    ctx.extra["prefix_search"] = s1
    ctx.extra["position_search"] = s2
    ctx.sample({"prefix_search": s1})
    ctx.sample({"position_search": s2})
    if s1["cuts"] < 1000 or s2["errors_checked"] < 1000:
        ctx.broken.append(("search-volume", "C10 search degenerated: %s %s" % (s1, s2)))
    # ------------------------------------------------------------------ code leg (core model)
    coregram.code_leg(ctx, "c10", cuts=True)
    ctx.assumptions += ["line boundary = a prefix ending right after a newline byte (whole lines, as an interactive reader delivers them)",
                        "proof is over the token-level core fragment only (no here-documents, quotes or expansions inside the model); "
                        "the whole language incl. here-documents is covered by the search",
                        "error position 'inside the input' = offset <= len, reported line = line of the offset, column within that line "
                        "(exact columns are C09's subject)"]


def replay(ctx, obj):
    import json
    import subprocess
    import tempfile
    binp = ctx.go_build("c10")
    fs = obj.get("failures") or []
    with tempfile.NamedTemporaryFile("w", suffix=".txt", delete=False) as f:
        for x in fs:
            f.write(json.dumps(x["input"]["src"]) + "\n")
    out = subprocess.run([binp, "one", "-in", f.name], stdout=subprocess.PIPE).stdout.decode()
    os.unlink(f.name)
    print(out)
    return 1 if '"clause"' in out else 0


META = {
    "category": "proof",
    "technique": "Coq proof on a core-grammar fragment model + whole-language differential search",
    "text": ("Coq theorems over parse_core, a token-level transliteration of the Go parser's statement grammar (stmts/getStmt/"
             "gotStmtPipe/callExpr/if/while/for/case/function/subshell/block with openNodes and the Incomplete flag), all token "
             "lists, bash and posix variants: every error raised with the input exhausted inside an open statement is Incomplete "
             "(C10_eof_errors_incomplete), a prefix of an accepted token list cut at ANY token boundary parses or fails "
             "Incomplete (C10_prefix_monotone_parse_core, mutual induction over the 15 parsing functions + fuel monotonicity and "
             "sufficiency), and every error position lies inside the input (C10_error_pos_inside). The model is tied to the "
             "code on every run (Go Parse vs parse_core in the Coq kernel on generated token programs, every cut and mutation: "
             "accept/reject, IsIncomplete, error class, error token). The property over the whole language (5 variants, "
             "here-documents, quotes, substitutions) is checked by search: all line-boundary prefixes of the repo's test "
             "literals and of generated programs, and error positions of invalid inputs."),
    "note": ("PARTIAL w.r.t. the property: the proof covers the core token fragment (no here-documents/quotes inside the model, "
             "bash and posix variants); the whole language is covered by search only. Finding fixed: unclosed quoted here-document at EOF was not Incomplete (repo commit cba6385)."),
    "design_ref": "DESIGN.md 4 C10",
}
