"""Shared by checks/c10.py and checks/c12.py: the code leg (Go Parse vs coq/Syntax/CoreGrammar.v parse_core,
evaluated in the Coq kernel) and the oracle leg (Coq accepts vs bash -n / dash -n) on core token programs."""
import re

from vcheck import coq_list

ECODES = [
    (r"cannot form a statement alone$", "EBangAlone"),
    (r"cannot negate a command multiple times$", "EBangMulti"),
    (r"^`!` can only be used in full statements$", "EBangFull"),
    (r"^`}` can only be used to close a block$", "ERbraceClose"),
    (r"can only be used in a case clause$", "EDSemiCase"),
    (r"^statements must be separated by", "ESep"),
    (r"can only immediately follow a statement$", "EStartFollow"),
    (r"^`\)` can only be used to close a subshell$", "EStartRparen"),
    (r"is not a valid start for a statement$", "EStartInvalid"),
    (r"can only be used in an `if`$", "EThenIf"),
    (r"can only be used to end an `if`$", "EFi"),
    (r"can only be used in a loop$", "EDo"),
    (r"can only be used to end a loop$", "EDone"),
    (r"can only be used to end a `case`$", "EEsac"),
    (r"^`case` must be followed by a word$", "ECaseWord"),
    (r"must be followed by a word$", "ERedirWord"),
    (r"must be followed by a statement list$", "EFollowStmts"),
    (r"^`for foo` must be followed by `in`, `do`, `;`, or a newline$", "EForIn"),
    (r"must be followed by `(then|do|in)`$", "EFollowRsrv"),
    (r"statement must end with `(fi|done|esac|})`$", "EStmtEnd"),
    (r"^reached .* without matching `[({]` with `[)}]`$", "EMatch"),
    (r"^`foo\(\)` must be followed by a statement$", "EFuncBody"),
    (r"^`(&&|\|\||\|)` must be followed by a statement$", "EAfterOp"),
    (r"^`foo\(` must be followed by `\)`$", "EFooParen"),
    (r"^invalid func name$", "EInvalidFunc"),
    (r"^a command can only contain words and redirects", "ECmdWords"),
    (r"^`for` must be followed by a literal$", "EForLit"),
    (r"^word list can only contain words$", "EWordList"),
    (r"^case patterns must consist of words$", "ECasePatWords"),
    (r"^case patterns must be separated with", "ECasePatSep"),
    (r"^redirects before compound commands LANGERROR$", "ELangRedirCompound"),
    (r"^c-style fors LANGERROR$", "ELangCStyleFor"),
    (r"^for loops with braces LANGERROR$", "ELangForBrace"),
    (r"^`case i {` LANGERROR$", "ELangCaseBrace"),
    (r"^the `[a-z{]+` builtin LANGERROR$", "ELangBuiltin"),
]
ECODES = [(re.compile(p), c) for p, c in ECODES]


def ecode(msg):
    for p, c in ECODES:
        if p.search(msg):
            return c
    return None


def coq_toks(kinds):
    return coq_list(["T" + k for k in (kinds or [])])


def expected(res, ntoks):
    """Go observation -> Coq term of type exp (None if the message is outside the model's vocabulary)."""
    if res["ok"]:
        return "XOk"
    c = ecode(res.get("msg", ""))
    if c is None:
        return None
    return "(XErr %s %d %s)" % (c, ntoks - res["idx"], "true" if res.get("inc") else "false")


HEADER = """From Verif Require Import Base.Str Syntax.CoreGrammar.
Inductive exp := XOk | XErr (c : ecode) (pos : nat) (inc : bool).
Definition agree (posix : bool) (ts : list token) (e : exp) : bool :=
  match parse_core posix ts, e with
  | POk _, XOk => true
  | PErr c p i, XErr c' p' i' => ecode_beq c c' && Nat.eqb p p' && Bool.eqb i i'
  | _, _ => false
  end.
Fixpoint mism (i : nat) (cs : list (bool * list token * exp)) : list nat :=
  match cs with
  | [] => []
  | (px, ts, e) :: rest => if agree px ts e then mism (S i) rest else i :: mism (S i) rest
  end.
"""


def code_leg(ctx, cmd, cuts=True):
    """Go Parse (bash and posix variants) vs parse_core in the kernel: accept/reject, error class, error token, Incomplete."""
    binp = ctx.go_build(cmd)
    if not binp:
        return
    n = 120 if ctx.tier == "quick" else 2500
    rc, rows, err = ctx.jsonl([binp, "core", "-seed", str(ctx.seed), "-n", str(n), "-tier", ctx.tier], timeout=1800)
    rows = [r for r in rows if "bash" in r]
    if rc != 0 or not rows:
        ctx.broken.append(("harness-run", "%s core failed rc=%d %s" % (cmd, rc, err[-800:])))
        return
    items, meta, outside = [], [], []
    for r in rows:
        nt = len(r["toks"] or [])
        for lang, px in (("bash", "false"), ("posix", "true")):
            e = expected(r[lang], nt)
            if e is None:
                outside.append({"src": r["src"], "lang": lang, "go": r[lang]})
                continue
            items.append("(%s,%s,%s)" % (px, coq_toks(r["toks"]), e))
            meta.append((r, lang))
    mism = [{"what": "Go error message outside the model's vocabulary", **o} for o in outside[:20]]
    total = len(items) + len(outside)
    SH = 1500
    for sh in range(0, len(items), SH):
        part = items[sh:sh + SH]
        text = HEADER + "Definition cases : list (bool * list token * exp) := %s.\nDefinition M := Eval vm_compute in mism 0 cases.\nPrint M.\n" % coq_list(part)
        ok, out = ctx.coq_cases("%s_core_%d" % (cmd, sh), text)
        m = re.search(r"M\s*=\s*(\[[^\]]*\])", out)
        if not ok or not m:
            ctx.broken.append(("correspondence:code-eval", "coqc on generated cases failed: " + out[-800:]))
            return
        for i in [int(x) for x in re.findall(r"\d+", m.group(1))]:
            r, lang = meta[sh + i]
            mism.append({"src": r["src"], "toks": r["toks"], "lang": lang, "go": r[lang]})
    ncut = sum(1 for r in rows if r.get("cut"))
    ctx.leg("code:syntax.Parser.Parse(bash,posix) vs Syntax/CoreGrammar.v parse_core (accept, error class, error token, Incomplete; vm_compute in kernel)",
            total, mism, note="%d token lists (%d prefixes of valid programs, %d valid programs, rest single-token mutations) x 2 variants" % (
                len(rows), ncut, sum(1 for r in rows if r.get("base"))))
    ctx.count(total, [("core", " ".join(r["toks"] or [])) for r in rows if len(r["toks"] or []) >= 3])
    return rows


OHEADER = """From Verif Require Import Base.Str Syntax.CoreGrammar.
Fixpoint omism (i : nat) (cs : list (bool * list token * bool)) : list nat :=
  match cs with
  | [] => []
  | (dash, ts, want) :: rest =>
      if Bool.eqb (accepts (if dash then sh_dash else sh_bash) ts) want then omism (S i) rest else i :: omism (S i) rest
  end.
"""


def bash_for_quirk(toks):
    """KF-C12-6 (bash 5.2 lexer-state quirk, not part of any grammar): `for NAME <newline>+ in` after a `case` keyword."""
    seen = False
    for i, t in enumerate(toks):
        if t == "Case":
            seen = True
        if seen and t == "For" and i + 3 < len(toks) and toks[i + 2] == "Newl":
            j = i + 2
            while j < len(toks) and toks[j] == "Newl":
                j += 1
            if j < len(toks) and toks[j] == "In":
                return True
    return False


def dash_case_quirk(toks):
    """KF-C12-8 (dash takes any token as a case pattern): operator at a pattern start followed by `)` or `|` after a `case`."""
    seen = False
    for i in range(1, len(toks) - 1):
        if toks[i - 1] == "Case" or toks[i] == "Case":
            seen = True
        if (seen and toks[i] in ("Semi", "Amp", "AndAnd", "OrOr", "DSemi")
                and toks[i - 1] in ("In", "DSemi", "Newl", "Lparen", "Pipe") and toks[i + 1] in ("Rparen", "Pipe")):
            return True
    return False


def oracle_leg(ctx, rows, limit=None):
    """Coq accepts (POSIX grammar + shell switches) vs bash -n / dash -n verdicts on the search's token lists."""
    rows = [r for r in rows if r.get("toks")]
    if limit is None:
        limit = 1200 if ctx.tier == "quick" else 40000
    if len(rows) > limit:
        step = len(rows) / float(limit)
        off = ctx.seed % max(1, int(step))
        rows = [rows[min(len(rows) - 1, int(i * step) + off)] for i in range(limit)]
    items, meta = [], []
    for r in rows:
        if r["bash"] in (0, 1, 2) and not bash_for_quirk(r["toks"]):
            items.append("(false,%s,%s)" % (coq_toks(r["toks"]), "true" if r["bash"] == 0 else "false"))
            meta.append((r, "bash"))
        if r["dash"] in (0, 1, 2) and not dash_case_quirk(r["toks"]):
            items.append("(true,%s,%s)" % (coq_toks(r["toks"]), "true" if r["dash"] == 0 else "false"))
            meta.append((r, "dash"))
    mism = []
    SH = 1500
    for sh in range(0, len(items), SH):
        part = items[sh:sh + SH]
        text = OHEADER + "Definition cases : list (bool * list token * bool) := %s.\nDefinition M := Eval vm_compute in omism 0 cases.\nPrint M.\n" % coq_list(part)
        ok, out = ctx.coq_cases("%s_oracle_%d" % (ctx.pid.lower(), sh), text)
        m = re.search(r"M\s*=\s*(\[[^\]]*\])", out)
        if not ok or not m:
            ctx.broken.append(("correspondence:oracle-eval", "coqc on generated cases failed: " + out[-800:]))
            return
        for i in [int(x) for x in re.findall(r"\d+", m.group(1))]:
            r, shn = meta[sh + i]
            mism.append({"src": r["src"], "toks": r["toks"], "shell": shn, "exit": r[shn]})
    ctx.leg("oracle:Syntax/CoreGrammar.v accepts (POSIX grammar + shell switches) vs bash -n / dash -n", len(items), mism,
            note="token lists of the search (pool slice + fresh), both shells; KF-C12-6 bash lexer quirk excluded for bash, KF-C12-8 dash case-pattern quirk excluded for dash")
