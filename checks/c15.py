"""C15 Typed JSON round-trips syntax trees.
Proof: coq/Props/C15.v over the model coq/Syntax/TypedJson.v (encodeValue/decodeValue over generic values and a JSON
AST); schema (reflection) and operator/type-name tables (coq/Gen/Operators.v, dumped from the running code) are
regenerated on every run and the finite table lemmas re-checked by the kernel.
Code leg: Go Encode output (member order kept) vs model encode on exported trees (root and sub-nodes); Go Decode vs
model decode on mutated documents (error or the decoded tree), in the kernel.
Search: Encode/Decode/DeepEqual modulo recovered positions and nil-vs-empty slices/byte-identical re-encode on the
whole corpus in 5 variants incl. RecoverErrors trees, sub-nodes as root; Decode never panics on mutated JSON/bytes."""
import os
import re

from vcheck import REPO, ROOT, coq_list
from c14 import regen

E_HDR = """From Verif Require Import Base.Str Syntax.Schema Syntax.TypedJson Gen.Schema Gen.Operators.
Open Scope N_scope.
Definition enc_ok (v : value) (j : json) : bool :=
  match encode gen_schema gen_tables v with
  | Ok j' =>
      json_eqb j' j &&
      res_eqb value_eqb (decode gen_schema gen_tables j') (Ok (VIface (match erase (canon v) with VPtr o => o | _ => None end))) &&
      res_eqb json_eqb (encode gen_schema gen_tables (canon v)) (Ok j') &&
      has_type gen_schema (TIface (node_iface gen_schema)) (VIface (match v with VPtr o => o | _ => None end))
  | _ => false end.
Definition CT := (value * json)%type.
Fixpoint mism (i : nat) (cs : list CT) : list nat :=
  match cs with [] => [] | (v, j) :: r => if enc_ok v j then mism (S i) r else i :: mism (S i) r end.
"""

D_HDR = """From Verif Require Import Base.Str Syntax.Schema Syntax.TypedJson Gen.Schema Gen.Operators.
Open Scope N_scope.
Definition dec_ok (j : json) (want : option value) : bool :=
  match decode gen_schema gen_tables j, want with
  | Ok v, Some w => value_eqb v w
  | Err _, None => true
  | _, _ => false end.
Definition CT := (json * option value)%type.
Fixpoint mism (i : nat) (cs : list CT) : list nat :=
  match cs with [] => [] | (j, w) :: r => if dec_ok j w then mism (S i) r else i :: mism (S i) r end.
"""


def kernel(ctx, name, hdr, items, shard):
    bad = []
    for sh in range(0, len(items), shard):
        part = items[sh:sh + shard]
        text = hdr + "Definition cases : list CT := %s.\nDefinition M := Eval vm_compute in mism 0 cases.\nPrint M.\n" % coq_list(part)
        okc, out = ctx.coq_cases("%s_%d" % (name, sh), text)
        m = re.search(r"M\s*=\s*(\[[^\]]*\])", out)
        if not okc or not m:
            ctx.broken.append(("correspondence:code-eval", "coqc on generated cases failed: " + out[-800:]))
            return None
        bad += [sh + int(x) for x in re.findall(r"\d+", m.group(1))]
    return bad


def run(ctx):
    binp = ctx.go_build("c15")
    if not binp:
        ctx.coq_props()
        return
    info = regen(ctx, binp, ["Schema.v", "Operators.v"])
    if info is not None and info.get("probe_notes"):
        ctx.broken.append(("gen:probe", "; ".join(info["probe_notes"][:8])))
    ctx.coq_props()
    n = 300 if ctx.tier == "quick" else 6000
    rc, rows, err = ctx.jsonl([binp, "json", "-in", REPO, "-seed", str(ctx.seed), "-n", str(n), "-tier", ctx.tier, os.path.join(ROOT, "corpus", "c15", "regress.jsonl")], timeout=3000)
    summ = [r for r in rows if "summary" in r]
    if rc != 0 or not summ:
        ctx.broken.append(("harness-run", "c15 json failed rc=%d %s" % (rc, err[-800:])))
        return
    st = summ[0]["summary"]
    ctx.extra["search"] = st
    ctx.rule = ("every string literal of syntax/filetests_test.go and syntax/printer_test.go (go/parser, at run time) + hand-written "
                "programs + %d seeded splices/comment insertions/deletions, parsed with KeepComments in bash, posix, mksh, bats, zsh, and "
                "with RecoverErrors where the plain parse fails (trees with recovered positions); every tree as root and its sub-nodes "
                "as root (%s): Encode, Decode, DeepEqual against a copy with recovered positions unset and empty slices nil, byte-identical "
                "re-encode; a pinned 262144-line input whose positions overflow; Decode on hand-written documents, AST-level mutations of "
                "real encodings and byte-level damage must not panic; non-trivial = a tree or sub-node round trip or a document"
                % (n, "a seed-rotated dozen per tree" if ctx.tier == "quick" else "all"))
    ctx.count(st["Trees"] + st["SubNodes"] + st["Docs"] + st["ByteDocs"],
              [("t", i) for i in range(st["Trees"] + st["SubNodes"])] + [("d", i) for i in range(st["DocsValid"])])
    for r in rows:
        if "fail" in r:
            f = r["fail"]
            ctx.fail(f["clause"], {"src": f["src"][:4000], "lang": f.get("lang", "")}, f.get("class") or None, f.get("detail"))
    # ---- code leg 1: encode (and the model's own round trip on the same trees)
    ec = [r["ecase"] for r in rows if "ecase" in r]
    bad = kernel(ctx, "c15e", E_HDR, ["(%s,%s)" % (c["value"], c["json"]) for c in ec], 45)
    if bad is None:
        return
    ctx.leg("code:typedjson.Encode (JSON members in order) vs Syntax/TypedJson.v encode; model decode(encode v) = erase(canon v), "
            "encode(canon v) = encode v on the same trees (vm_compute in kernel)", len(ec),
            [{"src": ec[i]["src"], "lang": ec[i]["lang"], "kind": ec[i]["kind"]} for i in bad])
    # ---- code leg 2: decode on mutated documents
    dc = [r["dcase"] for r in rows if "dcase" in r]
    items = ["(%s,%s)" % (c["json"], "None" if c["res"] == "E" else "(Some %s)" % c["res"][1:]) for c in dc]
    bad = kernel(ctx, "c15d", D_HDR, items, 150)
    if bad is None:
        return
    ctx.leg("code:typedjson.Decode on hand-written and mutated documents (error, or the decoded tree) vs Syntax/TypedJson.v decode "
            "(vm_compute in kernel)", len(dc), [{"doc": dc[i]["doc"][:1500], "go": dc[i]["res"][:300]} for i in bad])
    for c in ec[:2]:
        ctx.sample({"src": c["src"], "lang": c["lang"], "kind": c["kind"], "go_json": c["json"][:300]})
    for c in dc[60:62]:
        ctx.sample({"doc": c["doc"][:300], "go": c["res"][:100]})
    ctx.assumptions += [
        "encoding/json maps the JSON AST to bytes and back faithfully (valid UTF-8 strings; the parser rejects invalid UTF-8); "
        "byte-identical re-encoding is stated as equality of JSON ASTs in member order plus determinism of the JSON printer",
        "Node.Pos()/End() are not modelled: their results are attributes of the exported tree; that they are unchanged by the round "
        "trip is checked by the byte-identical re-encode of the search, not proved",
        "a nil slice and an empty slice are identified (canon): the parser produces empty non-nil Comments slices which decode as nil",
        "Go map iteration order in decodeValue is irrelevant to the result (distinct keys set distinct fields); the model processes members in list order",
        "operator constants are read from the source (go/types) and String()/UnmarshalText probed on all token values below 400"]


def replay(ctx, obj):
    import json
    print(json.dumps(obj, indent=1))
    return 0


META = {
    "category": "proof",
    "text": ("Coq theorems over a model of typedjson's encodeValue/decodeValue on generic values of the schema reflected from the "
             "running code: for every well-typed tree whose encoding succeeds, decode(encode v) = the tree with recovered/zero "
             "positions unset and empty slices nil, and encode of that tree is the same JSON; decode never panics on any JSON "
             "value; every defined operator constant survives String/UnmarshalText (tables dumped from the running code, finite "
             "check by the kernel each run). Model tied to the code in the kernel on real encodings (member order kept) and on "
             "mutated documents; Go-side DeepEqual/byte-identical search over the whole corpus, sub-nodes as root."),
    "note": ("Trusted: Coq kernel + vm_compute; encoding/json; reflection/probing generators; Pos()/End() method results are inputs; "
             "nil-vs-empty slices identified (my reading of 'equal in every field'); byte level not modelled."),
    "design_ref": "DESIGN.md 4 C15",
}
