"""C05 Formatting keeps every comment.
Proof: coq/Props/C05.v over coq/Syntax/CommentQueue.v — the printer's pending-comment queue on a flat statement
list (PARTIAL).
Code leg: comments written by the real printer for generated flat statement lists vs the model's print_file.
Search (whole language): comment texts of Parse(src) vs Parse(Print(src)) and vs the output text; Minify keeps only a
first-line shebang; over the fixed enumeration with comments injected at token boundaries."""
import re

import c01
from vcheck import coq_bytes, coq_list


def coq_comment(c):
    return "{| c_text := %s; c_shebang := %s; c_at_1_1 := %s |}" % (coq_bytes(c["text"]), c01.bool_c(c["shebang"]), c01.bool_c(c["at11"]))


def queue_leg(ctx, binp, n):
    rc, rows, err = ctx.jsonl([binp, "queue", "-seed", str(ctx.seed), "-n", str(n)], timeout=300)
    if rc != 0 or not rows:
        ctx.broken.append(("harness-run", "queue leg failed rc=%d %s" % (rc, err[-600:])))
        return
    good = [r for r in rows if not r.get("err")]
    for r in rows:
        if r.get("err"):
            ctx.broken.append(("correspondence:queue", "printer output did not re-parse: " + r["err"]))
            return
    items = []
    for r in good:
        ss = coq_list(["{| before := %s; mid := %s; after_ := %s; nl_before := %s |}" % (
            coq_list([coq_comment(c) for c in s["before"]]), coq_list([coq_comment(c) for c in s["mid"]]),
            coq_list([coq_comment(c) for c in s["after"]]), c01.bool_c(s["nl_before"])) for s in r["stmts"]])
        items.append("(%s,%s,%s,%s)" % (c01.bool_c(r["minify"]), ss, coq_list([coq_comment(c) for c in r["last"]]),
                                       coq_list([coq_bytes(t) for t in r["written"]])))
    text = """From Verif Require Import Base.Str Syntax.CommentQueue.
Open Scope N_scope.
Fixpoint bytes_eqb (a b : str) : bool :=
  match a, b with [], [] => true | x :: a', y :: b' => (x =? y) && bytes_eqb a' b' | _, _ => false end.
Fixpoint texts_eqb (a : list comment) (b : list str) : bool :=
  match a, b with [], [] => true | x :: a', y :: b' => bytes_eqb (c_text x) y && texts_eqb a' b' | _, _ => false end.
Definition ok_case (c : bool * list stmt_coms * list comment * list str) : bool :=
  let '(m, ss, last, w) := c in texts_eqb (print_file m ss last) w.
Fixpoint mism (i : nat) (cs : list (bool * list stmt_coms * list comment * list str)) : list nat :=
  match cs with [] => [] | c :: rest => if ok_case c then mism (S i) rest else i :: mism (S i) rest end.
Definition cases : list (bool * list stmt_coms * list comment * list str) := %s.
Definition M := Eval vm_compute in mism 0 cases.
Print M.
""" % coq_list(items)
    ok, out = ctx.coq_cases("c05_queue", text)
    m = re.search(r"M\s*=\s*(\[[^\]]*\])", out)
    if not ok or not m:
        ctx.broken.append(("correspondence:code-eval", "coqc on generated queue cases failed: " + out[-800:]))
        return
    mism = []
    for i in [int(x) for x in re.findall(r"\d+", m.group(1))]:
        r = good[i]
        mism.append({"src": bytes.fromhex(r["src"]).decode("utf-8", "replace"), "minify": r["minify"],
                     "go_written": [bytes.fromhex(t).decode("utf-8", "replace") for t in r["written"]]})
    ctx.leg("code:Printer.comments/flushComments/stmtList on flat statement lists vs Syntax/CommentQueue.v (vm_compute in kernel)",
            len(good), mism, note="comments split into before/mid/after exactly as Printer.stmtList does; shebang verdict from fileutil.Shebang")


def run(ctx):
    ctx.coq_props()
    binp = c01.run_search(ctx, "c05")
    if not binp:
        return
    queue_leg(ctx, binp, 1200 if ctx.tier == "quick" else 12000)
    c01.rerun_witnesses(ctx, binp)
    ctx.assumptions += [
        "proof covers the pending-comment queue driven by stmtList on a flat statement list; the walk over nested constructs, "
        "the parser's comment attachment, heredocs and the tabwriter are covered by the search only",
        "fileutil.Shebang (a regular expression) is not modelled: its verdict is an input of the model",
        "text-level check: every comment must end a line of the output (trailing whitespace aside), in order",
    ]


replay = c01.replay

META = {
    "category": "proof",
    "technique": "Coq proof on a mechanism model (comment queue) + kernel-evaluated correspondence + whole-language search",
    "text": ("Coq theorems C05_queue_partial / C05_minify_shebang_only_partial over a model of the printer's pending-comment queue "
             "(comments, flushComments, stmtList's hand-over): every comment handed to the queue is written exactly once and in order "
             "wherever the flushes fall; under Minify exactly the first-line shebangs are written. Tied to the code on every run by "
             "comparing the comments the real printer writes for generated flat statement lists with the model inside the Coq kernel. "
             "PARTIAL w.r.t. the property: all nested constructs, all variants and option combinations are covered by a search that "
             "compares the comment sequence of Parse(src) with that of Parse(Print(src)) and with the output text, on a fixed, fully "
             "pre-classified enumeration including comments injected at token boundaries."),
    "note": ("Trusted: Coq kernel + vm_compute; hand-written model; differential tie. Three comment-dropping/keeping defects found by "
             "the search were repaired by fix: commits (SingleLine binary RHS comments, Minify inline backquote comment, for-name "
             "comment glue); remaining divergences are listed as narrow known-finding classes."),
    "design_ref": "DESIGN.md 4 C05",
}
