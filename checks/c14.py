"""C14 Walk and Preorder visit every node exactly once.
Proof: coq/Props/C14.v over the generic tree model coq/Syntax/Walk.v; the schema (coq/Gen/Schema.v, reflection) and
the walk table (coq/Gen/WalkTable.v, probing of the running syntax.Walk) are regenerated on every run and the table
lemma is re-checked by the kernel.
Code leg: model walk / pruned walk / stopped Preorder evaluated in the kernel on exported trees vs the Go callbacks.
Search: Go Walk/Preorder vs a reflection enumeration on the test-table corpus + generated programs, 5 variants,
pruning at every node and early stop at every position on small trees."""
import fcntl
import os
import re

from vcheck import COQ, REPO, ROOT, coq_list


def write_gen(ctx, files):
    """write coq/Gen/<name> when its content changed (under the Coq build lock)."""
    d = os.path.join(COQ, "Gen")
    os.makedirs(d, exist_ok=True)
    lock = open(os.path.join(COQ, ".buildlock"), "w")
    fcntl.flock(lock, fcntl.LOCK_EX)
    changed = []
    try:
        for name, text in files.items():
            p = os.path.join(d, name)
            old = open(p).read() if os.path.exists(p) else None
            if old != text:
                with open(p, "w") as f:
                    f.write(text)
                changed.append(name)
    finally:
        fcntl.flock(lock, fcntl.LOCK_UN)
        lock.close()
    return changed


def regen(ctx, binp, wanted):
    rc, rows, err = ctx.jsonl([binp, "gen", "-in", REPO], timeout=300)
    files, info = {}, {}
    for r in rows:
        if "file" in r:
            files[r["file"]] = r["text"]
        if "info" in r:
            info = r["info"]
    if rc != 0 or any(w not in files for w in wanted):
        ctx.broken.append(("gen", "harness gen failed rc=%d %s" % (rc, err[-800:])))
        return None
    changed = write_gen(ctx, {k: files[k] for k in wanted})
    ctx.extra["gen_files_changed"] = changed
    ctx.extra["gen_info"] = info
    if info.get("source_error"):
        ctx.broken.append(("gen:source", "cannot read the syntax package source: " + info["source_error"]))
    if info.get("registry_missing") or info.get("registry_extra"):
        ctx.broken.append(("gen:registry", "node types declared in %s/syntax differ from the harness registry: missing=%s extra=%s"
                           % (REPO, info.get("registry_missing"), info.get("registry_extra"))))
    if info.get("problems"):
        ctx.broken.append(("gen:schema", "types outside the generic model: %s" % info["problems"]))
    return info


CASES_HDR = """From Verif Require Import Base.Str Syntax.Schema Syntax.Walk Gen.Schema Gen.WalkTable.
Open Scope N_scope.
Definition key := (nat * (N * N) * (N * N))%type.
Definition key_eqb (a b : key) : bool :=
  let '(s1, p1, e1) := a in let '(s2, p2, e2) := b in Nat.eqb s1 s2 && pos_eqb p1 p2 && pos_eqb e1 e2.
Fixpoint tr_eqb (a b : list (option key)) : bool :=
  match a, b with
  | [], [] => true
  | None :: a', None :: b' => tr_eqb a' b'
  | Some x :: a', Some y :: b' => key_eqb x y && tr_eqb a' b'
  | _, _ => false end.
Definition keys (t : list ev) : list (option key) := map (option_map node_key) t.
Definition fuel : nat := 400.
Definition cb_prune (k : nat) (n : nat) (e : ev) : nat * bool :=
  match e with None => (n, true) | Some _ => (S n, negb (Nat.eqb n k)) end.
Definition yield_stop (k : nat) (y : nat * list (option key)) (v : value) : (nat * list (option key)) * bool :=
  let '(c, acc) := y in ((S c, Some (node_key v) :: acc), Nat.ltb (S c) (S k)).
Definition ok_full (v : value) (tr : list (option key)) : bool :=
  match walk_all gen_walk_table fuel v with Ok (t, _) => tr_eqb (keys t) tr | _ => false end.
Definition ok_prune (v : value) (k : nat) (tr : list (option key)) : bool :=
  match walk gen_walk_table (cb_prune k) fuel O v with Ok (t, _) => tr_eqb (keys t) tr | _ => false end.
Definition ok_stop (v : value) (k : nat) (ys : list (option key)) : bool :=
  match preorder (yield_stop k) gen_walk_table fuel (O, []) v with
  | Ok (_, (_, (_, acc))) => tr_eqb (rev acc) ys | _ => false end.
(* the reflection enumeration agrees with the model's node set *)
Definition ok_nodes (v : value) (tr : list (option key)) : bool :=
  Nat.eqb (length (nodes_in gen_schema v)) (length (filter (fun x : option key => match x with None => true | Some _ => false end) tr)) && has_type gen_schema (TStruct 0) v.
Definition case := (value * list (option key) * nat * list (option key) * nat * list (option key))%type.
Fixpoint mism (i : nat) (cs : list case) : list nat :=
  match cs with [] => []
  | (v, tr, pk, ptr, sk, ys) :: rest =>
      if ok_full v tr && ok_prune v pk ptr && ok_stop v sk ys && ok_nodes v tr then mism (S i) rest else i :: mism (S i) rest end.
"""


def run(ctx):
    binp = ctx.go_build("c14")
    if not binp:
        ctx.coq_props()
        return
    info = regen(ctx, binp, ["Schema.v", "WalkTable.v"])
    if info is not None and info.get("probe_notes"):
        # the probe saw a field that Walk never visits or an irregular order: the table lemma will fail; say why
        ctx.extra["probe_notes"] = info["probe_notes"]
    ok = ctx.coq_props()
    if not ok and info is not None and info.get("probe_notes"):
        ctx.broken.append(("walk-table", "probing syntax.Walk: " + "; ".join(info["probe_notes"][:8])))
    n = 300 if ctx.tier == "quick" else 6000
    rc, rows, err = ctx.jsonl([binp, "walk", "-in", REPO, "-seed", str(ctx.seed), "-n", str(n), "-tier", ctx.tier, os.path.join(ROOT, "corpus", "c14", "regress.jsonl")],
                              timeout=3000)
    summ = [r for r in rows if "summary" in r]
    if rc != 0 or not summ:
        ctx.broken.append(("harness-run", "c14 walk failed rc=%d %s" % (rc, err[-800:])))
        return
    st = summ[0]["summary"]
    ctx.rule = ("every string literal of syntax/filetests_test.go and syntax/printer_test.go (read with go/parser at run time) + "
                "hand-written comment/declare/zsh-modifier programs + %d seeded splices/comment insertions/deletions, each parsed "
                "with KeepComments in bash, posix, mksh, bats, zsh; every parsed tree: Walk callbacks vs reflection enumeration "
                "(identity by pointer, for comment copies by kind+Pos+End+scalar fields), Preorder vs Walk; trees of <= %d nodes: "
                "pruning at every node and stopping Preorder at every position; non-trivial = a parsed tree" % (n, 40 if ctx.tier == "quick" else 90))
    ctx.count(st["Trees"] + st["PruneRuns"] + st["StopRuns"], [("tree", i) for i in range(st["Trees"])])
    ctx.extra["search"] = st
    for r in rows:
        if "fail" in r:
            f = r["fail"]
            ctx.fail(f["clause"], {"src": f["src"], "lang": f["lang"]}, f.get("class") or None, f.get("detail"))
        if "export_error" in r:
            ctx.broken.append(("export", "tree not exportable to the generic value type: %s" % r))
    if summ[0].get("failures", 0) > 200:
        ctx.extra["failures_total"] = summ[0]["failures"]
    # ---- code leg: model vs Go in the kernel
    cases = [r["case"] for r in rows if "case" in r]
    mism, total = [], 0
    shard = 60
    for sh in range(0, len(cases), shard):
        part = cases[sh:sh + shard]
        items = ["(%s,%s,%d%%nat,%s,%d%%nat,%s)" % (c["value"], c["trace"], c["prune_k"], c["ptrace"], c["stop_k"], c["yields"])
                 for c in part]
        text = CASES_HDR + "Definition cases : list case := %s.\nDefinition M := Eval vm_compute in mism 0 cases.\nPrint M.\n" % coq_list(items)
        okc, out = ctx.coq_cases("c14_%d" % sh, text)
        m = re.search(r"M\s*=\s*(\[[^\]]*\])", out)
        if not okc or not m:
            ctx.broken.append(("correspondence:code-eval", "coqc on generated cases failed: " + out[-800:]))
            return
        total += len(part)
        for i in [int(x) for x in re.findall(r"\d+", m.group(1))]:
            c = part[i]
            mism.append({"src": c["src"], "lang": c["lang"], "prune_k": c["prune_k"], "stop_k": c["stop_k"]})
    for c in cases[:3]:
        ctx.sample({"src": c["src"], "lang": c["lang"], "nodes": c["nodes"], "go_trace": c["trace"][:300]})
    ctx.leg("code:syntax.Walk/Preorder (full, pruned at k, stopped at k) vs Syntax/Walk.v over Gen tables (vm_compute in kernel)",
            total, mism)
    ctx.assumptions += [
        "Node.Pos()/End() are not modelled: their results are attributes of the exported tree (used by the three comment loops)",
        "Walk on a nil required child is modelled as Panic (Go hands a typed nil to the callback first, and for leaf kinds does not panic)",
        "BraceExp (never produced by the parser) has no case in Walk: the model panics there as the code does",
        "node registry of the harness is compared with the package source (go/ast) on every run"]


def replay(ctx, obj):
    import json
    print(json.dumps(obj, indent=1))
    return 0


META = {
    "category": "proof",
    "text": ("Coq theorems over a generic tree model of syntax.Walk/Preorder, parametric in a schema and a walk table: if the "
             "table covers every node-reaching field path of every kind (table_ok, re-checked by the kernel on every run for "
             "the schema reflected from the running code and the table obtained by probing the running Walk), then for every "
             "well-typed tree and every (stateful) callback the callback sequence is: the node, then - unless the callback "
             "answered false - every child reachable through the exported fields exactly once, f(nil) once, trailing comments "
             "after it; unpruned, the visited nodes are a permutation of all nodes of the tree and nils equal nodes; Preorder "
             "feeds the consumer exactly that node sequence and never calls it again after it stops. Model tied to the code "
             "by in-kernel evaluation on exported parsed trees; search over the whole test-table corpus in five variants."),
    "note": ("Trusted: Coq kernel + vm_compute; reflection/probing generators in harness/hxsyn (a wrong table is caught by the "
             "in-kernel leg and by the Go-side search, not by the proof); Pos()/End() results are inputs; positions of the "
             "deferred trailing comments follow the hand-written rule selected by the probe."),
    "design_ref": "DESIGN.md 4 C14",
}
