"""C23 read splits lines like bash.
Proof: coq/Props/C23.v over the model coq/Expand/Read.v (ReadFields, readLine, the read builtin's assignment logic).
Code leg: expand.ReadFields (n = -1,0,1,2,3,5,-7) and the interpreter's read builtin vs the Coq model (vm_compute, same inputs);
the same cases also evaluate the Coq Spec (bash read) against the model.
Search: the interpreter's read vs real bash 5.2 on generated inputs (files), pinned witnesses, invalid UTF-8 (laws only)."""
import re
from vcheck import coq_list


def nl(v):
    return "[" + ";".join(str(x) for x in v) + "]"


def nll(vs):
    return "[" + ";".join(nl(v) for v in vs) + "]"


def cb(b):
    return "true" if b else "false"


CASES_V = """From Verif Require Import Base.Str Expand.Fields Expand.Read.
Open Scope N_scope.
Definition rf_cases : list (option str * str * Z * bool * res (list str)) := %s.
Definition bi_cases : list (option str * bool * target * str * bool * list str) := %s.
Fixpoint sl_eqb (a b : list str) : bool :=
  match a, b with [], [] => true | x :: a', y :: b' => str_eqb x y && sl_eqb a' b' | _, _ => false end.
Definition rsl_eqb (a b : res (list str)) : bool :=
  match a, b with Panic, Panic => true | Ok x, Ok y => sl_eqb x y | _, _ => false end.
Definition as_list (a : assigned) : list str := match a with AScalars v => v | AArray v => v end.
Definition is_arr (a : assigned) : bool := match a with AArray _ => true | _ => false end.
Definition want_arr (t : target) : bool := match t with TArray => true | _ => false end.
Fixpoint rf_mism (i : nat) (cs : list (option str * str * Z * bool * res (list str))) : list nat :=
  match cs with [] => []
  | (oifs, line, n, raw, want) :: rest =>
     if rsl_eqb (read_fields oifs line n raw) want then rf_mism (S i) rest else i :: rf_mism (S i) rest end.
Fixpoint rf_spec_mism (i : nat) (cs : list (option str * str * Z * bool * res (list str))) : list nat :=
  match cs with [] => []
  | (oifs, line, n, raw, want) :: rest =>
     if rsl_eqb (Ok (spec_read_fields oifs line n raw)) want then rf_spec_mism (S i) rest else i :: rf_spec_mism (S i) rest end.
Fixpoint bi_mism (i : nat) (cs : list (option str * bool * target * str * bool * list str)) : list nat :=
  match cs with [] => []
  | (oifs, raw, t, inp, eof, want) :: rest =>
     let ok := match read_builtin oifs raw t inp with
               | Ok (a, e) => sl_eqb (as_list a) want && Bool.eqb e eof && Bool.eqb (is_arr a) (want_arr t)
               | _ => false end in
     let (sa, se) := spec_read oifs raw t inp in
     let oks := sl_eqb (as_list sa) want && Bool.eqb se eof in
     if ok && oks then bi_mism (S i) rest else i :: bi_mism (S i) rest end.
Definition M1 := Eval vm_compute in rf_mism 0 rf_cases.
Definition M2 := Eval vm_compute in rf_spec_mism 0 rf_cases.
Definition M3 := Eval vm_compute in bi_mism 0 bi_cases.
Print M1.
Print M2.
Print M3.
"""


SEQ_V = """From Verif Require Import Base.Str Expand.Fields Expand.Read.
Open Scope N_scope.
Definition seqs : list (list (option str * str * Z * bool) * list (res (list str))) := %s.
Fixpoint sl_eqb (a b : list str) : bool :=
  match a, b with [], [] => true | x :: a', y :: b' => str_eqb x y && sl_eqb a' b' | _, _ => false end.
Definition rsl_eqb (a b : res (list str)) : bool :=
  match a, b with Panic, Panic => true | Ok x, Ok y => sl_eqb x y | _, _ => false end.
Fixpoint rl_eqb (a b : list (res (list str))) : bool :=
  match a, b with [], [] => true | x :: a', y :: b' => rsl_eqb x y && rl_eqb a' b' | _, _ => false end.
Fixpoint mism (i : nat) (cs : list (list (option str * str * Z * bool) * list (res (list str)))) : list nat :=
  match cs with [] => []
  | (calls, want) :: rest => if rl_eqb (read_seq [] calls) want then mism (S i) rest else i :: mism (S i) rest end.
Definition M := Eval vm_compute in mism 0 seqs.
Print M.
"""


def idx(out, name):
    m = re.search(name + r"\s*=\s*(\[[^\]]*\])", out)
    if not m:
        return None
    return [int(x) for x in re.findall(r"\d+", m.group(1))]


def run(ctx):
    ctx.coq_props()
    quick = ctx.tier == "quick"
    n_gen = 800 if quick else 12000
    n_wild = 300 if quick else 6000
    n_seq = 150 if quick else 2500
    binp = ctx.go_build("c23")
    if not binp:
        return
    streams = {}
    for mode, n in (("gen", n_gen), ("wild", n_wild), ("seq", n_seq), ("pinned", 0)):
        rc, rows, err = ctx.jsonl([binp, mode, "-seed", str(ctx.seed), "-n", str(n)], timeout=1500)
        if rc != 0 or not rows:
            ctx.broken.append(("harness-run", "c23 %s failed rc=%d %s" % (mode, rc, err[-800:])))
            return
        streams[mode] = rows
    ctx.rule = ("IFS drawn from unset/empty/default/whitespace/non-whitespace/mixed/multi-byte/backslash values; input of 1..4 lines of "
                "0..8 characters (40% IFS characters at any position, backslashes, backslash-newline continuations, with or without a "
                "final newline) read from a file; -r or not; 0..4 names or -a; seq stream: 2..3 such reads run one after the other by ONE bash, ONE Runner and ONE expand.Config while "
                "IFS changes in between (custom value, then unset / empty / another value); wild stream inserts invalid UTF-8 (no bash oracle there: "
                "no panic + bytes preserved); non-trivial = distinct (IFS, input, flags, names) whose line holds an IFS character or a backslash")
    no_oracle = 0
    for mode, rows in streams.items():
        for r in rows:
            key = (r["ifs_hex"], r["ifs_set"], r["input_hex"], r["raw"], r["array"], r["k"])
            ifsb = bytes.fromhex(r["ifs_hex"])
            inpb = bytes.fromhex(r["input_hex"])
            nontrivial = b"\\" in inpb or any(bytes([c]) in ifsb for c in inpb.split(b"\n")[0])
            ctx.count(1, [key] if nontrivial else [])
            if r.get("no_oracle"):
                no_oracle += 1
            for cl in r.get("fails") or []:
                ctx.fail(cl, {"script": r.get("seq_script") or r["script"], "step": r.get("seq_pos", 0), "input_hex": r["input_hex"]},
                         r.get("class") or None,
                         {"interp": r["interp"], "bash": r["bash"]})
    ctx.extra["cases_without_bash_oracle"] = no_oracle
    for r in streams["gen"][:3]:
        ctx.sample({"script": r["script"], "input_hex": r["input_hex"], "go": r["interp"], "bash": r["bash"]})
    # ---- code leg (and Spec evaluated on the same cases)
    rows = [r for m in ("gen", "seq", "pinned") for r in streams[m] if r["modelled"]]
    mism, spec_mism = [], []
    total_rf = total_bi = 0
    for sh in range(0, len(rows), 300):
        part = rows[sh:sh + 300]
        rf_items, rf_src, bi_items, bi_src = [], [], [], []
        for r in part:
            oifs = "Some " + nl(r["ifs"]) if r["ifs_set"] else "None"
            for n, got in zip(r["rf_n"], r["rf"]):
                want = "Panic" if got == "P" else "(Ok %s)" % nll(got or [])
                rf_items.append("(%s,%s,(%d)%%Z,%s,%s)" % (oifs, nl(r["line"]), n, cb(r["raw"]), want))
                rf_src.append((r, n))
            vals = r.get("vals")
            if not vals:
                mism.append({"script": r["script"], "input_hex": r["input_hex"], "interp": r["interp"]})
                continue
            status = "".join(chr(c) for c in vals[0])
            if status not in ("0", "1"):
                mism.append({"script": r["script"], "input_hex": r["input_hex"], "interp": r["interp"]})
                continue
            if r["array"]:
                cnt = int("".join(chr(c) for c in vals[1]) or "0")
                slots = vals[2:]
                if cnt > 10 or any(slots[cnt:]):
                    mism.append({"script": r["script"], "input_hex": r["input_hex"], "interp": r["interp"], "why": "array slots"})
                    continue
                want, target = slots[:cnt], "TArray"
            elif r["k"] == 0:
                want, target = vals[1:], "TReply"
            else:
                want, target = vals[1:], "(TNames %d)" % r["k"]
            bi_items.append("(%s,%s,%s,%s,%s,%s)" % (oifs, cb(r["raw"]), target, nl(r["input"]), cb(status == "1"), nll(want)))
            bi_src.append(r)
        ok, out = ctx.coq_cases("c23_%d_%d" % (ctx.seed, sh), CASES_V % (coq_list(rf_items), coq_list(bi_items)))
        m1, m2, m3 = idx(out, "M1"), idx(out, "M2"), idx(out, "M3")
        if not ok or m1 is None or m2 is None or m3 is None:
            ctx.broken.append(("correspondence:code-eval", "coqc on generated cases failed: " + out[-800:]))
            return
        total_rf += len(rf_items)
        total_bi += len(bi_items)
        for i in m1:
            r, n = rf_src[i]
            mism.append({"what": "ReadFields", "ifs_hex": r["ifs_hex"], "line": r["line"], "n": n, "raw": r["raw"], "go": r["rf"][r["rf_n"].index(n)]})
        for i in m3:
            r = bi_src[i]
            mism.append({"what": "read builtin (model or spec)", "script": r["script"], "input_hex": r["input_hex"], "interp": r["interp"]})
        for i in m2:
            r, n = rf_src[i]
            spec_mism.append({"what": "Spec vs ReadFields", "ifs_hex": r["ifs_hex"], "line": r["line"], "n": n, "raw": r["raw"]})
    ctx.leg("code:expand.ReadFields + read builtin vs Expand/Read.v (vm_compute in kernel)", total_rf + total_bi, mism)
    ctx.leg("spec:Expand/Read.v spec_read_fields vs expand.ReadFields on the same cases", total_rf, spec_mism)
    # ---- code leg 2: sequences of ReadFields calls on ONE expand.Config with a changing environment vs read_seq
    groups = {}
    for r in streams["seq"]:
        groups.setdefault(r["seq"], []).append(r)
    seqs = [g for g in groups.values() if all(r["modelled"] for r in g)]
    smism = []
    for sh in range(0, len(seqs), 400):
        part = seqs[sh:sh + 400]
        items = []
        for g in part:
            calls, wants = [], []
            for r in g:
                oifs = "Some " + nl(r["ifs"]) if r["ifs_set"] else "None"
                for n, got in zip(r["rf_n"], r["rf"]):
                    calls.append("(%s,%s,(%d)%%Z,%s)" % (oifs, nl(r["line"]), n, cb(r["raw"])))
                    wants.append("Panic" if got == "P" else "(Ok %s)" % nll(got or []))
            items.append("(%s,%s)" % (coq_list(calls), coq_list(wants)))
        ok, out = ctx.coq_cases("c23seq_%d_%d" % (ctx.seed, sh), SEQ_V % coq_list(items))
        m = idx(out, "M")
        if not ok or m is None:
            ctx.broken.append(("correspondence:code-eval", "coqc on generated sequences failed: " + out[-800:]))
            return
        for i in m:
            smism.append({"script": part[i][0]["seq_script"], "go": [r["rf"] for r in part[i]]})
    ctx.leg("code:sequences of ReadFields on one expand.Config vs read_seq (vm_compute in kernel)", len(seqs), smism)
    ctx.assumptions += [
        "strings are modelled as lists of code points; the code leg feeds valid UTF-8 only (invalid bytes: no panic + bytes preserved)",
        "bash 5.2 is not consulted where it misbehaves itself: input ending inside an escape (leaves \\001), invalid UTF-8, "
        "backslash-escaped multi-byte IFS characters (split into bytes)",
        "read -s/-p/-d/-n/-t/-u and terminal input are outside the model",
    ]


def replay(ctx, obj):
    import json
    print(json.dumps(obj, indent=1))
    return 0


META = {
    "category": "proof",
    "text": ("Coq model of expand.ReadFields (escape state, field positions, wsDelim, trimEnd, last field taking the rest), "
             "Runner.readLine and the read builtin's assignment logic (-r, names, REPLY, -a); theorems: no panic for every line/IFS/n/-r, "
             "and agreement with the bash/POSIX read spec; model tied to expand.ReadFields and the interpreter on every run "
             "(vm_compute in the kernel), interpreter compared with bash 5.2 on generated inputs."),
    "note": ("Trusted: Coq kernel + vm_compute; hand-written model (tie = differential testing); bash as oracle except where it "
             "misbehaves (dangling escape, invalid UTF-8, escaped multi-byte IFS)."),
    "design_ref": "DESIGN.md 4 C23",
}
