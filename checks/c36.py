"""C36 shfmt's list, diff, write and stdin modes agree.

Proof:  coq/Props/C36.v over coq/Shfmt/Modes.v (decision logic of formatBytes/formatPath/formatStdin and the exit
        status loop of main, over an abstract formatter) and coq/Shfmt/Patch.v (unified-diff applier).
Code leg: the shfmt binary built from the current tree, run on generated trees; the Modes.v model, instantiated with
        the formatter's results as a finite table, must predict (inside Coq, vm_compute) which paths -l / -d print,
        the exit status, and what -l prints after -w; the Coq patch applier applied to shfmt's real -d hunks must
        give the formatted bytes.
Search: harness/cmd/c36: generated trees x option sets, as flags, as equivalent EditorConfig, as explicit arguments;
        -f, -l, -l=0, -d, -l -d, plain, stdin --filename, -w then -l compared with the bytes formatted through
        the syntax package directly."""
import os
import re

from vcheck import coq_bytes, coq_list

LANGS = {"bash": "LBash", "posix": "LPosix", "mksh": "LMksh", "bats": "LBats", "zsh": "LZsh"}
SHEBANG = re.compile(rb"^#![ \t]*/(usr/)?bin/(env[ \t]+)?(sh|dash|bash|mksh|bats|zsh)([ \t\n\f\r]|$)")


def shebang(b):
    m = SHEBANG.match(b)
    return m.group(3) if m else b""


def lang_from_filename(rel):
    base = os.path.basename(rel)
    if base.startswith("."):
        base = base[1:]
    if base in ("bash_profile", "bashrc", "bash_logout"):
        return "LBash"
    if base in ("zshenv", "zprofile", "zshrc", "zlogin", "zlogout"):
        return "LZsh"
    ext = os.path.splitext(os.path.basename(rel))[1].lstrip(".")
    if ext != "sh":
        return {"bash": "LBash", "posix": "LPosix", "sh": "LPosix", "dash": "LPosix", "mksh": "LMksh", "bats": "LBats",
                "zsh": "LZsh"}.get(ext)
    return None


def flag_lang(flags):
    fl = flags or []
    for i, f in enumerate(fl):
        if f == "-ln":
            return LANGS[fl[i + 1]]
    return None


def no_ext(rel):
    base = os.path.basename(rel)
    return "." not in base


PRELUDE = """From Verif Require Import Base.Str Shfmt.Modes Shfmt.Patch.
Open Scope N_scope.
Definition tbl_fmt (t : list (lang * str * res str)) (l : lang) (s : str) : res str :=
  match find (fun e => lang_eqb (fst (fst e)) l && str_eqb (snd (fst e)) s) t with Some e => snd e | None => Err 99 end.
Definition tbl_str (t : list (str * str)) (s : str) : str :=
  match find (fun e => str_eqb (fst e) s) t with Some e => snd e | None => [] end.
Definition tbl_lang (t : list (str * option lang)) (s : str) : option lang :=
  match find (fun e => str_eqb (fst e) s) t with Some e => snd e | None => None end.
Fixpoint mem (p : str) (l : list str) : bool := match l with [] => false | q :: l' => str_eqb p q || mem p l' end.
Definition same_set (a b : list str) : bool := Nat.eqb (length a) (length b) && forallb (fun p => mem p b) a && forallb (fun p => mem p a) b.
Definition listed_paths (evs : list ev) : list str :=
  flat_map (fun e => match e with EvList p _ => [p] | _ => [] end) evs.
Definition diffed_paths (evs : list ev) : list str :=
  flat_map (fun e => match e with EvDiff p _ _ => [p] | _ => [] end) evs.
Definition written_paths (evs : list ev) : list str :=
  flat_map (fun e => match e with EvWrite p _ => [p] | _ => [] end) evs.
(* one tree: list run, diff run, write run followed by a list run on the rewritten files *)
Definition tree_ok (tf : list (lang * str * res str)) (ts : list (str * str)) (tl : list (str * option lang))
   (flagl : option lang) (fs : list file) (l_out : list str) (l_rc : bool) (d_out : list str) (d_rc : bool)
   (l2_out : list str) (l2_rc : bool) (combos : list (flags * list str * list str * list str * bool)) : bool :=
  let fmt := tbl_fmt tf in let sb := tbl_str ts in let lf := tbl_lang tl in
  let '(e1, s1) := run_files fmt sb lf (mkFlags LNl false false) flagl fs in
  let '(e2, s2) := run_files fmt sb lf (mkFlags LOff false true) flagl fs in
  let '(e3, _) := run_files fmt sb lf (mkFlags LOff true false) flagl fs in
  let fs' := map (after_write e3) fs in
  let '(e4, s4) := run_files fmt sb lf (mkFlags LNl false false) flagl fs' in
  same_set (listed_paths e1) l_out && Bool.eqb s1 l_rc &&
  same_set (diffed_paths e2) d_out && Bool.eqb s2 d_rc &&
  same_set (listed_paths e4) l2_out && Bool.eqb s4 l2_rc &&
  forallb (fun cb => match cb with (fl, li, di, wr, st) =>
     let '(e, s) := run_files fmt sb lf fl flagl fs in
     same_set (listed_paths e) li && same_set (diffed_paths e) di && same_set (written_paths e) wr && Bool.eqb s st end) combos.
"""


def b(x):
    return coq_bytes(bytes.fromhex(x) if isinstance(x, str) else x)


def tree_case(r):
    """Coq term (bool) for one harness row, or None when the row is outside the model's table"""
    flagl = LANGS.get(r.get("ln") or "")   # -ln, or shell_variant of the EditorConfig realisation
    if r.get("per_file_ln"):
        return None                         # the model has one forced language per invocation
    tf, ts, tl, fs = [], {}, {}, []
    keys = {}                               # per-file option sets: the formatter table must stay a function
    for f in r["files"]:
        rel = f["rel"].encode()
        src = bytes.fromhex(f["src"])
        hidden = any(p.startswith(".") for p in f["rel"].split("/"))
        if f["walked"]:
            chk = no_ext(f["rel"]) and r["via"] != "args"
        elif no_ext(f["rel"]) and not hidden and r["via"] != "args":
            chk = True          # found by the walk, dropped by the shebang test: exercises [skipped]
        else:
            continue
        lang = LANGS.get(f.get("lang") or "")
        ts[src[:32]] = shebang(src[:32])
        tl[rel] = lang_from_filename(f["rel"])
        if f["walked"]:
            val = "ERR" if f["err"] else f["exp"]
            if keys.setdefault((lang, src), val) != val:
                return None
            if f["err"]:
                tf.append("(%s, %s, Err 1)" % (lang, b(src)))
            else:
                exp = bytes.fromhex(f["exp"])
                if keys.setdefault((lang, exp), f["exp"]) != f["exp"]:
                    return None
                tf.append("(%s, %s, Ok %s)" % (lang, b(src), b(exp)))
                if not f["idem"] or not f["lang_stable"]:
                    return None
                tf.append("(%s, %s, Ok %s)" % (lang, b(exp), b(exp)))
                ts[exp[:32]] = shebang(exp[:32])
        fs.append("(mkFile %s %s %s true)" % (b(rel), b(src), "true" if chk else "false"))
    paths = lambda l: coq_list([b(p.encode()) for p in (l or [])])
    combos = []
    for cb in r.get("combos") or []:
        fl = cb["flags"]
        combos.append("(mkFlags %s %s %s, %s, %s, %s, %s)" % (
            "LNl" if "-l" in fl else "LOff", "true" if "-w" in fl else "false", "true" if "-d" in fl else "false",
            paths(cb["listed"]), paths(cb["diffed"]), paths(cb["written"]), "true" if cb["rc"] else "false"))
    return "tree_ok %s %s %s %s %s %s %s %s %s %s %s %s" % (
        coq_list(tf), coq_list(["(%s, %s)" % (b(k), b(v)) for k, v in ts.items()]),
        coq_list(["(%s, %s)" % (b(k), ("Some " + v) if v else "None") for k, v in tl.items()]),
        ("(Some %s)" % flagl) if flagl else "None", coq_list(fs),
        paths(r["l_out"]), "true" if r["l_rc"] else "false", paths(r["d_files"]), "true" if r["d_rc"] else "false",
        paths(r["l2_out"]), "true" if r["l2_rc"] else "false", coq_list(combos))


def patch_case(f):
    hs = []
    for start, lines in f["diff"]:
        body = ["(%s, %s)" % ({" ": "Ctx", "-": "Del", "+": "Add"}[t], b(h)) for t, h in lines]
        hs.append("(mkHunk %d%%nat %s)" % (start, coq_list(body)))
    return "match apply_bytes %s %s with Some r => str_eqb r %s | None => false end" % (b(f["src"]), coq_list(hs), b(f["exp"]))


def eval_bools(ctx, name, terms):
    text = PRELUDE + "Definition M := Eval vm_compute in %s.\nPrint M.\n" % coq_list(["(%s)" % t for t in terms])
    ok, out = ctx.coq_cases(name, text, timeout=900)
    m = re.search(r"M\s*=\s*\[(.*?)\]\s*:", out, re.S)
    if not ok or not m:
        ctx.broken.append(("correspondence:code-eval", "coqc on generated cases failed: " + out[-800:]))
        return None
    vals = re.findall(r"true|false", m.group(1))
    if len(vals) != len(terms):
        ctx.broken.append(("correspondence:code-eval", "read %d results for %d cases" % (len(vals), len(terms))))
        return None
    return [v == "true" for v in vals]


def run(ctx):
    ctx.coq_props()
    shfmt = ctx.go_build_repo("./cmd/shfmt", "shfmt")
    binp = ctx.go_build("c36")
    if not shfmt or not binp:
        return
    n = 6 if ctx.tier == "quick" else 250
    scratch = "/tmp/c36_%d_%d" % (os.getpid(), ctx.seed)
    rc, rows, err = ctx.jsonl([binp, "gen", "-seed", str(ctx.seed), "-n", str(n), shfmt, scratch], timeout=3000)
    corpus = os.path.join(os.path.dirname(os.path.dirname(os.path.abspath(__file__))), "corpus", "c36", "regress.json")
    rc2, prow, err2 = ctx.jsonl([binp, "pinned", "-in", corpus, shfmt, scratch + "p"], timeout=600)
    if rc != 0 or rc2 != 0 or not rows or not prow:
        ctx.broken.append(("harness-run", "c36 harness failed rc=%d/%d %s" % (rc, rc2, (err + err2)[-800:])))
        return
    ctx.rule = ("trees of 3..8 files: names f<N> with extension .sh .bash .mksh .zsh .bats none .txt .py .sh.bak in "
                "directories '' a a/b c a/b/d .hidden .git, contents = 1..4 snippets (already formatted / unformatted / "
                "unformatted + parse error), optional shebang (sh bash env-bash env-mksh dash zsh bats python invalid), "
                "sometimes no final newline; option set from -i {2,3,4,8} -bn -ci -sr -fn -kp -s -mn -ln {bash posix mksh "
                "bats zsh}, realised as flags, as an equivalent .editorconfig, (every third tree) as explicit file "
                "arguments, and as an .editorconfig with one section per file name (the set with knobs flipped per file: "
                "one invocation must format each file with its own options); plus pinned trees (per-knob leak trees: "
                "first walked file has the knob, the following sensitive ones have not, and conversely; (witnesses of known findings, empty file, CRLF, no newline, hidden and VCS "
                "directories). Shebangs never have leading blanks and fit in 32 bytes (known findings otherwise). "
                "non-trivial = distinct (tree, realisation) with at least one file whose formatted bytes differ")
    for r in rows + prow:
        nd = sum(1 for f in r["files"] if f.get("walked") and not f.get("err") and f.get("exp") != f.get("src"))
        ctx.count(1, [(r["tree"], r["via"], ctx.seed)] if nd else [])
        for cl in r.get("fails") or []:
            ctx.fail(cl, {"tree": r["tree"], "via": r["via"], "flags": r["flags"],
                          "files": [{"rel": f["rel"], "src": bytes.fromhex(f["src"]).decode("latin-1")} for f in r["files"]][:8]},
                     r.get("class") or None, r.get("detail"))
    for r in rows[:2]:
        ctx.sample({"tree": r["tree"], "via": r["via"], "flags": r["flags"], "files": [f["rel"] for f in r["files"]],
                    "l_out": r["l_out"], "l_rc": r["l_rc"], "d_files": r["d_files"], "l2_out": r["l2_out"]})
    # ---- code leg 1: Modes.v predicts listing / diff set / exit status / list after write
    cases, terms = [], []
    for r in rows + prow:
        t = tree_case(r)
        if t is not None:
            cases.append(r)
            terms.append(t)
    mism = []
    for sh in range(0, len(terms), 150):
        vals = eval_bools(ctx, "c36_modes_%d_%d" % (ctx.seed, sh), terms[sh:sh + 150])
        if vals is None:
            return
        for r, v in zip(cases[sh:sh + 150], vals):
            if not v:
                mism.append({"tree": r["tree"], "via": r["via"], "flags": r["flags"], "l_out": r["l_out"], "l_rc": r["l_rc"],
                             "d_files": r["d_files"], "d_rc": r["d_rc"], "l2_out": r["l2_out"], "l2_rc": r["l2_rc"]})
    ctx.leg("code:shfmt -l/-d/-w+-l output sets and exit status vs Shfmt/Modes.v run_files (vm_compute in kernel)", len(terms), mism)
    # ---- code leg 2: the Coq patch applier on shfmt's real hunks
    pf = [f for r in rows + prow for f in r["files"] if f.get("diff") and f.get("exp") is not None and not f.get("err")]
    seen, uniq = set(), []
    for f in pf:
        k = (f["src"], f["exp"])
        if k not in seen:
            seen.add(k)
            uniq.append(f)
    uniq = uniq[:200 if ctx.tier == "quick" else 1500]
    mism2 = []
    for sh in range(0, len(uniq), 300):
        vals = eval_bools(ctx, "c36_patch_%d_%d" % (ctx.seed, sh), [patch_case(f) for f in uniq[sh:sh + 300]])
        if vals is None:
            return
        for f, v in zip(uniq[sh:sh + 300], vals):
            if not v:
                mism2.append({"rel": f["rel"], "src": f["src"], "exp": f["exp"], "diff": f["diff"]})
    ctx.leg("code:Shfmt/Patch.v apply_bytes on the hunks printed by shfmt -d yields the formatted bytes (vm_compute in kernel)",
            len(uniq), mism2)
    ctx.assumptions += ["the formatter (parse, simplify, print) is abstract in Modes.v; its results enter the code leg as a table",
                        "C36_write_then_list_empty assumes idempotence of the formatter (property C02) and that the formatted "
                        "bytes are detected as the same language; both are checked per generated file by the harness",
                        "parse errors: the exit status is non-zero and the file is not listed (a file without formatted output "
                        "cannot differ from it)"]
    ctx.trusted += ["unified-diff text -> hunks parsing in harness/cmd/c36 (Go) ; the Go applier is cross-checked by Patch.v"]


META = {
    "category": "proof",
    "text": ("Coq theorems over a transliterated model of formatBytes/formatPath/formatStdin and main's status loop with an "
             "abstract formatter: -l lists exactly the differing files, exit status non-zero iff something is listed or "
             "fails to parse, -d diffs exactly those files, -l after -w lists nothing (given idempotence = C02 and stable "
             "language detection), stdin = file when the same language is detected; a unified-diff applier proved correct "
             "and complete w.r.t. a declarative meaning of hunks. Tied to the code by running the shfmt binary on generated "
             "trees x flags x EditorConfig and evaluating the model and the applier inside Coq on the observations; "
             "direct search over all modes against bytes formatted through the syntax package."),
    "note": ("Trusted: Coq kernel + vm_compute; Go harness (tree generator, diff text parser); the formatter is abstract. "
             "Known findings: c02_nonidempotent_input (C02), shebang_cut_at_32_bytes, language_redetected_after_format."),
    "design_ref": "DESIGN.md 4 C36",
}
