"""C35 shfmt -w replaces files atomically.

Proof:  coq/Props/C35.v over the file-system model coq/Shfmt/Fs.v: a boolean protocol checker
        (atomic_replace_ok / untouched_ok) is proved sound for EVERY initial state and EVERY crash point.
Code leg: the real shfmt binary (built from the current tree) runs under strace; its system-call trace is
        decoded into the model's operations and, INSIDE Coq (vm_compute), (a) the proved checker must accept
        it, (b) the model run on the trace must predict exactly the directory state observed afterwards,
        (c) every prefix of the trace must show the old or the new file.  The same for every killed run
        (trace prefix -> predicted crash state == observed crash state).
Search (fault enumeration): for every system call class S and every k the process is killed before its
        k-th call of S (strace -e inject=S:signal=SIGKILL:when=k); afterwards the target must hold exactly
        the original or exactly the formatted bytes with unchanged mode and kind; after completed runs no
        file other than the original ones may exist in the target directory or $TMPDIR.
Trusted: the kernel, strace's decoding and kill injection, the decoder below."""
import os
import random
import re
import shutil
import stat
import subprocess
import threading

from vcheck import coq_list

# every call that can change a directory entry, file contents or mode, plus the stat family and exit_group
# (read is left out: its hex dump of a big file dominates the run time and it cannot change anything)
TRACE_SET = ("trace=?open,openat,?openat2,write,pwrite64,writev,pwritev,pwritev2,ftruncate,fallocate,lseek,"
             "copy_file_range,sendfile,dup,?dup2,dup3,fcntl,fchmod,?chmod,fchmodat,?fchmodat2,fsync,fdatasync,close,"
             "?rename,renameat,renameat2,?unlink,unlinkat,?link,linkat,?symlink,symlinkat,?mkdir,mkdirat,?mknod,"
             "mknodat,?rmdir,truncate,newfstatat,fstat,?lstat,?stat,statx,exit_group,execve,getdents64")
BIG_CLASSES = ("write", "fsync", "fchmod", "renameat", "renameat2", "rename", "unlinkat", "exit_group")
MUT_CLASSES = ("openat", "open", "write", "fsync", "fdatasync", "fchmod", "fchmodat", "chmod", "close", "renameat",
               "renameat2", "rename", "unlinkat", "unlink", "newfstatat", "fstat", "ftruncate", "pwrite64", "writev",
               "exit_group")

# ------------------------------------------------------------------ generator
UNITS = [
    (b"if true;then\necho   %s\nfi\n", None),
    (b"%s(){\n  bar   baz\n}\n", None),
    (b"  echo %s  &&   echo b\n", None),
    (b"for i in 1 2 3;do echo $i %s;done\n", None),
    (b"case $x in\n%s) echo a;;\nesac\n", None),
]
MODES = [0o644, 0o600, 0o755, 0o444, 0o666, 0o640, 0o700, 0o664]


def gen_cases(seed, tier):
    """A fixed enumeration of file shapes; the seed picks identifiers, which unit each shape uses and which
    cases the quick tier visits with full fault enumeration."""
    rnd = random.Random(seed * 7919 + 35)
    word = lambda: ("w%x" % rnd.randrange(1 << 20)).encode()
    unit = lambda: UNITS[rnd.randrange(len(UNITS))][0] % word()
    cases = []

    def add(name, **kw):
        d = {"name": name, "kind": "regular", "reps": 1, "mode": 0o644, "unit": unit(), "path": "f.sh",
             "tmp": "own", "arg": "file", "links": [], "relarg": False}
        d.update(kw)
        cases.append(d)

    # sizes
    add("one", reps=1)
    add("blank_to_empty", unit=b"\n\n  \n", reps=1)             # formatted output is empty: zero-length new file
    add("mid", reps=40 + rnd.randrange(40), mode=0o600)
    add("big64k", reps=2600 + rnd.randrange(800), mode=0o755)   # > 64 KiB
    # modes
    for i, m in enumerate(MODES):
        add("mode%o" % m, mode=m, reps=1 + rnd.randrange(5), tmp=("own", "missing")[i % 2])
    # temp directory variants: $TMPDIR missing -> temp file next to the target; other filesystem -> same
    add("tmp_missing", tmp="missing", reps=3)
    add("tmp_otherfs", tmp="otherfs", reps=3, mode=0o755)
    add("subdir", path="sub/dir/g.bash", reps=2, mode=0o640)
    add("walk_dir", arg="dir", path="sub/h.sh", reps=2, mode=0o755)
    add("noext_shebang", arg="dir", path="sub/script", unit=b"#!/bin/sh\n" + unit(), reps=1, mode=0o755)
    # targets with a second hard link (another name for the same inode), reached through relative paths, tiny, big
    add("hardlink", links=["other/alias_link"], reps=2, mode=0o644)
    add("hardlink_rel_nested", links=["z/alias2"], path="sub/deep/er/k.sh", relarg=True, reps=1, mode=0o755, tmp="missing")
    add("hardlink_tiny", unit=b" x\n", links=["alias3", "other/alias4"], mode=0o600)
    add("hardlink_big", links=["other/alias_big"], reps=2600 + rnd.randrange(800), mode=0o640)
    add("relative_arg", relarg=True, path="sub/r.sh", reps=2)
    add("relative_dir_arg", relarg=True, arg="dir", path="sub/s.sh", reps=1, tmp="missing")
    # base names near NAME_MAX (255): the temp file "." + name + random digits cannot be created, neither in $TMPDIR
    # nor next to the target; shfmt must then refuse (exit 1) and leave the file untouched -- or, at the border
    # (240), succeed atomically when the random suffix happens to be short enough
    for ln_, tmp_ in ((240, "own"), (250, "own"), (255, "missing"), (247, "missing")):
        add("longname_%d" % ln_, path="sub/" + "n" * (ln_ - 3) + ".sh", reps=2, mode=(0o644, 0o755)[ln_ % 2],
            tmp=tmp_, may_refuse=True)
    # targets that must not be replaced
    add("formatted", kind="formatted", unit=b"echo %s\n" % word(), reps=3)
    add("empty", kind="formatted", unit=b"", reps=0)
    add("parse_error", kind="error", unit=b"if true; then\necho (\n", reps=1)
    add("symlink", kind="symlink", reps=2, mode=0o644)
    add("symlink_missing_tmp", kind="symlink", reps=1, mode=0o600, tmp="missing")
    add("fifo", kind="fifo")
    add("fifo_in_dir", kind="fifo", arg="dir", path="sub/p.sh")
    add("symlink_in_dir", kind="symlink", arg="dir", path="sub/l.sh", reps=2)
    if tier == "thorough":
        add("big1m", reps=40000, mode=0o644)
        add("big_missing_tmp", reps=3000, mode=0o600, tmp="missing")
    # the pinned regression targets (corpus/c35/regress.json): every seed, every tier
    if True:
        import json
        reg = json.load(open(os.path.join(os.path.dirname(os.path.dirname(os.path.abspath(__file__))), "corpus", "c35", "regress.json")))
        for r in reg["cases"]:
            kw = dict(r)
            name = kw.pop("name")
            if "mode" in kw:
                kw["mode"] = int(kw["mode"], 8)
            if "unit" in kw:
                kw["unit"] = kw["unit"].encode()
            if "feed" in kw:
                kw["feed"] = kw["feed"].encode()
            if "namelen" in kw:
                kw["path"] = "sub/" + "r" * (kw.pop("namelen") - 3) + ".sh"
            add(name, pinned=True, **kw)
    for c in cases:
        c["orig"] = c["unit"] * c["reps"]
    return cases


# ------------------------------------------------------------------ scratch set-up
class Env:
    def __init__(self, root, case, other_fs):
        self.root = root
        self.case = case
        self.d = os.path.join(root, "d")
        self.target = os.path.join(self.d, case["path"])
        self.pointee = None
        if case["tmp"] == "own":
            self.tmp = os.path.join(root, "t")
        elif case["tmp"] == "missing":
            self.tmp = os.path.join(root, "nonexistent")
        else:
            self.tmp = other_fs or os.path.join(root, "nonexistent")
        self.arg = self.target if case["arg"] == "file" else self.d
        if case.get("relarg"):
            self.arg = os.path.relpath(self.arg, root)     # shfmt runs with cwd = root
        self.before_ino = {}

    def setup(self):
        shutil.rmtree(self.root, ignore_errors=True)
        os.makedirs(os.path.dirname(self.target))
        if self.case["tmp"] == "own":
            os.makedirs(self.tmp)
        elif self.case["tmp"] == "otherfs" and self.tmp.startswith("/dev/shm"):
            shutil.rmtree(self.tmp, ignore_errors=True)
            os.makedirs(self.tmp)
        c = self.case
        if c["kind"] == "fifo":
            os.mkfifo(self.target, 0o644)
        elif c["kind"] == "symlink":
            self.pointee = os.path.join(self.d, "real_target")     # no extension, no shebang: not walked itself
            with open(self.pointee, "wb") as f:
                f.write(c["orig"])
            os.chmod(self.pointee, c["mode"])
            os.symlink(self.pointee, self.target)
        else:
            with open(self.target, "wb") as f:
                f.write(c["orig"])
            os.chmod(self.target, c["mode"])
            for ln in c.get("links") or []:
                lp = os.path.join(self.d, ln)
                os.makedirs(os.path.dirname(lp), exist_ok=True)
                os.link(self.target, lp)

    def cleanup(self):
        shutil.rmtree(self.root, ignore_errors=True)
        if self.case["tmp"] == "otherfs" and self.tmp.startswith("/dev/shm"):
            shutil.rmtree(self.tmp, ignore_errors=True)

    def snapshot(self, extra_names=()):
        """name -> None | (kind, mode, bytes) for every file under d/ and $TMPDIR plus extra names"""
        names = set(extra_names)
        for base in (self.d, self.tmp):
            if os.path.isdir(base):
                for dp, dn, fn in os.walk(base):
                    for f in fn:
                        names.add(os.path.join(dp, f))
        out = {}
        for n in names:
            out[n] = lstat_obj(n)
        return out


def lstat_obj(n):
    try:
        st = os.lstat(n)
    except OSError:
        return None
    m = stat.S_IMODE(st.st_mode)
    if stat.S_ISLNK(st.st_mode):
        return ("symlink", None, os.readlink(n).encode())
    if stat.S_ISFIFO(st.st_mode):
        return ("fifo", m, b"")
    if stat.S_ISREG(st.st_mode):
        with open(n, "rb") as f:
            return ("regular", m, f.read())
    return ("other", m, b"")


# ------------------------------------------------------------------ strace decoding
def split_args(s):
    out, cur, depth, i, inq = [], [], 0, 0, False
    while i < len(s):
        ch = s[i]
        if inq:
            cur.append(ch)
            if ch == "\\":
                cur.append(s[i + 1])
                i += 1
            elif ch == '"':
                inq = False
        elif ch == '"':
            inq = True
            cur.append(ch)
        elif ch in "{[(":
            depth += 1
            cur.append(ch)
        elif ch in "}])":
            depth -= 1
            cur.append(ch)
        elif ch == "," and depth == 0:
            out.append("".join(cur).strip())
            cur = []
        else:
            cur.append(ch)
        i += 1
    if cur:
        out.append("".join(cur).strip())
    return out


def unq(a):
    """strace -xx string literal -> bytes (None if it is not a complete literal)"""
    m = re.fullmatch(r'"((?:\\x[0-9a-f]{2})*)"(\.\.\.)?', a)
    if not m or m.group(2):
        return None
    return bytes.fromhex(m.group(1).replace("\\x", ""))


LINE = re.compile(r"^(\d+)\s+(.*)$")
CALL = re.compile(r"^([a-z0-9_]+)\((.*)\)\s+=\s+(-?\d+|\?|0x[0-9a-f]+)(.*)$", re.S)


def parse_trace(text, root, umask=0o022, roots=None):
    """-> (ops, counts, problems). ops: list of tuples in the model's vocabulary, only for paths under root
    and descriptors opened on them. counts: per syscall name, number of calls seen (all threads) and the
    number of them that happened before the first reference to a path under root."""
    pending = {}
    ops, problems = [], []
    tracked = set()
    counts, before = {}, {}
    seen_root = False
    rootb = root.encode()
    rootsb = [rootb] + [r.encode() for r in (roots or [])]
    calls = []
    for line in text.splitlines():
        m = LINE.match(line)
        if not m:
            continue
        pid, rest = m.group(1), m.group(2)
        if rest.startswith("+++") or rest.startswith("---"):
            continue
        if rest.endswith("<unfinished ...>"):
            pending[pid] = rest[:-len("<unfinished ...>")]
            name = rest.split("(", 1)[0]
            calls.append(("enter", name, pid))
            continue
        r = re.match(r"^<\.\.\. ([a-z0-9_]+) resumed>(.*)$", rest, re.S)
        resumed = False
        if r:
            rest = pending.pop(pid, r.group(1) + "(") + r.group(2)
            resumed = True
        c = CALL.match(rest)
        if not c:
            continue
        name, args, ret = c.group(1), split_args(c.group(2)), c.group(3)
        calls.append(("done", name, pid, args, ret, resumed))
    for ent in calls:
        if ent[0] == "enter":
            name = ent[1]
            counts[name] = counts.get(name, 0) + 1
            if not seen_root:
                before[name] = before.get(name, 0) + 1
            continue
        _, name, pid, args, ret, resumed = ent
        if not resumed:
            counts[name] = counts.get(name, 0) + 1
        paths = [unq(a) for a in args]
        under = [p for p in paths if p is not None and any(p == r or p.startswith(r + b"/") for r in rootsb)]
        if under and name != "execve":
            if not seen_root and not resumed:
                pass
            seen_root = True
        if not seen_root and not resumed:
            before[name] = before.get(name, 0) + 1
        if ret == "?" or ret.startswith("-"):
            continue
        reti = int(ret, 0)

        def abspath(dirfd, p):
            if p is None:
                return None
            if p.startswith(b"/"):
                return p
            if dirfd == "AT_FDCWD":
                return os.path.join(rootb, p)
            return None

        def relevant(p):
            return p is not None and any(p.startswith(r + b"/") for r in rootsb)

        if name in ("openat", "open"):
            if name == "openat":
                p, flags, mode = abspath(args[0], unq(args[1])), args[2], (args[3] if len(args) > 3 else "0")
                if unq(args[1]) is not None and p is None:
                    problems.append("openat relative to a directory descriptor: " + " ".join(args)[:200])
                    ops.append(("Unmodelled",))
                    continue
            else:
                p, flags, mode = abspath("AT_FDCWD", unq(args[0])), args[1], (args[2] if len(args) > 2 else "0")
            fl = set(flags.split("|"))
            if not relevant(p):
                tracked.discard(reti)
                continue
            if "O_DIRECTORY" in fl or "O_PATH" in fl or os.path.isdir(p):
                continue
            tracked.add(reti)
            if "O_CREAT" in fl and "O_EXCL" in fl:
                ops.append(("OpenCreatExcl", p, int(mode, 8) & ~umask, reti))
            elif "O_TRUNC" in fl:
                ops.append(("OpenTrunc", p, int(mode, 8) & ~umask, reti))
            elif "O_WRONLY" in fl or "O_RDWR" in fl:
                if "O_CREAT" in fl:
                    ops.append(("Unmodelled",))
                    problems.append("open(O_CREAT) without O_EXCL/O_TRUNC: " + flags)
                else:
                    ops.append(("OpenWrite", p, "O_APPEND" in fl, reti))
            else:
                ops.append(("OpenRead", p, reti))
        elif name == "write":
            fd = int(args[0])
            if fd in tracked:
                data = unq(args[1])
                if data is None:
                    problems.append("write data truncated by strace")
                    ops.append(("Unmodelled",))
                else:
                    ops.append(("Write", fd, data[:reti]))
        elif name in ("pwrite64", "writev", "pwritev", "pwritev2", "ftruncate", "fallocate", "lseek",
                      "copy_file_range", "sendfile", "dup", "dup2", "dup3"):
            fd = int(args[0]) if args and re.fullmatch(r"\d+", args[0]) else -1
            if fd in tracked:
                ops.append(("Unmodelled",))
                problems.append("unmodelled call on a tracked descriptor: %s" % name)
        elif name == "fcntl":
            fd = int(args[0])
            if fd in tracked and args[1].startswith("F_DUPFD"):
                ops.append(("Unmodelled",))
                problems.append("fcntl(F_DUPFD) on a tracked descriptor")
        elif name == "fchmod":
            fd = int(args[0])
            if fd in tracked:
                ops.append(("Fchmod", fd, int(args[1], 8)))
        elif name in ("chmod", "fchmodat", "fchmodat2"):
            if name == "chmod":
                p, mode = abspath("AT_FDCWD", unq(args[0])), args[1]
            else:
                p, mode = abspath(args[0], unq(args[1])), args[2]
            if relevant(p):
                ops.append(("Chmod", p, int(mode, 8)))
        elif name in ("fsync", "fdatasync"):
            fd = int(args[0])
            if fd in tracked:
                ops.append(("Fsync", fd))
        elif name == "close":
            fd = int(args[0])
            if fd in tracked:
                tracked.discard(fd)
                ops.append(("Close", fd))
        elif name in ("rename", "renameat", "renameat2"):
            if name == "rename":
                a, b = abspath("AT_FDCWD", unq(args[0])), abspath("AT_FDCWD", unq(args[1]))
                fl = "0"
            else:
                a, b = abspath(args[0], unq(args[1])), abspath(args[2], unq(args[3]))
                fl = args[4] if len(args) > 4 else "0"
            if relevant(a) or relevant(b):
                if fl not in ("0", "") or a is None or b is None:
                    ops.append(("Unmodelled",))
                    problems.append("rename with flags/dirfd: " + " ".join(args)[:200])
                else:
                    ops.append(("Rename", a, b))
        elif name in ("unlink", "unlinkat"):
            if name == "unlink":
                p, fl = abspath("AT_FDCWD", unq(args[0])), "0"
            else:
                p, fl = abspath(args[0], unq(args[1])), (args[2] if len(args) > 2 else "0")
            if relevant(p):
                if fl != "0":
                    ops.append(("Unmodelled",))
                    problems.append("unlinkat with flags " + fl)
                else:
                    ops.append(("Unlink", p))
        elif name in ("link", "linkat", "symlink", "symlinkat", "mkdir", "mkdirat", "mknod", "mknodat", "rmdir",
                      "truncate"):
            if under:
                ops.append(("Unmodelled",))
                problems.append("unmodelled call on a path of interest: %s" % name)
    return ops, counts, before, problems


def op_shape(o):
    """an op without the random temp-file suffixes and descriptor numbers (to compare runs)"""
    def nm(p):
        return re.sub(rb"\d{6,}$", b"#", p)
    if o[0] in ("OpenCreatExcl", "OpenTrunc"):
        return (o[0], nm(o[1]), o[2])
    if o[0] in ("OpenRead", "Unlink"):
        return (o[0], nm(o[1]))
    if o[0] == "OpenWrite":
        return (o[0], nm(o[1]), o[2])
    if o[0] == "Write":
        return (o[0], len(o[2]))
    if o[0] in ("Fchmod",):
        return (o[0], o[2])
    if o[0] == "Chmod":
        return (o[0], nm(o[1]), o[2])
    if o[0] == "Rename":
        return (o[0], nm(o[1]), nm(o[2]))
    return (o[0],)


# ------------------------------------------------------------------ Coq encoding
class Enc:
    """byte strings -> Coq terms; big strings are expressed through named definitions (rep n unit)"""

    def __init__(self):
        self.defs = []
        self.known = []   # (bytes, term)

    def lit(self, b):
        if len(b) <= 1500:
            return "[" + ";".join(str(x) for x in b) + "]"
        parts = [self.lit(b[i:i + 1500]) for i in range(0, len(b), 1500)]
        return "(" + " ++ ".join(parts) + ")"

    def define(self, name, b, unit=None, reps=None):
        if unit and reps is not None and unit * reps == b and len(b) > 200:
            term = "(rep %d%%nat %s)" % (reps, self.lit(unit))
        else:
            term = self.lit(b)
        self.defs.append("Definition %s : str := %s." % (name, term))
        if len(b) > 16:
            self.known.append((b, name))
        return name

    def data(self, b):
        for kb, nm in self.known:
            if b == kb:
                return nm
        for kb, nm in self.known:       # prefix of a known big string (partial write)
            if len(b) > 1500 and kb.startswith(b):
                return "(firstn %d%%nat %s)" % (len(b), nm)
        return self.lit(b)


def coq_op(enc, o):
    k = o[0]
    if k == "OpenCreatExcl":
        return "OpenCreatExcl %s %d %d" % (enc.data(o[1]), o[2], o[3])
    if k == "OpenTrunc":
        return "OpenTrunc %s %d %d" % (enc.data(o[1]), o[2], o[3])
    if k == "OpenRead":
        return "OpenRead %s %d" % (enc.data(o[1]), o[2])
    if k == "OpenWrite":
        return "OpenWrite %s %s %d" % (enc.data(o[1]), "true" if o[2] else "false", o[3])
    if k == "Write":
        return "Write %d %s" % (o[1], enc.data(o[2]))
    if k == "Fchmod":
        return "Fchmod %d %d" % (o[1], o[2])
    if k == "Chmod":
        return "Chmod %s %d" % (enc.data(o[1]), o[2])
    if k == "Fsync":
        return "Fsync %d" % o[1]
    if k == "Close":
        return "Close %d" % o[1]
    if k == "Rename":
        return "Rename %s %s" % (enc.data(o[1]), enc.data(o[2]))
    if k == "Unlink":
        return "Unlink %s" % enc.data(o[1])
    return "Unmodelled"


KIND = {"regular": "Regular", "symlink": "Symlink", "fifo": "Fifo"}


def coq_inode(enc, obj):
    kind, mode, b = obj
    return "(mkInode %s %d %s)" % (enc.data(b), mode if mode is not None else 511, KIND.get(kind, "Fifo"))


PRELUDE = """From Verif Require Import Base.Str Shfmt.Fs.
Open Scope N_scope.
Definition obs_ok (s : fs) (obs : list (str * option inode)) : bool :=
  forallb (fun p => match look s (fst p), snd p with
                    | Some a, Some b => inode_eqb a b
                    | None, None => true
                    | _, _ => false end) obs.
Definition pred_ok (t : list op) (s0 : fs) (obs : list (str * option inode)) : bool :=
  match run t s0 with Some s => obs_ok s obs | None => false end.
Definition untouched_prefix_ok (target : str) (t : list op) : bool := is_some (crun false target 0 [] cst0 t).
(* a second directory entry for the inode of an existing name (hard link) *)
Definition add_link (s : fs) (name old : str) : fs := mkFs (upd_s (dir s) name (dir s old)) (ino s) (fds s) (next s).
"""


# ------------------------------------------------------------------ the check
def run(ctx):
    ctx.coq_props()
    shfmt = ctx.go_build_repo("./cmd/shfmt", "shfmt")
    if not shfmt:
        return
    thorough = ctx.tier == "thorough"
    base = "/tmp/c35_%d_%d" % (os.getpid(), ctx.seed)
    other_fs = None
    try:
        if os.path.isdir("/dev/shm") and os.stat("/dev/shm").st_dev != os.stat("/tmp").st_dev:
            other_fs = "/dev/shm/c35_%d_%d" % (os.getpid(), ctx.seed)
    except OSError:
        pass
    cases = gen_cases(ctx.seed, ctx.tier)
    ctx.rule = ("fixed enumeration of target shapes: regular files of 1 unit, ~60 units, >64 KiB (thorough: 1 MiB), "
                "whitespace-only (formatted output empty), modes 0644 0600 0755 0444 0666 0640 0700 0664, file in "
                "sub-directories, directory walk, base names of 240/247/250/255 bytes (temp file creation fails: refusal expected), "
                "relative path arguments, targets with one or two further hard links (small, tiny, "
                ">64 KiB, nested + relative), $TMPDIR usable / missing / on another file system, already "
                "formatted, empty, parse error, symlink, FIFO (explicit and inside a walked directory); the seed "
                "picks identifiers/units/sizes and which cases get full fault enumeration in the quick tier; "
                "non-trivial = distinct (case, killed system call class, k) with a kill at/after the first access "
                "to the target")
    # the formatted bytes: shfmt in stdin mode (no -w), same binary, independent of the write path
    for c in cases:
        c["new"] = None
        if c["kind"] in ("regular", "formatted", "symlink"):
            p = subprocess.run([shfmt], input=c["orig"], stdout=subprocess.PIPE, stderr=subprocess.PIPE,
                               env={"PATH": "/usr/bin:/bin", "HOME": "/nonexistent"}, cwd="/")
            if p.returncode != 0:
                ctx.broken.append(("harness-run", "shfmt on stdin failed for case %s: %s" % (c["name"], p.stderr[-300:])))
                return
            c["new"] = p.stdout
            c["newunit"] = None
            if c["reps"] > 1:
                p1 = subprocess.run([shfmt], input=c["unit"], stdout=subprocess.PIPE, env={"PATH": "/usr/bin:/bin"}, cwd="/")
                if p1.stdout * c["reps"] == c["new"]:
                    c["newunit"] = p1.stdout
            if c["kind"] in ("regular", "formatted"):
                c["kind"] = "formatted" if c["new"] == c["orig"] else "regular"
    quick_full = set()
    order = list(range(len(cases)))
    random.Random(ctx.seed).shuffle(order)
    # quick tier: full fault enumeration on a rotating third of the cases, always including a big one
    reg = [i for i in order if cases[i]["kind"] == "regular"]
    non = [i for i in order if cases[i]["kind"] != "regular"]
    quick_key = set()    # only the boundaries around the mutating calls of the write protocol
    for i in reg[:1] + non[:2]:
        quick_full.add(cases[i]["name"])
    for i in reg[1:3]:
        quick_key.add(cases[i]["name"])
    quick_key.update(c_["name"] for c_ in cases if c_.get("pinned"))
    quick_key.update([("hardlink", "hardlink_rel_nested", "hardlink_tiny")[ctx.seed % 3],
                      ("longname_240", "longname_255", "longname_247", "longname_250")[ctx.seed % 4]])
    quick_key.add("big64k" if ctx.seed % 2 == 0 else "hardlink_big")
    blocks = []         # per case: (definitions, [C<k> definitions])
    labels = []
    nkill = 0
    boundaries = {}
    for ci, c in enumerate(cases):
        env = Env(os.path.join(base, "c%d" % ci), c, other_fs)
        expect_replace = c["kind"] == "regular"
        enc = Enc()
        cdefs = []
        blocks.append((enc.defs, cdefs))
        T = "T%d" % ci
        enc.define(T, env.target.encode())
        orig_name = enc.define("ORIG%d" % ci, c["orig"], c["unit"], c["reps"]) if c["kind"] != "fifo" else None
        new_name = None
        if c["new"] is not None:
            new_name = enc.define("NEW%d" % ci, c["new"], c.get("newunit"), c["reps"])

        def one_run(inject=None):
            env.setup()
            before = env.snapshot()
            env.before_ino = {n: os.lstat(n).st_ino for n in before if before[n] is not None}
            out = os.path.join(env.root, "strace.out")
            argv = ["strace", "-f", "-qq", "-xx", "-s", "8000000", "-o", out, "-e", TRACE_SET]
            if inject:
                argv += ["-e", "inject=%s:signal=SIGKILL:when=%d" % inject]
            argv += [shfmt, "-w", env.arg]
            feeder = None
            if c.get("feed") and c["kind"] == "fifo":
                # a concurrent writer: blocks until somebody opens the FIFO for reading, then feeds it shell source
                # and closes (the clean shfmt never opens a FIFO; the writer is released after the run)
                def feed_fifo(path=env.target, data=c["feed"]):
                    try:
                        fd = os.open(path, os.O_WRONLY)
                    except OSError:
                        return
                    try:
                        os.write(fd, data)
                    except OSError:
                        pass
                    os.close(fd)
                feeder = threading.Thread(target=feed_fifo, daemon=True)
                feeder.start()
            try:
                p = subprocess.run(argv, stdout=subprocess.PIPE, stderr=subprocess.PIPE, cwd=env.root, timeout=60,
                                   env={"PATH": "/usr/bin:/bin", "TMPDIR": env.tmp, "HOME": "/nonexistent"},
                                   umask=0o022)
                rc, err = p.returncode, p.stderr.decode("utf-8", "replace")
            except subprocess.TimeoutExpired:
                rc, err = 124, "timeout"
            if feeder is not None:
                try:            # release a writer that is still waiting for a reader
                    if stat.S_ISFIFO(os.lstat(env.target).st_mode):
                        rfd = os.open(env.target, os.O_RDONLY | os.O_NONBLOCK)
                        feeder.join(2)
                        try:
                            os.read(rfd, 1 << 16)
                        except OSError:
                            pass
                        os.close(rfd)
                except OSError:
                    pass
                feeder.join(2)
            try:
                text = open(out, encoding="latin-1").read()
                os.remove(out)
            except OSError:
                text = ""
            ops, counts, bef, problems = parse_trace(text, env.root, roots=[env.tmp])
            names = set(before)
            for o in ops:
                for a in o[1:]:
                    if isinstance(a, bytes) and (a.startswith(env.root.encode() + b"/") or a.startswith(env.tmp.encode() + b"/")) and o[0] != "Write":
                        names.add(a.decode())
            after = env.snapshot(names)
            return rc, err, ops, counts, bef, problems, before, after

        def direct_checks(label, rc, before, after, completed):
            """the property itself, on the real directory"""
            t = after.get(env.target)
            o = before.get(env.target)
            inp = {"case": c["name"], "run": label, "mode": "%o" % c["mode"], "size": len(c["orig"]), "tmp": c["tmp"]}
            if c["kind"] in ("symlink", "fifo"):
                if t != o:
                    ctx.fail("nonregular_never_replaced", inp, None, {"before": repr(o)[:200], "after": repr(t)[:200]})
                if env.pointee and after.get(env.pointee) != before.get(env.pointee):
                    ctx.fail("symlink_pointee_unchanged", inp, None,
                             {"before": repr(before.get(env.pointee))[:200], "after": repr(after.get(env.pointee))[:200]})
            elif t is None or t[0] != "regular":
                ctx.fail("target_old_or_new", inp, None, {"after": repr(t)[:200]})
            else:
                okbytes = (t[2] == c["orig"]) or (expect_replace and t[2] == c["new"])
                if not okbytes:
                    ctx.fail("target_old_or_new", inp, None,
                             {"after_len": len(t[2]), "orig_len": len(c["orig"]), "new_len": len(c["new"] or b""),
                              "after_head": t[2][:80].hex()})
                if t[1] != c["mode"]:
                    ctx.fail("mode_unchanged", inp, None, {"after_mode": "%o" % t[1]})
                if completed and expect_replace and t[2] != c["new"]:
                    if not (c.get("may_refuse") and rc == 1 and t[2] == c["orig"]):      # refused and untouched
                        ctx.fail("completed_run_formats", inp, None, {"rc": rc})
                if completed and expect_replace and t[2] == c["new"] and rc != 0:
                    ctx.fail("exit_status", inp, None, {"rc": rc, "want": 0})
            if completed:
                left = sorted(n for n in after if after[n] is not None and n not in before)
                if left:
                    ctx.fail("no_temp_left_after_completed_run", inp, None, {"left": left[:5]})

        def coq_case(label, ops, before, after, full):
            s0 = "empty_fs"
            first = {}          # inode number -> first name: further names of the same inode are hard links
            for n in sorted(before):
                if before[n] is not None and before[n][0] in KIND:
                    i = env.before_ino.get(n)
                    if i in first:
                        s0 = "(add_link %s %s %s)" % (s0, enc.data(n.encode()), enc.data(first[i].encode()))
                    else:
                        first[i] = n
                        s0 = "(add_file %s %s %s)" % (s0, enc.data(n.encode()), coq_inode(enc, before[n]))
            tr = coq_list([coq_op(enc, o) for o in ops])
            obs = coq_list(["(%s, %s)" % (enc.data(n.encode()),
                                         ("Some " + coq_inode(enc, after[n])) if after[n] is not None and after[n][0] in KIND else "None")
                            for n in sorted(after)])
            if expect_replace:
                chk = ("atomic_replace_ok %s %d %s" if full else "atomic_prefix_ok %s %d %s") % (T, c["mode"], new_name)
                oldi = "(mkInode %s %d Regular)" % (orig_name, c["mode"])
                newi = "(mkInode %s %d Regular)" % (new_name, c["mode"])
            else:
                chk = ("untouched_ok %s" if full else "untouched_prefix_ok %s") % T
                oldi = coq_inode(enc, before[env.target])
                newi = oldi
            extra = ""
            if env.pointee:
                extra = " && %s %s TR" % ("untouched_ok" if full else "untouched_prefix_ok", enc.data(env.pointee.encode()))
            labels.append((c["name"], label, len(ops)))
            k = len(labels) - 1
            cdefs.append("Definition C%d := let TR := %s in let S0 := %s in (%s TR%s, pred_ok TR S0 %s, all_prefixes_ok TR S0 %s %s %s)."
                            % (k, tr, s0, chk, extra, obs, T, oldi, newi))

        # ---- the complete run
        rc, err, ops, counts, bef, problems, before, after = one_run()
        if problems:
            ctx.broken.append(("correspondence:strace-decode", "case %s: %s" % (c["name"], "; ".join(problems[:3]))))
        want_rc = 0 if c["kind"] in ("regular", "formatted", "fifo") else 1
        if c["kind"] == "symlink" and c["arg"] == "dir":
            want_rc = 0
        if c.get("may_refuse") and c["kind"] == "regular":
            t_ = after.get(env.target)
            want_rc = 0 if (t_ and t_[2] == c["new"]) else 1
        if rc != want_rc:
            ctx.fail("exit_status", {"case": c["name"], "rc": rc, "want": want_rc}, None, {"stderr": err[-300:]})
        direct_checks("complete", rc, before, after, True)
        coq_case("complete", ops, before, after, True)
        full_shapes = [op_shape(o) for o in ops]
        ctx.count(1, [(c["name"], "complete")])
        if ci < 2:
            ctx.sample({"case": c["name"], "ops": [repr(s)[:120] for s in full_shapes]})
        # ---- fault enumeration
        if not (thorough or c["name"] in quick_full or c["name"] in quick_key):
            env.cleanup()
            continue
        hit = set()
        for S in sorted(counts):
            if S not in MUT_CLASSES and not thorough:
                continue
            if c["name"] in quick_key and not thorough and S not in BIG_CLASSES:
                continue
            if S in ("execve", "mmap", "munmap"):
                continue
            lo = bef.get(S, 0)
            for k in range(max(1, lo), counts[S] + 1):
                for attempt in range(6):
                    # strace counts per thread: when the Go runtime moved the goroutine to another thread the
                    # kill does not fire; retry (the run then simply completed and is checked as such)
                    rc2, err2, ops2, counts2, bef2, problems2, before2, after2 = one_run((S, k))
                    nkill += 1
                    killed = rc2 in (137, -9)
                    if killed:
                        break
                    ctx.extra["kills_not_fired"] = ctx.extra.get("kills_not_fired", 0) + 1
                lab = "kill %s#%d%s" % (S, k, "" if killed else " (completed)")
                direct_checks(lab, rc2, before2, after2, not killed)
                if problems2:
                    ctx.broken.append(("correspondence:strace-decode", "case %s %s: %s" % (c["name"], lab, "; ".join(problems2[:3]))))
                shapes2 = [op_shape(o) for o in ops2]
                if killed:
                    if shapes2 != full_shapes[:len(shapes2)]:
                        ctx.extra.setdefault("prefix_shape_differs", []).append([c["name"], lab])
                    hit.add(len(shapes2))
                    ctx.count(1, [(c["name"], S, k)])
                else:
                    ctx.count(1)
                coq_case(lab, ops2, before2, after2, not killed)
        boundaries[c["name"]] = {"ops": len(full_shapes), "distinct_op_prefix_lengths_killed_at": len(hit),
                                 "missing": sorted(set(range(len(full_shapes) + 1)) - hit)[:10]}
        env.cleanup()
    shutil.rmtree(base, ignore_errors=True)
    ctx.extra["kill_runs"] = nkill
    ctx.extra["op_boundaries"] = boundaries
    _coq_leg(ctx, blocks, labels)
    ctx.assumptions += ["a kill at a system-call boundary leaves exactly the effects of the completed calls (kernel)",
                        "rename(2) replaces the directory entry atomically (POSIX)",
                        "strace decodes the calls faithfully and injects SIGKILL before the chosen call executes",
                        "power failure (durability, fsync ordering) is outside the property and the model"]
    ctx.trusted += ["Linux kernel, strace 6.1 decoding and signal injection, the decoder in checks/c35.py"]


def _coq_leg(ctx, blocks, labels):
    """evaluate every recorded run inside Coq: (checker accepts, model predicts the observed directory,
    every prefix shows old or new)"""
    shards, cur, n = [], [], 0
    for defs, cdefs in blocks:
        if not cdefs:
            continue
        if n and n + len(cdefs) > 400:
            shards.append(cur)
            cur, n = [], 0
        cur.append((defs, cdefs))
        n += len(cdefs)
    if cur:
        shards.append(cur)
    results = {}
    for si, sh in enumerate(shards):
        ks = []
        body = [PRELUDE]
        for defs, cdefs in sh:
            body += defs
            body += cdefs
            ks += [int(re.match(r"Definition C(\d+) ", d).group(1)) for d in cdefs]
        body.append("Definition M := Eval vm_compute in %s." % coq_list(["C%d" % k for k in ks]))
        body.append("Print M.")
        ok, out = ctx.coq_cases("c35_%d_%d" % (ctx.seed, si), "\n".join(body) + "\n", timeout=1500)
        m = re.search(r"M\s*=\s*\[(.*?)\]\s*:", out, re.S)
        if not ok or not m:
            ctx.broken.append(("correspondence:code-eval", "coqc on the recorded traces failed: " + out[-800:]))
            return
        trip = re.findall(r"\(\s*(true|false)\s*,\s*(true|false)\s*,\s*(true|false)\s*\)", m.group(1))
        if len(trip) != len(ks):
            ctx.broken.append(("correspondence:code-eval", "could not read %d results (got %d)" % (len(ks), len(trip))))
            return
        for k, t in zip(ks, trip):
            results[k] = t
    mism_chk, mism_pred, mism_pref = [], [], []
    for k, t in sorted(results.items()):
        d = {"case": labels[k][0], "run": labels[k][1], "ops": labels[k][2]}
        if t[0] != "true":
            mism_chk.append(d)
        if t[1] != "true":
            mism_pred.append(d)
        if t[2] != "true":
            mism_pref.append(d)
    n = len(results)
    ctx.leg("code:proved protocol checker accepts the decoded strace trace of shfmt -w (vm_compute in kernel)", n, mism_chk)
    ctx.leg("code:Fs.v model run on the trace predicts the observed directory state, complete and killed runs", n, mism_pred)
    ctx.leg("code:every prefix of the decoded trace shows the old or the new file in the model", n, mism_pref)


META = {
    "category": "proof",
    "text": ("Coq theorem over a small file-system model (directory entries, inodes, descriptors; openat O_CREAT|O_EXCL, "
             "write, fchmod, fsync, close, renameat, unlinkat, open O_TRUNC): a boolean protocol checker is sound for every "
             "initial state and every crash point (prefix of the trace): the target holds exactly the old or exactly the new "
             "bytes with the old permission bits, and after the full trace no file created by the run is left; an in-place "
             "open(O_TRUNC)+write trace is rejected and has a partial crash state. The proved checker is run inside Coq on "
             "the strace-decoded system-call trace of the real shfmt -w (complete and killed runs), and the model's "
             "predicted directory state is compared with the real one. fault_enumeration: the process is killed before the "
             "k-th call of every system call class (strace inject SIGKILL), for files of several sizes and modes, symlink "
             "and FIFO targets, and the directory is inspected."),
    "technique": "proof + fault_enumeration",
    "note": ("Trusted: Coq kernel + vm_compute; the Linux kernel; strace's decoding of system calls and its kill injection; "
             "the trace decoder in checks/c35.py. Process kill only: durability after power loss is out of scope."),
    "design_ref": "DESIGN.md 4 C35",
}
