"""C25 shell.Expand and shell.Fields behave like bash.
Proof: coq/Props/C25.v over the model coq/Expand/ShellApi.v (fragment lexer + expand.Document / wordFields state machine).
Code leg: shell.Expand / shell.Fields on generated strings x environments vs the model (vm_compute in kernel).
Search: the same API vs real bash 5.2 (here-document text; f ARGS with set -f)."""
import re
from vcheck import coq_list


def run(ctx):
    ctx.coq_props(extra_targets=["Expand/ShellEq.vo"])
    quick = ctx.tier == "quick"
    binp = ctx.go_build("c25")
    if not binp:
        return
    ngen = 2000 if quick else 30000
    nsearch = 2000 if quick else 30000
    ctx.rule = ("strings of 1..6 tokens from literals, blanks, $x ${x} $x_, single/double quotes with and without expansions, "
                "backslash escapes, ~ ~/p, lone $, non-ASCII (search: also braces, arithmetic, ${x:-d} ${#x} ${x%b}, $'..', "
                "unclosed quotes and ${ ); every 11th code-leg string is malformed; environments x y z x_ from empty(=unset), "
                "words with blanks/tabs, *, non-ASCII; non-trivial = distinct (env, string)")
    rc, rows, err = ctx.jsonl([binp, "gen", "-seed", str(ctx.seed), "-n", str(ngen)], timeout=900)
    if rc != 0 or not rows:
        ctx.broken.append(("harness-run", "c25 gen failed rc=%d %s" % (rc, err[-800:])))
        return
    mism_f, mism_e, out_f, out_e, total = [], [], 0, 0, 0
    for r in rows:
        if r["coq_fields"] == "PANIC" or r["coq_expand"] == "PANIC":
            ctx.fail("api_panics", {"s": r["s"]}, None, r)
    rows = [r for r in rows if r["coq_fields"] != "PANIC" and r["coq_expand"] != "PANIC"]
    for sh in range(0, len(rows), 1000):
        part = rows[sh:sh + 1000]
        items = ["(%s,%s,%s)" % (r["coq_in"][1:-1], r["coq_fields"], r["coq_expand"]) for r in part]
        text = """From Verif Require Import Base.Str Expand.ShellApi Expand.ShellEq.
Open Scope N_scope.
Definition cases : list scase := %s.
Definition V := Eval vm_compute in verdict_lists cases.
Definition MF := fst (fst (fst V)). Definition ME := snd (fst (fst V)). Definition OF_ := snd (fst V). Definition OE := snd V.
Definition MF' := Eval vm_compute in MF. Definition ME' := Eval vm_compute in ME.
Definition OF' := Eval vm_compute in OF_. Definition OE' := Eval vm_compute in OE.
Print MF'. Print ME'. Print OF'. Print OE'.
""" % coq_list(items)
        ok, out = ctx.coq_cases("c25_%d_%d" % (ctx.seed, sh), text)
        lists = {}
        for nm in ("MF'", "ME'", "OF'", "OE'"):
            m = re.search(re.escape(nm) + r"\s*=\s*(\[[^\]]*\])", out)
            if not ok or not m:
                ctx.broken.append(("correspondence:code-eval", "coqc on generated cases failed: " + out[-1200:]))
                return
            lists[nm] = [int(x) for x in re.findall(r"\d+", m.group(1))]
        total += len(part)
        for i in lists["MF'"]:
            mism_f.append({"s": part[i]["s"], "coq_in": part[i]["coq_in"], "go": part[i]["coq_fields"]})
        for i in lists["ME'"]:
            mism_e.append({"s": part[i]["s"], "coq_in": part[i]["coq_in"], "go": part[i]["coq_expand"]})
        out_f += len(lists["OF'"])
        out_e += len(lists["OE'"])
        for r in part:
            ctx.count(1, [r["coq_in"]])
    ctx.extra["code_leg_outside_model"] = {"fields": out_f, "expand": out_e}
    for r in rows[:3]:
        ctx.sample({"s": r["s"], "go_fields": r["coq_fields"][:120], "go_expand": r["coq_expand"][:120]})
    ctx.leg("code:shell.Fields vs Expand/ShellApi.v shell_fields (vm_compute in kernel)", total - out_f, mism_f)
    ctx.leg("code:shell.Expand vs Expand/ShellApi.v shell_expand (vm_compute in kernel)", total - out_e, mism_e)
    if out_f * 4 > total or out_e * 4 > total:
        ctx.broken.append(("correspondence:coverage", "more than a quarter of the code-leg strings fall outside the model"))
    rc, srows, err = ctx.jsonl([binp, "search", "-seed", str(ctx.seed), "-n", str(nsearch)], timeout=3000)
    if rc != 0 or not srows:
        ctx.broken.append(("harness-run", "c25 search failed rc=%d %s" % (rc, err[-800:])))
        return
    for r in srows:
        ctx.count(1, [r["kind"] + r["s"] + repr(sorted(r["env"].items()))])
        for cl in r.get("fails") or []:
            ctx.fail(cl, {"kind": r["kind"], "s": r["s"], "env": r["env"]}, r.get("class") or None,
                     {"go": r["go"], "bash": r["bash"]})
    ctx.leg("oracle:shell.Expand/Fields vs bash 5.2 (here-document; f ARGS with set -f)", len(srows), [])
    rc, wrows, err = ctx.jsonl([binp, "witness"], timeout=300)
    for r in wrows:
        ctx.count(1)
        for cl in r.get("fails") or []:
            ctx.fail(cl, {"kind": r["kind"], "s": r["s"], "env": r["env"]}, r.get("class") or None,
                     {"go": r["go"], "bash": r["bash"]})
    ctx.assumptions += [
        "the lexer of the model is written for the fragment (not a transliteration of syntax/parser.go); its tie is the code leg",
        "special parameters ($$ $? $_ ...), command substitution, ~user, a lone unquoted $ in an argument word (bash 5.2 then "
        "skips field splitting) are outside the search's domain; see notes/C25.md",
    ]


META = {
    "category": "proof",
    "text": ("Coq model of shell.Expand and shell.Fields on a word fragment (one-pass lexer, expand.Document escapes, wordFields "
             "state with splitAdd/flush/allowEmpty, FuncEnviron empty = unset, tilde = HOME), tied to the Go API on every run by "
             "in-kernel evaluation on generated strings x environments incl. malformed ones; theorems C25_expand and C25_fields: the "
             "model equals a separately written Spec (here-document text by recursive descent; argument words by marked characters "
             "per POSIX 2.6 with empty = unset) for all environments and strings, plus validity (error iff unterminated ${, "
             "independent of the environment); differential search of the API vs real bash 5.2 over a wider generator."),
    "note": ("The fragment lexer is shared by model and Spec for Fields (its tie to syntax/parser.go is the code leg); forms outside "
             "the fragment are covered by the bash search only. One divergence class pinned (brace expansion after $name)."),
    "design_ref": "DESIGN.md 4 C25",
}
