"""C01 Formatting preserves program structure.
Proof: coq/Props/C01.v over the level-W word model coq/Syntax/Word.v (PARTIAL: words only).
Code leg: real Printer bytes and real Parser parts for fragment words vs the model (vm_compute in the kernel).
Search (whole language): Parse -> [Simplify] -> Print(o) -> Parse, compared modulo the property's "ignoring"
clause, over the fixed enumeration corpus x mutations x generated programs x printer options (harness/hxfmt).

This module also holds what checks/c02.py and checks/c05.py share."""
import json
import os
import re

from vcheck import coq_bytes, coq_list

RULE = ("fixed enumeration: string literals of syntax/filetests_test.go and syntax/printer_test.go (read as data) plus pinned "
        "witnesses, in each of bash/posix/mksh/bats/zsh where they parse; 12 fixed mutations per literal (byte edits, layout "
        "perturbation, comment injection, token insertion/splice; bash + one rotating variant, zsh on the corpus only); 1500 "
        "grammar-generated programs per variant (not zsh); a systematic enumeration of ~31k small arithmetic expressions (binary "
        "operator x operand whose leftmost leaf carries a prefix sign, also under a tighter-binding operator; postfix ++/-- on "
        "the left) in every arithmetic context ($(( )), (( )), $[ ], slice offset/length, array subscripts, for (( ))), in bash "
        "and posix/mksh; a systematic enumeration of ~4.6k combinations of interacting constructs (redirect words that are command/"
        "process substitutions ending in & or ; before every closing keyword; two or three heredocs opened on one line with all "
        "delimiter kinds; a comment inserted after every token and token pair of one-line compound commands incl. all function "
        "spellings; comments inside substitutions inside heredoc bodies with comments after the heredoc). Options: quick = pairwise covering array of Indent 0..8 x 7 flags "
        "(+ the refused Minify+SingleLine row) with Simplify alternating, plus a seed-rotated 1/97 of all combinations on the "
        "corpus; thorough = every combination x Simplify on/off on the corpus, the covering array x on/off elsewhere. "
        "VERIF_SEED rotates which 1/8 slice of mutations/generated programs/arithmetic expressions the quick tier visits. "
        "non-trivial = distinct inputs that parse (counted per (input, variant)).")


def bool_c(b):
    return "true" if b else "false"


def coq_part(p):
    k = p["k"]
    if k == "L":
        return "Lit %s" % coq_bytes(p["v"])
    if k == "S":
        return "Sgl %s %s" % (bool_c(p.get("dollar")), coq_bytes(p["v"]))
    if k == "P":
        return "Param %s %s" % (bool_c(p.get("short")), coq_bytes(p["v"]))
    if k == "D":
        qs = []
        for q in p.get("parts") or []:
            if q["k"] == "L":
                qs.append("QLit %s" % coq_bytes(q["v"]))
            else:
                qs.append("QParam %s %s" % (bool_c(q.get("short")), coq_bytes(q["v"])))
        return "Dbl %s %s" % (bool_c(p.get("dollar")), coq_list(qs))
    raise ValueError(k)


def coq_word(parts):
    return coq_list([coq_part(p) for p in parts])


WORD_PRELUDE = """From Verif Require Import Base.Str Syntax.Word.
Open Scope N_scope.
Fixpoint bytes_eqb (a b : str) : bool :=
  match a, b with [], [] => true | x :: a', y :: b' => (x =? y) && bytes_eqb a' b' | _, _ => false end.
Definition qpart_eqb (a b : qpart) : bool :=
  match a, b with
  | QLit x, QLit y => bytes_eqb x y
  | QParam s x, QParam t y => Bool.eqb s t && bytes_eqb x y
  | _, _ => false end.
Fixpoint qparts_eqb (a b : list qpart) : bool :=
  match a, b with [], [] => true | x :: a', y :: b' => qpart_eqb x y && qparts_eqb a' b' | _, _ => false end.
Definition part_eqb (a b : part) : bool :=
  match a, b with
  | Lit x, Lit y => bytes_eqb x y
  | Sgl d x, Sgl e y => Bool.eqb d e && bytes_eqb x y
  | Dbl d x, Dbl e y => Bool.eqb d e && qparts_eqb x y
  | Param s x, Param t y => Bool.eqb s t && bytes_eqb x y
  | _, _ => false end.
Fixpoint word_eqb (a b : word) : bool :=
  match a, b with [], [] => true | x :: a', y :: b' => part_eqb x y && word_eqb a' b' | _, _ => false end.
(* case: word, minify, delimiter, Go printer bytes, Go parser parts *)
Definition ok_case (c : word * bool * N * str * word) : bool :=
  let '(w, m, d, out, rp) := c in
  bytes_eqb (print_word m w) out &&
  match lex_word (out ++ [d; 121]) with
  | Some (w', r) => word_eqb w' rp && word_eqb rp (norm_word m w) && bytes_eqb r [d; 121]
  | None => false
  end.
Fixpoint mism (i : nat) (cs : list (word * bool * N * str * word)) : list nat :=
  match cs with [] => [] | c :: rest => if ok_case c then mism (S i) rest else i :: mism (S i) rest end.
"""


def word_leg(ctx, binp, n, legname):
    """code leg at level W: returns nothing, records ctx.leg / ctx.fail."""
    rc, rows, err = ctx.jsonl([binp, "words", "-seed", str(ctx.seed), "-n", str(n), "-tier", ctx.tier], timeout=300)
    if rc != 0 or not rows:
        ctx.broken.append(("harness-run", "words leg failed rc=%d %s" % (rc, err[-600:])))
        return
    good = []
    for r in rows:
        if r.get("err"):
            # the real printer's output for a well-formed fragment word does not re-parse: a concrete C01 failure
            ctx.fail("word_reparse", {"parts": r["parts"], "minify": r["minify"], "delim": r["delim"], "out": r.get("out")},
                     None, r["err"])
        else:
            good.append(r)
    mism = []
    total = 0
    for sh in range(0, len(good), 1500):
        part = good[sh:sh + 1500]
        items = ["(%s,%s,%d,%s,%s)" % (coq_word(r["parts"]), bool_c(r["minify"]), bytes.fromhex(r["delim"])[0],
                                      coq_bytes(r["out"]), coq_word(r["reparse"])) for r in part]
        text = WORD_PRELUDE + "Definition cases : list (word * bool * N * str * word) := %s.\n" % coq_list(items) + \
            "Definition M := Eval vm_compute in mism 0 cases.\nPrint M.\n"
        ok, out = ctx.coq_cases("%s_words_%d" % (ctx.pid.lower(), sh), text)
        m = re.search(r"M\s*=\s*(\[[^\]]*\])", out)
        if not ok or not m:
            ctx.broken.append(("correspondence:code-eval", "coqc on generated word cases failed: " + out[-800:]))
            return
        total += len(part)
        for i in [int(x) for x in re.findall(r"\d+", m.group(1))]:
            r = part[i]
            mism.append({"parts": r["parts"], "minify": r["minify"], "delim": r["delim"],
                         "go_out": bytes.fromhex(r["out"]).decode("utf-8", "replace"), "go_reparse": r["reparse"]})
    ctx.leg(legname, total, mism,
            note="%d generated + %d corpus fragment words" % (sum(1 for r in good if r["src"] == "gen"), sum(1 for r in good if r["src"] == "corpus")))
    ctx.extra["inside_model_fragment_words"] = total


STMT_PRELUDE = """From Verif Require Import Base.Str Syntax.Word Syntax.MiniAst Syntax.MiniPrinter Syntax.MiniParser Syntax.MiniPos Syntax.MiniPrinterML Syntax.MiniRedir.
Open Scope N_scope.
Ltac leaf n i := first [reflexivity | exact I | idtac "MISMATCH" n i].
Ltac conj n i := lazymatch goal with |- _ /\\ _ => split; [leaf n i | let m := eval compute in (S n) in conj m i] | _ => leaf n i end.
Ltac chk i := vm_compute; conj 1%nat i.
"""

STMT_WHAT = {
    ("single", 1): "model sl_print_file bytes differ from the real Printer (SingleLine)",
    ("single", 2): "model parse_file of the printed text differs from the real Parser",
    ("single", 3): "model parse_file of the source differs from the real Parser",
    ("default", 1): "model ml_print_pfile bytes differ from the real Printer (default mode, tree with the source's lines)",
    ("default", 2): "model parse_file of the printed text differs from the real Parser",
    ("default", 3): "model parse_file of the source differs from the real Parser",
    ("default", 4): "canonical layout: the lines the real Parser assigns to the source differ from canon_file",
    ("default", 5): "canonical layout: the lines the real Parser assigns to the PRINTED text differ from canon_file",
    ("default", 6): "canonical layout: ml_print_file (canonical positions) differs from the real Printer bytes",
    ("xcall", 1): "level S+ (assignments, redirections): model x_print_file bytes differ from the real Printer",
    ("xcall", 2): "level S+: model parse_xfile of the printed text differs from the real Parser",
    ("xcall", 3): "level S+: model parse_xfile of the source differs from the real Parser",
}


def stmt_leg(ctx, n):
    """code leg at level S (statements): harness/cmd/c01s vs Syntax/MiniPrinter.v, MiniPrinterML.v, MiniPos.v, MiniParser.v, in the kernel."""
    binp = ctx.go_build("c01s")
    if not binp:
        return
    rc, rows, err = ctx.jsonl([binp, "stmts", "-seed", str(ctx.seed), "-n", str(n), "-tier", ctx.tier], timeout=300)
    summ = None
    cases = []
    for r in rows:
        if "summary" in r:
            summ = r["summary"]
        elif "tree" in r:
            cases.append(r)
    if rc != 0 or summ is None or not cases:
        ctx.broken.append(("harness-run", "c01s stmts failed rc=%d %s" % (rc, err[-600:])))
        return
    good = []
    for r in cases:
        src_text = bytes.fromhex(r["src"]).decode("utf-8", "replace")
        inp = {"src": r["src"], "src_text": src_text, "opts": r["opts"]}
        if r.get("err"):
            # the real printer's output for a fragment program does not re-parse (into the fragment): a concrete C01 failure
            if ctx.pid == "C01":
                ctx.fail("stmt_reparse", dict(inp, out=r.get("out")), None, r["err"])
        elif not r["same"]:
            if ctx.pid == "C01":
                ctx.fail("stmt_roundtrip", dict(inp, out_text=bytes.fromhex(r["out"]).decode("utf-8", "replace")), None,
                         "real Parse(Print(tree)) differs from tree on a fragment program")
        elif r["mode"] in ("default", "xcall") and not r.get("idem") and ctx.pid == "C02":
            # a real idempotence failure on a fragment program: attribute it with the SAME class predicates as the
            # whole-language C02 search (hxfmt classifier, via the c02 harness' show mode); unclassified -> violation
            klass = None
            try:
                import tempfile
                c02bin = ctx.go_build("c02")
                with tempfile.NamedTemporaryFile(prefix="c02stmt_", suffix=".sh") as tf:
                    tf.write(bytes.fromhex(r["src"]))
                    tf.flush()
                    rc2, rows2, _ = ctx.jsonl([c02bin, "show", "-in", tf.name, "bash", r["opts"]], timeout=120)
                for row in rows2:
                    for fl in row.get("failures") or []:
                        if fl.get("prop") == "C02" and fl.get("clause") == "idempotent" and fl.get("class"):
                            klass = fl["class"]
            except Exception:
                klass = None
            ctx.fail("stmt_idempotent", dict(inp, out_text=bytes.fromhex(r["out"]).decode("utf-8", "replace")), klass,
                     "real Print(Parse(Print(tree))) differs from Print(tree) on a fragment program (default mode)")
        else:
            good.append(r)
    mism = []
    total = 0
    legname = ("code:Printer separators/newlines/indent (stmtList, nestedStmts, stmt, command, ifClause...) + Parser statements and "
               "lines vs Syntax/MiniPrinter.v, MiniPrinterML.v, MiniPos.v, MiniParser.v (vm_compute in kernel)")
    for sh in range(0, len(good), 600):
        part = good[sh:sh + 600]
        lines = [STMT_PRELUDE]
        for i, r in enumerate(part):
            # reparse == tree for every case kept in `good`
            if r["mode"] == "xcall":
                lines.append("Goal let x := %s in let o := %s in x_print_file %s x = o /\\ parse_xfile o = Some x /\\ parse_xfile %s = Some x. chk %d%%nat. Abort."
                             % (r["tree"], coq_bytes(r["out"]), "true" if r["bnl"] else "false", coq_bytes(r["src"]), i))
            elif r["mode"] == "single":
                lines.append("Goal let t := %s in let o := %s in sl_print_file t = o /\\ parse_file o = Some t /\\ parse_file %s = Some t. chk %d%%nat. Abort."
                             % (r["tree"], coq_bytes(r["out"]), coq_bytes(r["src"]), i))
            else:
                bnl = "true" if r["bnl"] else "false"
                canon = ("pt = canon_file t /\\ %s = canon_file t /\\ ml_print_file %d%%nat %s t = o" % (r["ptree2"], r["ind"], bnl)
                         if r["canon"] and r.get("ptree2") else "True")
                # an escaped newline between tokens (BinaryNextLine on a multi-line list) is outside the model parser
                pout = "True" if "5c0a" in r["out"] else "parse_file o = Some t"
                lines.append("Goal let t := %s in let pt := %s in let o := %s in ml_print_pfile %d%%nat %s pt = o /\\ %s /\\ "
                             "parse_file %s = Some t /\\ %s. chk %d%%nat. Abort."
                             % (r["tree"], r["ptree"], coq_bytes(r["out"]), r["ind"], bnl, pout, coq_bytes(r["src"]), canon, i))
        ok, out = ctx.coq_cases("%s_stmts_%d" % (ctx.pid.lower(), sh), "\n".join(lines) + "\n")
        if not ok:
            ctx.broken.append(("correspondence:code-eval", "coqc on generated statement cases failed: " + out[-800:]))
            return
        total += len(part)
        seen = set()
        for tag, i in re.findall(r"MISMATCH\s+(\d+)(?:%nat)?\s+(\d+)", out):
            r = part[int(i)]
            if (tag, i) in seen:
                continue
            seen.add((tag, i))
            mism.append({"what": STMT_WHAT.get((r["mode"], int(tag)), tag), "src_text": bytes.fromhex(r["src"]).decode("utf-8", "replace"),
                         "opts": r["opts"], "go_out": bytes.fromhex(r["out"]).decode("utf-8", "replace")})
    nsingle = sum(1 for r in good if r["mode"] == "single")
    nx = sum(1 for r in good if r["mode"] == "xcall")
    ncanon = sum(1 for r in good if r["mode"] == "default" and r["canon"])
    ctx.leg(legname, total, mism, note="%d SingleLine + %d default-mode fragment programs (%d of them in canonical layout: lines vs canon_file) "
            "+ %d simple commands with assignments/redirections (level S+, SpaceRedirects on/off, SingleLine/default); "
            "pinned separator cases + generated, random layout; outside/err: %s" % (
                nsingle, total - nsingle - nx, ncanon, nx, json.dumps({k: v for k, v in summ.items() if not k.startswith("cases")})))
    ctx.extra["inside_model_fragment_stmts"] = total
    for r in good:
        ctx.nontrivial.add(("stmts", r["id"]))


def run_search(ctx, cmd):
    """whole-language search shared by C01/C02/C05. Returns the harness binary path (or None)."""
    binp = ctx.go_build(cmd)
    if not binp:
        return None
    timeout = 240 if ctx.tier == "quick" else 3000
    rc, rows, err = ctx.jsonl([binp, "search", "-tier", ctx.tier, "-seed", str(ctx.seed)], timeout=timeout)
    summ = None
    for r in rows:
        if "summary" in r:
            summ = r["summary"]
    if rc != 0 or summ is None:
        ctx.broken.append(("harness-run", "%s search failed rc=%d %s" % (cmd, rc, err[-800:])))
        return binp
    ctx.rule = RULE
    ctx.evaluations += summ["evaluations"]
    ctx.extra["search"] = {k: summ[k] for k in ("evaluations", "skipped", "inputs", "by_kind", "enum", "opt_rows", "opt_all", "by_class", "subnode_runs")}
    ctx.extra["known_by_signature"] = {k: v for k, v in summ["by_class"].items() if not k.startswith("UNCLASSIFIED")}
    for i in range(summ["inputs"]):
        ctx.nontrivial.add(("input", i))
    n = 0
    for r in rows:
        if "summary" in r or "clause" not in r:
            continue
        inp = {"src": r["src"], "src_text": r["src_text"], "lang": r["lang"], "opts": r["opts"], "simplify": r["simplify"], "id": r["id"]}
        if r.get("shrunk"):
            inp = {"src": r["shrunk"], "src_text": r["shrunk_text"], "lang": r["lang"], "opts": r["opts"], "simplify": r["simplify"],
                   "shrunk_from": r["id"]}
        ctx.fail(r["clause"], inp, r.get("class") or None, r.get("detail"))
        if n < 3 and r.get("class"):
            ctx.sample({"known_class": r["class"], "src": r["src_text"][:120], "lang": r["lang"], "opts": r["opts"]})
            n += 1
    ctx.sample({"summary": {k: summ[k] for k in ("evaluations", "inputs", "by_kind")}})
    return binp


def rerun_witnesses(ctx, binp):
    """re-run the witness of every listed known finding of this property; record whether it still fails that way."""
    res = {}
    for k in ctx.known:
        w = k.get("witness") or {}
        if "src" not in w:
            continue
        path = os.path.join("/tmp", "verif_%s_w_%d.sh" % (ctx.pid, os.getpid()))
        with open(path, "wb") as f:
            f.write(w["src"].encode("utf-8"))
        argv = [binp, "show", "-in", path, w.get("lang", "bash"), w.get("opts", "i0")]
        if w.get("simplify"):
            argv.append("simplify")
        rc, rows, err = ctx.jsonl(argv, timeout=60)
        os.remove(path)
        still = False
        for r in rows:
            for f in r.get("failures") or []:
                if f.get("prop") == ctx.pid and f.get("class") == k["class"]:
                    still = True
        res[k["id"]] = still
        if still:
            ctx.fail("known_witness", {"witness": w}, k["class"], "witness of %s still fails" % k["id"])
    ctx.extra["known_witness_still_fails"] = res
    gone = [i for i, s in res.items() if not s]
    if gone:
        ctx.assumptions.append("witnesses that no longer fail (finding may be fixed; entry should be revisited): " + ", ".join(gone))


def run(ctx):
    ctx.coq_props()
    binp = run_search(ctx, "c01")
    if not binp:
        return
    word_leg(ctx, binp, 450 if ctx.tier == "quick" else 20000,
             "code:Printer.wordPart/dblQuoted/paramExp + Parser word parts vs Syntax/Word.v (vm_compute in kernel)")
    stmt_leg(ctx, 100 if ctx.tier == "quick" else 4000)
    rerun_witnesses(ctx, binp)
    ctx.assumptions += [
        "proof covers level W (Lit, '..', $'..', \"..\", $\"..\", $x, ${x}; LangBash; delimiters blank tab newline ; & | )) and "
        "level S under SingleLine only (statement lists, simple commands, ; newline & ! && || |, { }, ( ), if/elif/else, while/until: "
        "C01_stmt_roundtrip_partial); the default multi-line layout, Minify, redirections, assignments, for/case/functions, comments, "
        "heredocs, all other node kinds, KeepPadding and zsh: search only",
        "level-S model: MiniPrinter.v transliterates the separator state machine for SingleLine (no position is read there); "
        "MiniParser.v follows parser.go's structure on bytes; tie = the statement leg (real Printer bytes, real Parser trees, random source layout)",
        "lex_word is a byte-level model of the lexer on these parts, not a transliteration of lexer.go; its tie to the code is the word leg",
        "the Go norm (hxfmt.Shape) is hand-written from the property's ignoring clause; an absent and an empty heredoc body are identified",
        "mutations/generated programs are not run in zsh (corpus only)",
    ]


def replay(ctx, obj):
    print(json.dumps(obj, indent=1))
    fs = obj.get("failures") or []
    if not fs:
        return 0
    binp = ctx.go_build(ctx.pid.lower())
    if not binp:
        return 1
    f = fs[0]["input"]
    path = "/tmp/verif_replay_%d.sh" % os.getpid()
    open(path, "wb").write(bytes.fromhex(f["src"]))
    argv = [binp, "show", "-in", path, f.get("lang", "bash"), f.get("opts", "i0")] + (["simplify"] if f.get("simplify") else [])
    rc, out, err = ctx.run(argv)
    print(out)
    return 0


META = {
    "category": "proof",
    "technique": "Coq proof on a fragment model (words) + kernel-evaluated correspondence + whole-language differential search",
    "text": ("Level S (statements: lists, ! && || |, blocks, subshells, if/elif/else, while/until): C01_stmt_roundtrip_partial (SingleLine) and C01_stmt_roundtrip_default_partial (default multi-line layout, Indent n, BinaryNextLine): parse (print t) = norm t for ALL well-formed fragment trees (MiniAst/MiniPrinter/MiniPrinterML/MiniParser transliterations, tied to the real printer/parser byte-for-byte by the c01s code leg); one simple command with assignments and redirections: printer layout theorem only. Level W: "
             "Coq theorem C01_word_roundtrip: for every well-formed word of the fragment (literals with escapes, single, "
             "dollar-single and double quotes, $x/${x}), both Minify settings and every word-ending delimiter, lexing the printed "
             "word returns the word modulo the property's cosmetic rewrites (all words, by induction). The model is tied to the code on "
             "every run: real Printer bytes and real Parser parts for generated and corpus fragment words are compared with the model "
             "inside the Coq kernel. PARTIAL w.r.t. the property: the whole language (all node kinds, 5 variants, every option "
             "combination, Simplify, sub-node printing, the Minify+SingleLine refusal) is covered by a search over a fixed, fully "
             "pre-classified enumeration of corpus literals, mutations and generated programs."),
    "note": ("Trusted: Coq kernel + vm_compute; hand-written model and Go norm; differential tie. 13 printer defects found by the "
             "search were repaired by fix: commits; remaining divergences are listed as narrow known-finding classes."),
    "design_ref": "DESIGN.md 4 C01, 4.0a",
}
