"""C09 Source positions point at the source they describe.
Proof: coq/Props/C09.v over coq/Syntax/Pos.v (Pos packing) and coq/Syntax/Reader.v (positions the reader hands out).
Code leg: NewPos/Offset/Line/Col/IsValid/After/posAddCol/nextPos of the real code vs Pos.v in the Coq kernel
(the reader's positions are tied by the C07 code leg, which compares nextPos after every operation).
Search: a position checker over every node of every tree parsed from corpus + generated inputs, 5 variants."""
import re
from vcheck import coq_list

KIND = {"new": 0, "add": 1, "after": 2, "next": 3}

CASES_V = """From Verif Require Import Base.Str Syntax.Pos.
Open Scope N_scope.
Definition b2z (b : bool) : Z := if b then 1%%Z else 0%%Z.
Definition pos_out (p : pos) : list Z :=
  [Z.of_N (p_offs p); Z.of_N (p_linecol p); Z.of_N (Offset p); Z.of_N (Line p); Z.of_N (Col p); b2z (IsValid p); b2z (IsRecovered p)].
Definition eval (kind : N) (a : list Z) : list Z :=
  match kind, a with
  | 0, [o; l; c] => pos_out (NewPos (Z.to_N o) (Z.to_N l) (Z.to_N c))
  | 1, [o; l; c; n] => pos_out (posAddCol (NewPos (Z.to_N o) (Z.to_N l) (Z.to_N c)) n)
  | 2, [ao; alc; bo; blc] => [b2z (After (mkpos (Z.to_N ao) (Z.to_N alc)) (mkpos (Z.to_N bo) (Z.to_N blc)))]
  | 3, [offs; bsp; w; line; col] => pos_out (next_pos (offs + bsp - w) line col)
  | _, _ => []
  end.
Definition cases : list (N * list Z * list Z) := %s.
Fixpoint zl_eqb (a b : list Z) : bool := match a, b with [], [] => true | x::a', y::b' => Z.eqb x y && zl_eqb a' b' | _, _ => false end.
Fixpoint mism (i : nat) (cs : list (N * list Z * list Z)) : list nat :=
  match cs with [] => []
  | (k, a, o) :: rest => if zl_eqb (eval k a) o then mism (S i) rest else i :: mism (S i) rest end.
Definition M := Eval vm_compute in mism 0 cases.
Print M.
"""



FRAG_V = """From Verif Require Import Base.Str Syntax.Pos Syntax.Reader Syntax.PosCheck.
Open Scope N_scope.
Definition tpos_eqb (a b : tpos) : bool :=
  let '(o1, l1, c1) := a in let '(o2, l2, c2) := b in Nat.eqb o1 o2 && (l1 =? l2)%%Z && (c1 =? c2)%%Z.
Fixpoint tl_eqb (a b : list tpos) : bool :=
  match a, b with [], [] => true | x::a', y::b' => tpos_eqb x y && tl_eqb a' b' | _, _ => false end.
Definition derived (f : file) : list tpos :=
  [file_pos f; file_end f] ++
  flat_map (fun s => [stmt_pos s; stmt_end s; call_pos (s_args s); call_end (s_args s)] ++
                     flat_map (fun a => [part_pos a; part_end a]) (s_args s)) f.
Definition cases : list (str * file * list tpos * bool) := %s.
Fixpoint mism (i : nat) (cs : list (str * file * list tpos * bool)) : list nat :=
  match cs with [] => []
  | (src, f, d, ok) :: rest =>
     if tl_eqb (derived f) d && Bool.eqb (check_file src f) ok then mism (S i) rest else i :: mism (S i) rest end.
Definition M := Eval vm_compute in mism 0 cases.
Print M.
"""


def tp(p):
    return "(%d%%nat,(%d)%%Z,(%d)%%Z)" % (p[0], p[1], p[2])


def frag_case(r):
    stmts = []
    for pos, semi, parts in r["stmts"]:
        ps = []
        for kind, p1, p2, val in parts:
            v = "[" + ";".join(str(b) for b in bytes.fromhex(val)) + "]"
            ps.append(("PLit (mklit %s %s %s)" if kind == 0 else "PSgl (mksgl %s %s %s)") % (tp(p1), tp(p2), v))
        stmts.append("mkstmt %s %s %s" % (tp(pos), coq_list(ps), "(Some %s)" % tp(semi) if semi else "None"))
    src = "[" + ";".join(str(b) for b in bytes.fromhex(r["src"])) + "]"
    return "(%s,%s,%s,%s)" % (src, coq_list(stmts), coq_list([tp(d) for d in r["derived"]]), "true" if r["go_ok"] else "false")


def frag_leg(ctx, binp, n):
    rc, rows, err = ctx.jsonl([binp, "frag", "-seed", str(ctx.seed), "-n", str(n)])
    if rc != 0 or not rows:
        ctx.broken.append(("harness-run", "c09 frag failed rc=%d %s" % (rc, err[-400:])))
        return
    mism, total = [], 0
    for sh in range(0, len(rows), 1000):
        part = rows[sh:sh + 1000]
        ok, out = ctx.coq_cases("c09f_%d" % sh, FRAG_V % coq_list([frag_case(r) for r in part]))
        m = re.search(r"M\s*=\s*(\[[^\]]*\])", out)
        if not ok or not m:
            ctx.broken.append(("correspondence:code-eval", "coqc on fragment cases failed: " + out[-800:]))
            return
        total += len(part)
        for i in [int(x) for x in re.findall(r"\d+", m.group(1))]:
            mism.append({"src": part[i]["src"], "mut": part[i].get("mut"), "go_ok": part[i]["go_ok"], "stmts": part[i]["stmts"]})
    ctx.extra["fragment_cases"] = {"total": total, "perturbed": sum(1 for r in rows if r.get("mut")),
                                   "go_rejects": sum(1 for r in rows if not r["go_ok"])}
    ctx.leg("code:Pos()/End() of File/Stmt/CallExpr/Word/Lit/SglQuoted and the Go checker's verdict vs Syntax/PosCheck.v "
            "(transliterated Pos/End + checker twin, vm_compute in kernel), parsed and one-position-perturbed trees", total, mism)


def zl(l):
    return "[" + ";".join("(%d)%%Z" % x for x in l) + "]"


def run(ctx):
    ctx.coq_props()
    binp = ctx.go_build("c09")
    if not binp:
        return
    quick = ctx.tier == "quick"
    # ---- code leg: Pos.v
    rc, rows, err = ctx.jsonl([binp, "pos", "-seed", str(ctx.seed), "-n", str(1500 if quick else 20000)])
    if rc != 0 or not rows:
        ctx.broken.append(("harness-run", "c09 pos failed rc=%d %s" % (rc, err[-800:])))
        return
    mism, total = [], 0
    for sh in range(0, len(rows), 2500):
        part = rows[sh:sh + 2500]
        items = ["(%d,%s,%s)" % (KIND[r["kind"]], zl(r["args"]), zl(r["out"])) for r in part]
        ok, out = ctx.coq_cases("c09_%d" % sh, CASES_V % coq_list(items))
        m = re.search(r"M\s*=\s*(\[[^\]]*\])", out)
        if not ok or not m:
            ctx.broken.append(("correspondence:code-eval", "coqc on generated Pos cases failed: " + out[-800:]))
            return
        total += len(part)
        for i in [int(x) for x in re.findall(r"\d+", m.group(1))]:
            mism.append(part[i])
    ctx.leg("code:NewPos/Offset/Line/Col/IsValid/IsRecovered/After/posAddCol/nextPos vs Syntax/Pos.v (vm_compute in kernel)", total, mism)
    for r in rows[:2]:
        ctx.sample(r)
    frag_leg(ctx, binp, 600 if quick else 8000)
    # ---- witnesses of the listed findings
    rc, wrows, err = ctx.jsonl([binp, "witness"])
    ctx.extra["known_finding_witnesses"] = [{"class": w["witness"], "reproduced": w["reproduced"]} for w in wrows]
    if rc != 0 or not wrows:
        ctx.broken.append(("harness-run", "c09 witness failed rc=%d %s" % (rc, err[-400:])))
    for w in wrows:
        if w["reproduced"]:
            ctx.fail("known_finding_witness", {"in": w["in"], "lang": w["lang"]}, w["witness"], None)
    # ---- search: position checker over parsed trees
    n = 60000 if quick else 0
    rc, srows, err = ctx.jsonl([binp, "search", "-seed", str(ctx.seed), "-n", str(n), "-tier", ctx.tier],
                               timeout=900 if quick else 7200)
    summ = None
    nfail = 0
    for r in srows:
        if "summary" in r:
            summ = r["summary"]
            continue
        for f in r["fails"]:
            nfail += 1
            ctx.fail(f["clause"], {"in": r["in"], "lang": r["lang"]}, f.get("class") or None, f["msg"])
    if rc != 0 or summ is None:
        ctx.broken.append(("harness-run", "c09 search failed rc=%d %s" % (rc, err[-800:])))
        return
    ctx.count(summ["positions"], [("trees", summ["trees"])])
    ctx.evaluations = summ["positions"]
    ctx.nontrivial = set(range(summ["trees"]))
    ctx.extra["position_search"] = summ
    ctx.rule = ("every valid Pos stored in the tree and every Pos()/End() of every node of every successfully parsed tree: inputs = the "
                "2.6k string literals of syntax/filetests_test.go, printer_test.go, parser_test.go (read as data) + 60 reader-aimed "
                "inputs, each in 5 variants, their CRLF versions, a seed-rotated slice (all in thorough, x5 variants) of the fixed "
                "mutation enumeration (27 pieces: backslash-newline, backslash-CR-LF, CRLF, NUL, multi-byte and invalid runes, quotes, "
                "heredoc openers... inserted at every position) and random multi-mutations; evaluations = positions checked, "
                "non-trivial = parsed trees")
    ctx.legs.append({"leg": "search:position checker over parsed trees", "cases": summ["trees"], "mismatches": summ["failing_inputs"],
                     "note": "%d nodes, %d positions; failing inputs are attributed per failure to a known-finding class or reported" % (summ["nodes"], summ["positions"]),
                     "first_mismatches": []})
    ctx.assumptions += ["text at a position is compared modulo the bytes the reader drops by design (NUL, CR of CRLF, backslash-newline, "
                        "backquote-level backslashes, leading tabs of <<- bodies) with an exact backtracking matcher",
                        "the last literal of a here-document body may extend over the line of the closing delimiter (by design)",
                        "comments are attached to neighbouring nodes and are exempt from child-within-parent (they must lie inside the file)",
                        "End() text (e.g. that End is right after the closing keyword) is only checked through line/col agreement and containment"]


def replay(ctx, obj):
    import json
    print(json.dumps(obj, indent=1))
    return 0


META = {
    "category": "proof",
    "text": ("Coq theorems: Pos packing (NewPos read back exactly below the limits, documented saturation above for all arguments, "
             "posAddCol adds to offset and column only, After is < on offsets) and, over the reader model, that every position the "
             "reader hands out is (offset, 1+newlines before, 1+bytes since the last newline); Pos.v tied to the code by in-kernel "
             "evaluation on generated numbers around every limit, the reader's positions by the C07 code leg; the property itself "
             "checked on every node of every parsed tree (start<=end, inside input, line/col agree with offset, keyword/operator/"
             "quote/literal text at its position, statements in order, child within parent) over corpus + generated inputs with "
             "CRLF, NUL, escaped newlines, heredocs, backquotes, multi-byte runes, 5 variants, no input exempted."),
    "note": ("Universal (proved) for Pos packing and for every position the reader hands out (C09_linecol, all inputs and schedules); checker twin proved sound on a small node fragment; positions the parser derives above the reader (posAddCol "
             "arithmetic, End() methods) are validated per tree by the search. Seven known-finding classes, four defects repaired."),
    "design_ref": "DESIGN.md 4 C09",
}
