"""C24 printf and echo -e format like bash.
Proof: coq/Props/C24.v over the model coq/Expand/Format.v (formatInto, Format, printf reuse loop, echo; Go fmt/strconv subset).
Code legs: expand.Format and the interpreter's printf/echo builtins vs the Coq model (vm_compute in the kernel) on the same inputs.
Oracle leg: the Coq Spec (bash's printf/echo -e per directive, partial) vs real bash 5.2 on every generated case inside its domain.
Search: interpreter builtins vs real bash 5.2 on all generated cases (stdout bytes + status)."""
import re
from vcheck import coq_bytes, coq_list

CLASSES = ["b_backslash_c", "b_quote_escape", "char_constant_argument",
           "echo_bare_octal", "incomplete_directive_output", "invalid_number_argument",
           "multiple_flags_rejected", "percent_with_flags_or_width", "precision_rejected", "sign_flag_on_unsigned",
           "unicode_escape_nonscalar", "unsigned_beyond_int64", "width_counts_runes", "zero_flag_on_string"]

PRELUDE = """From Verif Require Import Base.Str Expand.Format.
Open Scope N_scope.
Definition obs := (N * str * N)%type.
Definition obs_eqb (a b : obs) : bool :=
  let '(t1, s1, n1) := a in let '(t2, s2, n2) := b in (t1 =? t2) && str_eqb s1 s2 && (n1 =? n2).
Definition of_fres (r : fres) : obs :=
  match r with FOk s c => (0, s, N.of_nat c) | FErr (EInvalid c) => (1, [c], 0) | FErr EMissing => (2, [], 0)
  | FPanic => (3, [], 0) | FOutOfFuel => (4, [], 0) | FUnmodelled => (5, [], 0) end.
Definition of_bres (r : bres) : obs :=
  match r with BOut o s => (0, o, s) | BPanic => (3, [], 0) | BOutOfFuel => (4, [], 0) | BUnmodelled => (5, [], 0) end.
Definition of_spec (r : option (str * N)) : obs := match r with Some (o, s) => (0, o, s) | None => (9, [], 0) end.
(* case: is_printf, fmt, args, Format obs, Format-with-nil-args output, interp obs, bash obs *)
Definition kase := (bool * str * list str * obs * str * obs * obs)%type.
Definition model_builtin (k : kase) : obs :=
  let '(p, f, a, _, _, _, _) := k in of_bres (if p then printf_builtin (f :: a) else echo_builtin a).
Definition model_spec (k : kase) : obs :=
  let '(p, f, a, _, _, _, _) := k in of_spec (if p then spec_printf f a else spec_echo a).
Definition chk_fmt (k : kase) : bool :=
  let '(p, f, a, fo, _, _, _) := k in if p then obs_eqb (of_fres (format f (Some a))) fo else true.
Definition chk_nil (k : kase) : bool :=
  let '(p, f, a, _, no, _, _) := k in if p then obs_eqb (of_fres (format f None)) (0, no, 0) else true.
Definition chk_interp (k : kase) : bool := let '(_, _, _, _, _, io, _) := k in obs_eqb (model_builtin k) io.
Definition in_scope (k : kase) : bool := match model_spec k with (9, _, _) => false | _ => true end.
Definition chk_spec (k : kase) : bool := let '(_, _, _, _, _, _, bo) := k in negb (in_scope k) || obs_eqb (model_spec k) bo.
(* one evaluation of the model per case: bit 0 Format differs, 1 nil-Format differs, 2 builtin differs,
   3 Spec (inside its domain) differs from bash, 4 inside the Spec's domain *)
Definition mask (k : kase) : N :=
  let '(p, f, a, fo, no, io, bo) := k in
  let sp := model_spec k in
  let sc := match sp with (9, _, _) => false | _ => true end in
  (if chk_fmt k then 0 else 1) + (if chk_nil k then 0 else 2) + (if obs_eqb (model_builtin k) io then 0 else 4)
  + (if negb sc || obs_eqb sp bo then 0 else 8) + (if sc then 16 else 0).
"""


def obs3(tag, hexs, n):
    return "(%d,%s,%d)" % (tag, coq_bytes(hexs), n)


def fobs(r):
    e = r["ferr"]
    if e == "":
        return obs3(0, r["fout"], r["fcons"])
    if e == "P":
        return obs3(3, "", 0)
    if e == "missing":
        return obs3(2, "", 0)
    if e.startswith("invalid:"):
        return obs3(1, e[8:], 0)
    return obs3(8, "", 0)


def iobs(out, st):
    if st == -1:
        return obs3(3, "", 0)
    if st < 0:
        return obs3(7, "", 0)
    return obs3(0, out, st)


def idx_list(out, name):
    m = re.search(name + r"\s*=\s*(\[[^\]]*\])", out)
    if not m:
        return None
    return [int(x) for x in re.findall(r"\d+", m.group(1))]


def show(r):
    def h(x):
        return bytes.fromhex(x).decode("latin-1")
    w = ["printf", h(r["fmt"])] if r["kind"] == "printf" else ["echo"]
    return {"argv": w + [h(a) for a in r["args"]], "argv_hex": ([r["fmt"]] if r["kind"] == "printf" else []) + r["args"],
            "kind": r["kind"]}


def run(ctx):
    ctx.coq_props()
    binp = ctx.go_build("c24")
    if not binp:
        return
    n = 1500 if ctx.tier == "quick" else 20000
    # corpus/c24/regress.jsonl: minimised inputs from earlier detections, run first on every seed and tier
    rc, rows, err = ctx.jsonl([binp, "gen", "-seed", str(ctx.seed), "-n", str(n), "-in", "corpus/c24/regress.jsonl"], timeout=1200)
    if not any(r.get("stream") == "regress" for r in rows):
        ctx.broken.append(("harness-run", "regression corpus corpus/c24/regress.jsonl was not visited"))
    if ctx.tier == "thorough":
        rc2, rows2, err2 = ctx.jsonl([binp, "exhaustive", "-n", "4"], timeout=1800)
        rc, err = rc or rc2, err + err2
        rows += rows2
    if rc != 0 or not rows or any("error" in r for r in rows):
        ctx.broken.append(("harness-run", "c24 harness failed rc=%d %s %s" % (rc, err[-600:], [r for r in rows if "error" in r][:1])))
        return
    ctx.rule = ("printf: formats of 1..6 pieces drawn from literals, every escape (\\a..\\v \\\\ \\NNN \\0NNN \\xHH \\uHHHH \\UHHHHHHHH "
                "unknown escapes, lone backslash) and directives %s %b %c %d %i %u %o %x %% with one flag of '- + space', 0-flag, widths 1..12; "
                "arguments numeric (decimal, hex, octal, signed, empty, int64 limits, beyond int64), strings, %b arguments with escapes; "
                "fewer arguments than directives up to several rounds of reuse; echo with -n/-e/-E sequences; a class stream injecting each "
                "listed known-finding mechanism; a malformed stream of random bytes over a %/\\/digit/flag-rich alphabet; pinned witnesses. "
                "thorough adds every format of length <= 4 over a 12-letter alphabet. non-trivial = distinct case containing a directive or an escape")
    # ---------------- code legs + oracle leg inside the Coq kernel
    m_fmt, m_nil, m_int, m_spec, scope_twin = [], [], [], [], []
    n_printf = n_scope = 0
    SH = 500 if ctx.tier == "quick" else 1000

    def eval_shard(sh):
        part = rows[sh:sh + SH]
        items = []
        for r in part:
            isp = r["kind"] == "printf"
            items.append("(%s,%s,%s,%s,%s,%s,%s)" % ("true" if isp else "false", coq_bytes(r["fmt"]),
                                                     coq_list([coq_bytes(a) for a in r["args"]]),
                                                     fobs(r) if isp else obs3(0, "", 0),
                                                     coq_bytes(r["nout"]) if isp and r["nout"] != "P" else "[]",
                                                     iobs(r["iout"], r["ist"]),
                                                     # outside the property's domain the Spec is None: bash's bytes are not needed
                                                     iobs("" if r["ood"] else r["bout"], r["bst"])))
        # small definitions: one long literal makes coqc's parser overflow its stack on some runs
        CH = 40
        defs = ["Definition cs%d : list kase := %s.\n" % (j, coq_list(items[j * CH:(j + 1) * CH]))
                for j in range((len(items) + CH - 1) // CH)]
        text = PRELUDE + "".join(defs) + \
            "Definition cases : list kase := concat %s.\n" % coq_list(["cs%d" % j for j in range(len(defs))]) + \
            "Definition R := Eval vm_compute in map mask cases.\nPrint R.\n"
        ok, out = ctx.coq_cases("c24_%d" % sh, text, timeout=1500)
        m = re.search(r"R\s*=\s*\[([^\]]*)\]", out)
        if not ok or not m:
            return part, None, "coqc on generated cases failed: " + out[-800:]
        masks = [int(x) for x in re.findall(r"\d+", m.group(1))]
        if len(masks) != len(part):
            return part, None, "mask count %d != %d" % (len(masks), len(part))
        return part, masks, ""

    from concurrent.futures import ThreadPoolExecutor
    with ThreadPoolExecutor(max_workers=4) as ex:
        results = list(ex.map(eval_shard, range(0, len(rows), SH)))
    for part, masks, msg in results:
        if masks is None:
            ctx.broken.append(("correspondence:code-eval", msg))
            return
        n_printf += sum(1 for r in part if r["kind"] == "printf")
        for r, v in zip(part, masks):
            r["_mask"] = v
        lists = [[i for i, v in enumerate(masks) if v & bit] for bit in (1, 2, 4, 8, 16)]
        for lst, acc, what in ((lists[0], m_fmt, "Format"), (lists[1], m_nil, "Format(nil args)"),
                               (lists[2], m_int, "builtin"), (lists[3], m_spec, "spec-vs-bash")):
            for i in lst:
                r = part[i]
                acc.append({"case": show(r), "what": what, "Format": [r["fout"], r["fcons"], r["ferr"]], "nil_out": r["nout"],
                            "interp": [r["iout"], r["ist"]], "bash": [r["bout"], r["bst"]]})
        for i in lists[4]:
            r = part[i]
            n_scope += 1
            if r["classes"] or r["fails"]:
                scope_twin.append({"case": show(r), "classes": r["classes"], "fails": r["fails"],
                                   "interp": [r["iout"], r["ist"]], "bash": [r["bout"], r["bst"]]})
    # ---------------- search: interpreter vs bash, verdict computed in the harness
    ood_skipped = 0
    hit = set()
    for r in rows:
        key = (r["kind"], r["fmt"], tuple(r["args"]))
        nontrivial = ("25" in r["fmt"] or "5c" in r["fmt"]) if r["kind"] == "printf" else any("5c" in a for a in r["args"])
        ctx.count(1, [key] if nontrivial else [])
        if not r["fails"]:
            continue
        hard = [c for c in r["fails"] if c in ("interp_panics", "interp_hangs", "interp_run_error", "format_panics")]
        detail = {"go_stdout": r["iout"], "go_status": r["ist"], "bash_stdout": r["bout"], "bash_status": r["bst"],
                  "classes": r["classes"], "ood": r["ood"], "stream": r["stream"]}
        if hard:
            for c in hard:
                ctx.fail(c, show(r), None, detail)
        elif r["class"] and (r["_mask"] & 7) == 0:
            # attributed to a listed class only if the input is in the class AND the model (which contains the
            # listed defect) reproduces what the Go code wrote: Format bytes/consumed/error, nil-args bytes, builtin bytes+status
            hit.add(r["class"])
            for c in r["fails"]:
                ctx.fail(c, show(r), r["class"], detail)
        elif r["class"]:
            detail["model_disagrees_with_go_on_in_class_input"] = True
            for c in r["fails"]:
                ctx.fail(c, show(r), None, detail)
        elif r["ood"]:
            ood_skipped += 1   # uses a feature the property does not speak about (length modifiers, %q, '*', '#', options)
        else:
            for c in r["fails"]:
                ctx.fail(c, show(r), None, detail)
    # every listed class must still be confirmed by its pinned witness
    pinned_ok = {c: False for c in CLASSES}
    for r in rows:
        if r["stream"] == "pinned" and r["fails"] and r["class"] in pinned_ok:
            pinned_ok[r["class"]] = True
    ctx.extra["known_classes_confirmed_by_pinned_witness"] = pinned_ok
    ctx.extra["failing_cases_outside_property_domain_skipped"] = ood_skipped
    for r in rows:
        if r["stream"] in ("pinned-fixed", "regress") and r["fails"] and not r["class"]:
            ctx.fail("repaired_case_fails_again", show(r), None, {"go_stdout": r["iout"], "bash_stdout": r["bout"]})
    for r in rows[:2] + [x for x in rows if x["stream"] == "scope"][:3]:
        ctx.sample({"argv": show(r)["argv"], "go_stdout_hex": r["iout"], "go_status": r["ist"], "bash_stdout_hex": r["bout"],
                    "bash_status": r["bst"], "Format_out_hex": r["fout"], "Format_consumed": r["fcons"]})
    ctx.leg("code:expand.Format(fmt,args) vs Expand/Format.v format (bytes, consumed, error)", n_printf, m_fmt)
    ctx.leg("code:expand.Format(fmt,nil) vs model (escapes only)", n_printf, m_nil)
    ctx.leg("code:interp printf/echo builtins vs model printf_builtin/echo_builtin (stdout, status)", len(rows), m_int)
    ctx.leg("oracle:Spec spec_printf/spec_echo vs bash 5.2 on the cases inside the Spec's domain", n_scope, m_spec)
    ctx.leg("scope:cases inside the proved scope carry no known class and agree with bash", n_scope, scope_twin)
    ctx.extra["cases_in_proved_scope"] = n_scope
    ctx.assumptions += [
        "Go's fmt/strconv/utf8 are modelled by hand for the subset formatInto can reach (%s %d %o %x with flags '- + space 0' and width; "
        "ParseInt base 0 incl. underscores; AppendRune; RuneCountInString); widths of 8+ digits are outside the model (Unmodelled)",
        "bash is the oracle for the Spec only through sampling (oracle leg); the Spec is partial: None outside the directive subset",
        "stderr is not compared; locale C.UTF-8",
    ]


def replay(ctx, obj):
    import json
    print(json.dumps(obj, indent=1))
    return 0


META = {
    "category": "proof",
    "text": ("Coq theorems over a byte-by-byte model of formatInto/Format, the printf reuse loop and echo (with the part of Go's fmt, "
             "strconv.ParseInt and utf8 they delegate to): for ALL formats and argument lists inside the Spec's domain (bash's printf/echo -e "
             "rules written per directive) the builtins write the Spec's bytes and status; the reuse loop terminates; no panic. Divergences "
             "outside that domain are refuted by concrete witnesses and listed as narrow known classes. Model tied to the code on every run "
             "(Format and the interpreter builtins vs the model, evaluated in the Coq kernel), Spec tied to real bash 5.2 (oracle leg), "
             "plus a direct interpreter-vs-bash search over generated, malformed and pinned cases."),
    "note": ("Trusted: Coq kernel + vm_compute; hand-written model of formatInto and of the used subset of Go fmt/strconv/utf8 (tie = "
             "differential testing, seeded); bash semantics enter through the hand-written partial Spec, sampled against bash 5.2 on every run; "
             "stderr not compared; precision, length modifiers, %q, '*', '#', -v/-- options are outside the property's directive list."),
    "design_ref": "DESIGN.md 4 C24",
}
