"""C21 Parameter expansion matches bash.
Proof: coq/Props/C21.v over the model coq/Expand/Param.v (paramExp and the field level of a one-expansion word).
Code leg: expand.Fields on generated (state, ${...}) pairs vs the model evaluated in the kernel (vm_compute).
Search: printf '<%s>' of the same kind of words in interp.Runner vs real bash 5.2; pinned witnesses of known findings."""
import json
import re
from vcheck import coq_list


def run(ctx):
    ctx.coq_props(extra_targets=["Expand/ParamEq.vo"])
    quick = ctx.tier == "quick"
    binp = ctx.go_build("c21")
    if not binp:
        return
    ngen = 2400 if quick else 30000
    nsearch = 2500 if quick else 40000
    ctx.rule = ("(state, word) pairs: subject v unset/empty/string (glob, IFS, non-ASCII, newline characters), dense/sparse indexed "
                "array, associative array, positional parameters; word = ${...} or \"${...}\" over plain, the 8 default/assign/"
                "error/alternative operators, ${#}, ${v:o:l} with negative numbers, # ## % %%, / // /# /%, ^ ^^ , ,,, ${!r} "
                "${!v[@]}, @Q @U @L @u, [@] [*] [n] [key]; pattern words from * ? a b c A \\x é space, quoted parts and $p / \"$p\" parts "
                "(search: also [ ] ranges); non-trivial = distinct (state, word, quoted) triples")
    # ------------------------------------------------------------ code leg
    rc, rows, err = ctx.jsonl([binp, "gen", "-seed", str(ctx.seed), "-n", str(ngen)], timeout=900)
    if rc != 0 or not rows:
        ctx.broken.append(("harness-run", "c21 gen failed rc=%d %s" % (rc, err[-800:])))
        return
    bad_obs = [r for r in rows if not r["coq_obs"].startswith(("(OOk", "(OErr", "OPanic"))]
    mism = []
    for r in bad_obs:
        mism.append({"src": r["src"], "go": r["coq_obs"], "why": "Go result outside the model's outcome type"})
    rows = [r for r in rows if r not in bad_obs]
    total = len(bad_obs)
    for sh in range(0, len(rows), 1200):
        part = rows[sh:sh + 1200]
        up, lo, qt = {}, {}, {}
        for r in part:
            ru = r.get("runes") or []
            for i in range(0, len(ru), 3):
                if ru[i + 1] != ru[i]:
                    up[ru[i]] = ru[i + 1]
                if ru[i + 2] != ru[i]:
                    lo[ru[i]] = ru[i + 2]
            q = r.get("quote") or []
            for i in range(0, len(q), 2):
                qt[q[i]] = q[i + 1]
        items = ["(%s,%s)" % (r["coq_in"][1:-1], r["coq_obs"]) for r in part]
        text = """From Verif Require Import Base.Str Expand.Param Expand.ParamEq.
Open Scope N_scope.
Definition up : list (N*N) := %s.
Definition lo : list (N*N) := %s.
Definition qt : list (str*str) := %s.
Definition cases : list case_t := %s.
Definition M := Eval vm_compute in mismatches up lo qt 0 cases.
Print M.
""" % (coq_list(["(%d,%d)" % kv for kv in sorted(up.items())]),
            coq_list(["(%d,%d)" % kv for kv in sorted(lo.items())]),
            coq_list(["(%s,%s)" % kv for kv in sorted(qt.items())]),
            coq_list(items))
        ok, out = ctx.coq_cases("c21_%d_%d" % (ctx.seed, sh), text)
        m = re.search(r"M\s*=\s*(\[[^\]]*\])", out)
        if not ok or not m:
            ctx.broken.append(("correspondence:code-eval", "coqc on generated cases failed: " + out[-1200:]))
            return
        total += len(part)
        for i in [int(x) for x in re.findall(r"\d+", m.group(1))]:
            r = part[i]
            mism.append({"src": r["src"], "fam": r["fam"], "coq_in": r["coq_in"], "go": r["coq_obs"]})
    fams = {}
    for r in rows:
        fams[r["fam"]] = fams.get(r["fam"], 0) + 1
        ctx.count(1, [r["coq_in"]])
    ctx.extra["code_leg_families"] = fams
    for r in rows[:3]:
        ctx.sample({"word": r["src"], "model_input": r["coq_in"][:300], "go": r["coq_obs"][:200]})
    ctx.leg("code:expand.Fields on ${...} / \"${...}\" vs Expand/Param.v expand_word (vm_compute in kernel)", total, mism)
    # ------------------------------------------------------------ search: interp vs bash
    rc, srows, err = ctx.jsonl([binp, "search", "-seed", str(ctx.seed), "-n", str(nsearch)], timeout=3000)
    if rc != 0 or not srows:
        ctx.broken.append(("harness-run", "c21 search failed rc=%d %s" % (rc, err[-800:])))
        return
    nd = 0
    for r in srows:
        ctx.count(1, [r["script"]])
        if r.get("fails"):
            nd += 1
            for cl in r["fails"]:
                ctx.fail(cl, {"script": r["script"]}, r.get("class") or None, {"interp": r["interp"], "bash": r["bash"]})
    ctx.leg("oracle:interp.Runner vs bash 5.2 on generated expansions (sampling domain)", len(srows), [])
    ctx.extra["search_cases"] = len(srows)
    ctx.extra["search_differ"] = nd
    # ------------------------------------------------------------ pinned witnesses of the known findings
    rc, wrows, err = ctx.jsonl([binp, "witness"], timeout=300)
    if rc != 0:
        ctx.broken.append(("harness-run", "c21 witness failed rc=%d %s" % (rc, err[-800:])))
        return
    for r in wrows:
        ctx.count(1)
        if r.get("fails"):
            for cl in r["fails"]:
                ctx.fail(cl, {"script": r["script"]}, r.get("class") or None, {"interp": r["interp"], "bash": r["bash"]})
        elif r.get("expect") == "differs":
            ctx.extra.setdefault("witness_no_longer_differs", []).append(r["script"])
    ctx.extra["witnesses"] = len(wrows)
    ctx.assumptions += [
        "strings are lists of code points: only valid UTF-8 values are covered",
        "Go regexp is modelled as a backtracking leftmost-first matcher on the fragment * ? literal \\x (no brackets, no extglob); tie = code leg",
        "unicode.ToUpper/ToLower and syntax.Quote are function arguments of the model, instantiated from tables the harness dumps from the Go runtime on every run",
        "arithmetic in subscripts/offsets/lengths is not modelled (integer literals only; C20)",
        "sampling domain excludes the classes listed in notes/C21.md (each has a pinned witness and a known_findings entry)",
        "an expansion error is observed as 'error reported'; whether the command's status becomes non-zero is the runner's business (C26)",
    ]


META = {
    "category": "proof",
    "text": ("Coq theorems over a transliterated model of Config.paramExp/varInd/removePattern/replaceElems/caseConvElems and "
             "the one-expansion-word field level (quoted/unquotedElemFields, sliceElems, splitAdd): per operator family "
             "param_exp = bash_param for all states and words of the fragment (patterns: * ? literals, backslash escapes); "
             "model tied to expand.Fields on every run by in-kernel evaluation on generated cases; differential search "
             "interp.Runner vs real bash 5.2 over a wider generator (brackets, quoting, arrays, positional parameters)."),
    "note": ("Partial: see notes/C21.md. Regexp engine, unicode case tables, syntax.Quote and arithmetic are outside the "
             "model (function arguments / literals). Seven expand/param.go defects were repaired by fix: commits; the remaining "
             "divergence classes are excluded from random sampling and pinned as known findings."),
    "design_ref": "DESIGN.md 4 C21",
}
