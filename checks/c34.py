"""C34 Environment lists behave like an ordered map.
Proof: coq/Props/C34.v over the model coq/Vars/ListEnviron.v.
Code leg: Go expand.ListEnviron (Get/Each) vs the Coq model evaluated by vm_compute on the same inputs.
Search: Go vs a map built left to right (in the harness), every clause of the property."""
from vcheck import coq_bytes, coq_list


def coq_obs_get(g):
    if g == "P":
        return "Panic"
    if g == "N":
        return "(Ok None)"
    return "(Ok (Some %s))" % coq_bytes(g[2:])


def coq_obs_each(e):
    if e == ["P"]:
        return "Panic"
    prs = ["(%s,%s)" % (coq_bytes(e[i]), coq_bytes(e[i + 1])) for i in range(0, len(e), 2)]
    return "(Ok %s)" % coq_list(prs)


def run(ctx):
    ctx.coq_props()
    n = 1500 if ctx.tier == "quick" else 30000
    binp = ctx.go_build("c34")
    if not binp:
        return
    rc, rows, err = ctx.jsonl([binp, "gen", "-seed", str(ctx.seed), "-n", str(n)])
    rc2, frows, err2 = ctx.jsonl([binp, "func", "-seed", str(ctx.seed), "-n", "300"])
    if rc != 0 or rc2 != 0 or not rows:
        ctx.broken.append(("harness-run", "c34 harness failed rc=%d %s" % (rc, (err + err2)[-800:])))
        return
    ctx.rule = ("pair lists of 0..6 (every 50th 8..31) pairs from a generator biased to duplicate names, names that are "
                "prefixes of each other, empty names, pairs without '=', '=' in values, bytes below/above '='; "
                "queried name drawn from the list, a whole pair, or fresh; non-trivial = distinct (pairs,name) with >=2 valid pairs")
    # ---- search: direct property test done in the harness
    for r in rows:
        ctx.count(1, [(tuple(r["pairs"]), r["name"])] if len([p for p in r["pairs"] if "3d" in p]) >= 2 else [])
        for cl in r.get("fails") or []:
            ctx.fail(cl, {"pairs": r["pairs"], "name": r["name"]}, r.get("class") or None,
                     {"get": r["get"], "each": r["each"]})
    for r in frows:
        ctx.count(1)
        for cl in r.get("fails") or []:
            ctx.fail(cl, r, None)
    for r in rows[:3]:
        ctx.sample({"pairs_hex": r["pairs"], "name_hex": r["name"], "go_get": r["get"], "go_each": r["each"]})
    # ---- code leg: model vs Go, inside the kernel (shards of 1500)
    mism = []
    total = 0
    for sh in range(0, len(rows), 1500):
        part = rows[sh:sh + 1500]
        items = []
        for r in part:
            items.append("(%s,%s,%s,%s)" % (coq_list([coq_bytes(p) for p in r["pairs"]]), coq_bytes(r["name"]),
                                           coq_obs_get(r["get"]), coq_obs_each(r["each"])))
        text = """From Verif Require Import Base.Str Vars.ListEnviron.
Open Scope N_scope.
Definition cases : list (list str * str * res (option str) * res (list (str * str))) := %s.
Definition res_opt_eqb (a b : res (option str)) : bool :=
  match a, b with
  | Panic, Panic => true
  | Ok None, Ok None => true
  | Ok (Some x), Ok (Some y) => str_eqb x y
  | _, _ => false end.
Fixpoint pl_eqb (a b : list (str*str)) : bool :=
  match a, b with [], [] => true | (x1,y1)::a', (x2,y2)::b' => str_eqb x1 x2 && str_eqb y1 y2 && pl_eqb a' b' | _, _ => false end.
Definition res_each_eqb (a b : res (list (str*str))) : bool :=
  match a, b with Panic, Panic => true | Ok x, Ok y => pl_eqb x y | _, _ => false end.
Fixpoint mism (i : nat) (cs : list (list str * str * res (option str) * res (list (str * str)))) : list nat :=
  match cs with [] => []
  | (pairs, name, g, e) :: rest =>
     if res_opt_eqb (api_get pairs name) g && res_each_eqb (api_each pairs) e then mism (S i) rest else i :: mism (S i) rest end.
Definition M := Eval vm_compute in mism 0 cases.
Print M.
""" % coq_list(items)
        ok, out = ctx.coq_cases("c34_%d" % sh, text)
        total += len(part)
        import re
        m = re.search(r"M\s*=\s*(\[[^\]]*\])", out)
        if not ok or not m:
            ctx.broken.append(("correspondence:code-eval", "coqc on generated cases failed: " + out[-800:]))
            return
        idx = [int(x) for x in re.findall(r"\d+", m.group(1))]
        for i in idx:
            r = part[i]
            mism.append({"pairs": r["pairs"], "name": r["name"], "go_get": r["get"], "go_each": r["each"]})
    ctx.leg("code:ListEnviron.Get/Each vs Vars/ListEnviron.v (vm_compute in kernel)", total, mism)
    ctx.assumptions += ["case-insensitive (GOOS=windows) variant of listEnviron_ is not modelled",
                        "slices.SortStableFunc is modelled as a stable insertion sort (any stable sort yields the same list)"]


def replay(ctx, obj):
    import json
    print(json.dumps(obj, indent=1))
    return 0

META = {
    "category": "proof",
    "text": ("Coq theorems over a transliterated model of listEnviron_/Get/Each/funcEnviron (all pair lists, all names, "
             "no size bound): Get = last-binding map lookup, no panic, Each yields each surviving name once in strictly "
             "increasing name order with its last value; model tied to the code on every run by evaluating the model inside "
             "the Coq kernel (vm_compute) on the same generated inputs as the Go functions; direct Go-vs-map search."),
    "note": ("Trusted: Coq kernel + vm_compute; the model is hand-written (tie = differential testing on seeded inputs); "
             "windows case-insensitive variant not modelled; stable sort modelled as insertion sort."),
    "design_ref": "DESIGN.md 4 C34",
}
