"""C02 Formatting is idempotent.
Proof: coq/Props/C02.v — word-level fixpoint over coq/Syntax/Word.v (PARTIAL: words only).
Code leg: the level-W word leg shared with C01 (real Printer/Parser vs model, in the kernel).
Search (whole language): fmt(fmt(s)) == fmt(s) byte-identical over the fixed enumeration of corpus literals,
layout-perturbing mutations and generated programs x every option set without KeepPadding x Simplify on/off."""
import c01


def run(ctx):
    ctx.coq_props()
    binp = c01.run_search(ctx, "c02")
    if not binp:
        return
    c01.word_leg(ctx, binp, 300 if ctx.tier == "quick" else 10000,
                 "code:Printer/Parser on fragment words vs Syntax/Word.v (print_word, lex_word, norm_word; vm_compute in kernel)")
    c01.stmt_leg(ctx, 60 if ctx.tier == "quick" else 2000)   # level S: SingleLine + default-mode statement legs (notes/C01S.md)
    c01.rerun_witnesses(ctx, binp)
    ctx.assumptions += [
        "proof covers level W only: re-lexing a printed fragment word and printing again is a fixed point; line-based layout "
        "(newlines, indentation, comments, heredocs) is covered by the search only",
        "fmt = Parse(KeepComments) -> [Simplify] -> Print; KeepPadding is excluded as the property says",
        "failures whose first output does not re-parse are left to C01 (counted as skipped)",
    ]


replay = c01.replay

META = {
    "category": "proof",
    "technique": "Coq proof on a fragment model (words) + kernel-evaluated correspondence + whole-language idempotence search",
    "text": ("Coq theorem C02_word_fixpoint_partial: for every well-formed fragment word, whatever the (modelled) lexer reads back "
             "from the printed word prints to the same bytes again, for both Minify settings; tied to the code by comparing the real "
             "Printer/Parser with the model on generated and corpus words inside the Coq kernel. PARTIAL w.r.t. the property: the "
             "position-driven layout logic (newlines, comments, heredocs) is not modelled; fmt(fmt(s)) == fmt(s) is searched over a "
             "fixed, fully pre-classified enumeration of corpus literals, layout/comment mutations and generated programs, all five "
             "variants, every option combination without KeepPadding, Simplify on/off."),
    "note": ("Trusted: Coq kernel + vm_compute; hand-written model; differential tie. The search found many non-fixed-points on the "
             "unchanged tree; one was repaired (fix: commit), the rest are listed as narrow known-finding classes with signatures "
             "(same tree and comments after the second pass, only layout differs)."),
    "design_ref": "DESIGN.md 4 C02, 4.0a",
}
