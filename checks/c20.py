"""C20 Arithmetic evaluation matches bash.
Proof: coq/Props/C20.v over the models coq/Expand/ArithSyntax.v (parser, printer, precedence table) and
coq/Expand/Arith.v (Arithm/atoi/binArit/assgnArit and the Spec bash_arith).
Code leg: syntax.Parser.Arithmetic + expand.Arithm (map environment) vs the Coq model evaluated by vm_compute
on the same texts/environments: parse tree, value, error kind, panic, final environment.
Spec leg: Coq bash_arith vs the harness' big-integer reference evaluator of bash's rule, which the oracle
leg in turn compares with real bash 5.2.
Search/oracle: interp.Runner vs /usr/bin/bash on `echo $(( ))`, `(( ))`, `let`, `a[ ]=`, `for (( ))` programs."""
import json
import re

from vcheck import coq_bytes, coq_list

KNOWN_CLASSES = ("arith_var_holds_expression", "arith_let_quoted_string", "arith_invalid_literal_is_zero",
                 "arith_error_status_in_expansion", "arith_array_element_assign_lost")


def coq_env(pairs):
    return coq_list(["(%s,%s)" % (coq_bytes(n), coq_bytes(v)) for n, v in pairs])


def coq_z(s):
    return "(%s)%%Z" % s


def case_term(r):
    t = r["tree"]
    if t == "ERR":
        gt = "None"
    elif t == "NIL":
        gt = "(Some None)"
    else:
        gt = "(Some (Some %s))" % t
    if r["eval"]:
        if r["panic"]:
            res = "Panic"
        elif r["err"]:
            res = "(Err %d%%N)" % r["err"]
        else:
            res = "(Ok %s)" % coq_z(r["val"])
        # on a panic the Go environment is whatever was written before; the model's too
        ge = "(Some (%s,%s))" % (coq_env(r["env_out"]), res)
    else:
        ge = "None"
    if r.get("has_ref") and r["ref_err"] != 3 and r["eval"]:
        if r["ref_err"]:
            bv = "(BE %d%%N)" % r["ref_err"]
        else:
            bv = "(BV %s)" % coq_z(r["ref_val"])
        rf = "(Some (%s,%s))" % (coq_env(r["ref_env"]), bv)
    else:
        rf = "None"
    return "(%s,%s,%s,%s,%s)" % (coq_bytes(r["src"]), coq_env(r["env"]), gt, ge, rf)


CASES_V = """From Verif Require Import Base.Str Expand.ArithSyntax Expand.Arith.
Open Scope N_scope.
Definition case := (str * env * option (option expr) * option (env * res Z) * option (env * bval))%%type.
Definition cases : list case := %s.
Fixpoint env_eqb (a b : env) : bool :=
  match a, b with
  | [], [] => true
  | (n1,v1)::a', (n2,v2)::b' => str_eqb n1 n2 && str_eqb v1 v2 && env_eqb a' b'
  | _, _ => false end.
Definition res_eqb (a b : res Z) : bool :=
  match a, b with
  | Ok x, Ok y => Z.eqb x y | Err c, Err d => N.eqb c d | Panic, Panic => true | _, _ => false end.
Definition bval_eqb (a b : bval) : bool :=
  match a, b with
  | BV x, BV y => Z.eqb x y | BE c, BE d => N.eqb c d | BU, BU => true | _, _ => false end.
Definition parse_ok (src : str) (g : option (option expr)) : bool :=
  match parse_text src, g with
  | TError, None => true
  | TTree None _, Some None => true
  | TTree (Some a) _, Some (Some b) => expr_eqb a b
  | _, _ => false end.
Definition eval_ok (t : option (option expr)) (en : env) (g : option (env * res Z)) : bool :=
  match t, g with
  | Some (Some e), Some (en', r) =>
      let '(m, mr) := arithm e en in
      res_eqb mr r && (match r with Panic => true | _ => env_eqb m en' end)
  | _, _ => true end.
Definition spec_ok (t : option (option expr)) (en : env) (g : option (env * bval)) : bool :=
  match t, g with
  | Some (Some e), Some (en', b) => let '(m, mb) := bash_eval e en in bval_eqb mb b && env_eqb m en'
  | _, _ => true end.
Fixpoint mism (i : nat) (cs : list case) : list (nat * nat) :=
  match cs with
  | [] => []
  | (src, en, gt, ge, rf) :: rest =>
      (if parse_ok src gt then [] else [(i, 1%%nat)]) ++
      (if eval_ok gt en ge then [] else [(i, 2%%nat)]) ++
      (if spec_ok gt en rf then [] else [(i, 3%%nat)]) ++ mism (S i) rest
  end.
Definition M := Eval vm_compute in mism 0 cases.
Print M.
(* the scope of theorem C20_eval_matches, decided in the kernel for every case *)
Fixpoint scoped (i : nat) (cs : list case) : list nat :=
  match cs with
  | [] => []
  | (src, en, Some (Some e), Some _, _) :: rest => if in_scope e en then i :: scoped (S i) rest else scoped (S i) rest
  | _ :: rest => scoped (S i) rest
  end.
Definition SC := Eval vm_compute in scoped 0 cases.
Print SC.
"""


def run(ctx):
    ctx.coq_props()
    quick = ctx.tier == "quick"
    ncode = 700 if quick else 12000
    norac = 400 if quick else 8000
    binp = ctx.go_build("c20")
    if not binp:
        return
    rc, rows, err = ctx.jsonl([binp, "code", "-seed", str(ctx.seed), "-n", str(ncode), "-in", "corpus/c20"], timeout=900)
    if rc != 0 or not rows:
        ctx.broken.append(("harness-run", "c20 code failed rc=%d %s" % (rc, err[-800:])))
        return
    ctx.rule = ("expression trees (depth 1..6) over every operator of expand/arith.go, literals in decimal/0octal/0xhex/"
                "base#digits (2..64) form, variables x y z w holding integer literals (all forms, optional sign and blanks), "
                "empty (t), unset (u), names of earlier variables, or (every 4th/6th case) expression text; printed with minimal "
                "parentheses (plus explicit Paren nodes), spaced or tight; plus arbitrary/mutated token sequences and pinned "
                "literal strings; cases whose big-integer reference evaluation leaves int64 or shifts by a count outside 0..63 "
                "are dropped. for (( )) programs include bodies with break/continue [N], nested loops and a read of the loop variables after "
                "the loop. non-trivial = distinct source text with at least one operator")
    # ------------------------------------------------------------ search on the library entry point
    for r in rows:
        src = bytes.fromhex(r["src"]).decode("latin1")
        nontriv = r["tree"] not in ("ERR", "NIL", "UNSUP") and "Bin" in r["tree"] or "Un " in r["tree"]
        ctx.count(1, [(src, json.dumps(r["env"]))] if nontriv else [])
        for cl in r.get("fails") or []:
            ctx.fail(cl, {"src": src, "env": [[bytes.fromhex(a).decode("latin1"), bytes.fromhex(b).decode("latin1")] for a, b in r["env"]]},
                     r.get("class") or None,
                     {"go": [r["val"], r["err"], r["panic"]], "ref": [r.get("ref_val"), r.get("ref_err")], "msg": r.get("error_text")})
    for r in rows[:2]:
        ctx.sample({"src": bytes.fromhex(r["src"]).decode("latin1"), "go_tree": r["tree"][:200], "go_val": r["val"], "go_err": r["err"],
                    "ref_val": r.get("ref_val")})
    # ------------------------------------------------------------ code leg + spec leg, in the kernel
    usable = [r for r in rows if r["tree"] not in ("UNSUP", "PANIC")]
    unsup = len(rows) - len(usable)
    mism_parse, mism_eval, mism_spec = [], [], []
    n_eval = n_spec = n_scope = 0
    scope_contra = []
    shard = 600
    for sh in range(0, len(usable), shard):
        part = usable[sh:sh + shard]
        text = CASES_V % coq_list([case_term(r) for r in part])
        ok, out = ctx.coq_cases("c20_%d_%d" % (ctx.seed, sh), text, timeout=1500)
        m = re.search(r"M\s*=\s*(\[[^\]]*\])", out)
        if not ok or not m:
            ctx.broken.append(("correspondence:code-eval", "coqc on generated cases failed: " + out[-1200:]))
            return
        pairs = re.findall(r"\((\d+)(?:%nat)?,\s*(\d+)(?:%nat)?\)", m.group(1))
        if m.group(1).strip() != "[]" and not pairs:
            # never read an unparsable mismatch list as "no mismatch"
            ctx.broken.append(("correspondence:code-eval", "cannot read the mismatch list: " + m.group(1)[:300]))
            return
        for i, code in pairs:
            r = part[int(i)]
            d = {"src": bytes.fromhex(r["src"]).decode("latin1"), "env": r["env"], "go_tree": r["tree"][:300],
                 "go": [r["val"], r["err"], r["panic"], r["env_out"]], "ref": [r.get("ref_val"), r.get("ref_err"), r.get("ref_env")]}
            {1: mism_parse, 2: mism_eval, 3: mism_spec}[int(code)].append(d)
        msc = re.search(r"SC\s*=\s*(\[[^\]]*\])", out)
        if not msc:
            ctx.broken.append(("correspondence:code-eval", "no scope list in coqc output: " + out[-400:]))
            return
        for i in re.findall(r"(\d+)(?:%nat)?", msc.group(1)):
            r = part[int(i)]
            n_scope += 1
            # inside the proved scope the theorem says Go = bash's rule; an observation to the contrary means
            # the model, the Spec or the reference evaluator misdescribes something
            if "arithm_differs_from_bash_rule" in (r.get("fails") or []) or "arithm_panics" in (r.get("fails") or []):
                scope_contra.append({"src": bytes.fromhex(r["src"]).decode("latin1"), "env": r["env"], "go": [r["val"], r["err"]],
                                     "ref": [r.get("ref_val"), r.get("ref_err")]})
        n_eval += sum(1 for r in part if r["eval"])
        n_spec += sum(1 for r in part if r.get("has_ref") and r["ref_err"] != 3 and r["eval"])
    ctx.leg("code:Parser.Arithmetic tree vs ArithSyntax.parse_text (vm_compute in kernel)", len(usable), mism_parse,
            note="%d cases outside the model AST skipped" % unsup)
    ctx.leg("code:expand.Arithm value/error/panic/final env vs Arith.arithm (vm_compute in kernel)", n_eval, mism_eval)
    ctx.leg("spec:Arith.bash_eval vs harness reference evaluator of bash's rule", n_spec, mism_spec)
    ctx.leg("scope:cases inside in_scope (theorem C20_eval_matches) on which Go = bash's rule was observed", n_scope, scope_contra,
            note="in_scope decided in the kernel; of %d evaluated cases" % n_eval)
    ctx.extra["cases_in_proved_scope"] = n_scope
    # ------------------------------------------------------------ oracle leg / search against real bash
    rc, orows, err = ctx.jsonl([binp, "oracle", "-seed", str(ctx.seed), "-n", str(norac), "-in", "corpus/c20"], timeout=2400)
    if rc != 0 or not orows:
        ctx.broken.append(("harness-run", "c20 oracle failed rc=%d %s" % (rc, err[-800:])))
        return
    refbad = []
    n = 0
    per_ctx = {}
    for r in orows:
        if "harness_error" in r:
            ctx.broken.append(("oracle-run", r["harness_error"]))
            continue
        n += 1
        per_ctx[r["ctx"]] = per_ctx.get(r["ctx"], 0) + 1
        ctx.count(1, [r["script"]] if r.get("nontriv") else [])
        if r.get("ref_bad"):
            refbad.append({"script": r["script"], "bash": r["bash"], "ref": r["ref"]})
        for cl in r.get("fails") or []:
            ctx.fail(cl, {"ctx": r["ctx"], "script": r["script"]}, r.get("class") or None,
                     {"interp": r["interp"][:600], "bash": r["bash"][:600], "panic": r.get("panic")})
    ctx.leg("oracle:reference evaluator (twin of bash_arith) vs /usr/bin/bash", n, refbad)
    ctx.extra["oracle_cases_per_context"] = per_ctx
    if orows:
        r = orows[0]
        ctx.sample({"ctx": r.get("ctx"), "script": r.get("script"), "interp": r.get("interp"), "bash": r.get("bash")})
    ctx.assumptions += [
        "GOARCH with 64-bit int (Go int = int64)",
        "strings.TrimSpace modelled for ASCII white space only; environment Set never fails (map-backed WriteEnviron)",
        "evaluation of a[i] element reads goes through the ParamExp machinery and is outside the Coq evaluator (search leg only)",
        "LangBash parser, compact=false entry (Parser.Arithmetic); `let`'s compact mode is covered by the oracle leg only",
        "bash_arith parses variable values with the model of mvdan's parser (table grammar); tied to real bash through the reference evaluator on generated trees",
    ]


def replay(ctx, obj):
    print(json.dumps(obj, indent=1))
    return 0


META = {
    "category": "proof",
    "text": ("Coq theorems over transliterated models of the arithmetic parser chain (parser_arithm.go, token level, plus the "
             "arithmetic lexer) and of expand.Arithm/atoi/binArit/assgnArit with explicit int64 wrap: parse(print_min e) = min_paren e "
             "for every well-formed tree (the parser realises exactly the C/bash precedence and associativity table); atoi agrees with "
             "the declarative constant grammar (decimal, 0octal, 0x hex, base#digits 2..64, sign, blanks); C20_eval_matches: "
             "in_scope e env -> arithm e env = bash_arith e env (value, final environment, error) by induction over expression trees, "
             "in_scope = five decidable predicates (parser-producible, no a[i], valid constants, variables hold integer literals, "
             "bash's result defined: no signed overflow, shift counts 0..63); refuted outside it with the witness x='1+2'; $((x)) "
             "(known finding); division/modulo by zero and negative exponents are errors in both; no panic on parser-produced trees. "
             "Model tied to the code on every run (parse tree, value, error kind, panic, final environment, evaluated by vm_compute in "
             "the kernel, plus in_scope decided per case); Spec tied to real bash through a big-integer reference evaluator; interp vs "
             "bash 5.2 search over $(( )), (( )), let, subscripts, a[i] reads and for (( )) with break/continue."),
    "note": ("Trusted: Coq kernel + vm_compute; hand-written models (tie = seeded differential testing); reference evaluator in the "
             "harness; overflow/shift-count cases dropped as the property says. Known findings: variable/let text not evaluated as an "
             "expression, invalid constants read as 0, $(( )) error leaves status 0, a[i]= inside arithmetic is lost. Fixed: ++x++ panicked."),
    "design_ref": "DESIGN.md 4 C20",
}
