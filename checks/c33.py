"""C33 Indexed arrays behave like a map from indices to values.
Proof: coq/Props/C33.v over the model coq/Vars/Sparse.v (internal/sparse.go, indexedVal/indexedKeys, sliceElems,
assignVal/setVarWithIndex/unsetElem, ${a[i]=v}).
Code leg 1: the Go primitives (through expand/verif_hooks_c33.go) vs the model, on well-formed and malformed
representations, panics included.  Code leg 2: operation histories run statement by statement in interp.Runner;
the stored Variable (Kind/Str/List/Indexes, nil-ness included) and expansions over it vs the model, step by step.
Both evaluated inside the Coq kernel (vm_compute).
Search: operation histories as shell programs (top level, functions, local arrays, subshells, command
substitutions, two arrays) in interp vs bash 5.2 vs a Go-side reference map."""
import re
from concurrent.futures import ThreadPoolExecutor
from vcheck import coq_bytes, coq_list

PRELUDE = """From Verif Require Import Base.Str Vars.Sparse.
Open Scope N_scope.
Fixpoint ls_eqb (a b : list str) : bool :=
  match a, b with [], [] => true | x :: a', y :: b' => str_eqb x y && ls_eqb a' b' | _, _ => false end.
Fixpoint lz_eqb (a b : list Z) : bool :=
  match a, b with [], [] => true | x :: a', y :: b' => Z.eqb x y && lz_eqb a' b' | _, _ => false end.
Definition oz_eqb (a b : option (list Z)) : bool :=
  match a, b with None, None => true | Some x, Some y => lz_eqb x y | _, _ => false end.
Definition arr_eqb (a b : arr) : bool := ls_eqb (a_list a) (a_list b) && oz_eqb (a_idx a) (a_idx b).
Definition var_eqb (a b : var) : bool :=
  match a, b with VUnset, VUnset => true | VStr x, VStr y => str_eqb x y | VArr x, VArr y => arr_eqb x y | _, _ => false end.
Definition res_eqb {A} (f : A -> A -> bool) (a b : res A) : bool :=
  match a, b with Panic, Panic => true | Ok x, Ok y => f x y | Err c, Err d => N.eqb c d | _, _ => false end.
Definition ostr_eqb (a b : option str) : bool :=
  match a, b with None, None => true | Some x, Some y => str_eqb x y | _, _ => false end.
"""

PRIM = PRELUDE + """
Definition pcase := (arr * Z * str * res arr * res arr * Z * bool * res (option str) * res (list Z) * Z * Z * res (list str) * res (list str))%%type.
Definition cases : list pcase := %s.
Definition chk (c : pcase) : bool :=
  let '(a, k, v, eset, edel, emax, ecanon, eval_, ekeys, off, ln, esl2, esl1) := c in
  res_eqb arr_eqb (set_elem a k v) eset
  && res_eqb arr_eqb (delete_elem a k) edel
  && Z.eqb (indexed_max (a_list a) (a_idx a)) emax
  && Bool.eqb (match a_idx a with Some ix => match canonical ix with None => true | Some _ => false end | None => true end) ecanon
  && res_eqb ostr_eqb (indexed_val a k) eval_
  && res_eqb lz_eqb (indexed_keys a) ekeys
  && res_eqb ls_eqb (slice_elems a (Some off) (Some ln)) esl2
  && res_eqb ls_eqb (slice_elems a (Some off) None) esl1.
Fixpoint mism (i : nat) (cs : list pcase) : list nat :=
  match cs with [] => [] | c :: r => if chk c then mism (S i) r else i :: mism (S i) r end.
Definition M := Eval vm_compute in mism 0 cases.
Print M.
"""

HIST = PRELUDE + """
(* one step: op, expected (value, error flag) or None for a Go panic, index read, expected "${a[rk]}",
   and for arrays: keys, count, off, len, "${a[@]:off:len}", "${a[@]:off}" *)
Definition xtra := (res (list Z) * Z * Z * Z * res (list str) * res (list str))%%type.
Definition hstep := (op * option (var * bool) * Z * res str * option xtra)%%type.
Definition cases : list (list hstep) := %s.
Definition chk_x (v : var) (x : option xtra) : bool :=
  match x, v with
  | None, VArr _ => false
  | None, _ => true
  | Some (ekeys, ecount, off, ln, esl2, esl1), VArr a =>
      res_eqb lz_eqb (indexed_keys a) ekeys && Z.eqb (count a) ecount
      && res_eqb ls_eqb (slice_elems a (Some off) (Some ln)) esl2
      && res_eqb ls_eqb (slice_elems a (Some off) None) esl1
  | Some _, _ => false
  end.
Definition read_of (v : var) (k : Z) : res str :=
  match var_index v k with Ok (s, _) => Ok s | Err _ => Err 1 | Panic => Panic end.
(* returns the number of the first step that disagrees (1-based), 0 = all agree *)
Fixpoint chk_hist (n : nat) (v : var) (h : list hstep) : nat :=
  match h with
  | [] => O
  | (o, e, rk, eread, x) :: r =>
      match step v o, e with
      | Panic, None => O
      | Ok (v', fl), Some (ev, efl) =>
          if var_eqb v' ev && Bool.eqb fl efl && res_eqb str_eqb (read_of v' rk) eread && chk_x v' x
          then chk_hist (S n) v' r else S n
      | _, _ => S n
      end
  end.
Fixpoint mism (i : nat) (cs : list (list hstep)) : list (nat * nat) :=
  match cs with [] => [] | c :: r => match chk_hist O VUnset c with O => mism (S i) r | s => (i, s) :: mism (S i) r end end.
Definition M := Eval vm_compute in mism 0 cases.
Print M.
"""


def z(n):
    return "(%d)%%Z" % n


def zl(l):
    return coq_list([z(x) for x in l])


def sl(l):
    return coq_list([coq_bytes(x) for x in l])


def arr_term(rep):
    return "(mkArr %s %s)" % (sl(rep["list"]), "None" if rep["nil"] else "(Some %s)" % zl(rep["idx"]))


def res_arr(rep):
    return "Panic" if rep.get("p") else "(Ok %s)" % arr_term(rep)


def res_fields(fr):
    if fr.get("p"):
        return "Panic"
    if fr.get("err"):
        return "(Err 1)"
    return "(Ok %s)" % sl(fr["f"])


def prim_term(r):
    val = r["val"]
    valt = "Panic" if val == "P" else "(Ok None)" if val == "N" else "(Ok (Some %s))" % coq_bytes(val[2:])
    keys = r["keys"]
    keyst = "Panic" if keys == "P" else "(Ok %s)" % zl([int(x) for x in keys.split(",") if x != ""])
    return "(%s,%s,%s,%s,%s,%s,%s,%s,%s,%s,%s,%s,%s)" % (
        arr_term(r["in"]), z(r["k"]), coq_bytes(r["v"]), res_arr(r["set"]), res_arr(r["del"]), z(r["max"]),
        "true" if r["canon_nil"] else "false", valt, keyst, z(r["off"]), z(r["len"]),
        res_fields(r["sl2"]), res_fields(r["sl1"]))


def op_term(o):
    k, v = z(o["k"]), coq_bytes(o["v"])
    es = coq_list([("(EIdx %s %s)" % (z(e["k"]), coq_bytes(e["v"]))) if e["i"] else "(EVal %s)" % coq_bytes(e["v"])
                   for e in o.get("es") or []])
    kind = o["kind"]
    return {"setelem": "(OSetElem %s %s)" % (k, v), "appelem": "(OAppElem %s %s)" % (k, v),
            "unsetelem": "(OUnsetElem %s)" % k, "assignarr": "(OAssignArr %s)" % es,
            "appendarr": "(OAppendArr %s)" % es, "assignstr": "(OAssignStr %s)" % v,
            "appendstr": "(OAppendStr %s)" % v, "unsetall": "OUnsetAll",
            "default": "(ODefault %s %s %s)" % ("true" if o.get("colon") else "false", k, v)}[kind]


def var_term(v):
    if v["kind"] == "U":
        return "VUnset"
    if v["kind"] == "S":
        return "(VStr %s)" % coq_bytes(v["str"])
    if v["kind"] == "A":
        return "(VArr %s)" % arr_term(v)
    return None


def step_term(s):
    """None when the Go observation is outside the model's value space (reported as a mismatch)."""
    if s.get("p"):
        return "(%s,None,%s,Panic,None)" % (op_term(s["op"]), z(0))
    vt = var_term(s["var"])
    if vt is None:
        return None
    rd = s["read"]
    if rd.get("p"):
        rdt = "Panic"
    elif rd.get("err"):
        rdt = "(Err 1)"
    else:
        f = rd["f"]
        rdt = "(Ok %s)" % coq_bytes(f[0] if f else "")
    if s["var"]["kind"] == "A":
        keys, cnt = s["keys"], s["count"]
        kt = "Panic" if keys.get("p") else "(Ok %s)" % zl([int(bytes.fromhex(x)) for x in keys["f"]])
        try:
            c = int(bytes.fromhex(cnt["f"][0])) if cnt.get("f") else -1
        except ValueError:
            c = -1
        x = "(Some (%s,%s,%s,%s,%s,%s))" % (kt, z(c), z(s["off"]), z(s["len"]), res_fields(s["sl2"]), res_fields(s["sl1"]))
    else:
        x = "None"
    return "(%s,(Some (%s,%s)),%s,%s,%s)" % (op_term(s["op"]), vt, "true" if s["err"] else "false", z(s["rk"]), rdt, x)


def run_bash(ctx, programs, jobs=4, chunk=40):
    """Run programs in bash 5.2, many per process (same process, state cleared between cases)."""
    chunks = [list(range(i, min(i + chunk, len(programs)))) for i in range(0, len(programs), chunk)]

    import os
    import shutil
    import tempfile
    tmpd = tempfile.mkdtemp(prefix="c33run_", dir="/tmp")

    def one(idxs):
        script = "".join("unset a b c d e q x out i j k; unset -f f\n%s\nprintf '\\n@@@%d\\n'\n" % (programs[i].rstrip("\n"), i) for i in idxs)
        path = os.path.join(tmpd, "w%d.sh" % idxs[0])
        with open(path, "w") as f:
            f.write(script)
        rc, out, err = ctx.run(["env", "-i", "PATH=/usr/bin:/bin", "LC_ALL=C.UTF-8", "timeout", "300",
                                "/usr/bin/bash", "--norc", "--noprofile", "-c", 'exec 2>&1; . "$1"', "bash", path],
                               timeout=330, cwd=tmpd, stdin=b"")
        parts = re.split(r"\n@@@(\d+)\n", out)
        return {int(parts[j + 1]): parts[j] for j in range(0, len(parts) - 1, 2)}, err

    res = {}
    errs = {}
    with ThreadPoolExecutor(max_workers=jobs) as ex:
        for (d, err), idxs in zip(ex.map(one, chunks), chunks):
            res.update(d)
            for i in idxs:
                errs[i] = err
    shutil.rmtree(tmpd, ignore_errors=True)
    return res, errs


def run(ctx):
    ctx.coq_props()
    quick = ctx.tier == "quick"
    binp = ctx.go_build("c33")
    if not binp:
        return
    nprim = 1200 if quick else 12000
    nhist = 250 if quick else 4000
    nshell = 160 if quick else 4000
    seed = str(ctx.seed)
    rc1, prim, e1 = ctx.jsonl([binp, "prim", "-seed", seed, "-n", str(nprim)])
    rc2, hist, e2 = ctx.jsonl([binp, "hist", "-seed", seed, "-n", str(nhist)])
    rc3, shell, e3 = ctx.jsonl([binp, "shell", "-seed", seed, "-n", str(nshell)], timeout=900)
    import os
    corpus = os.path.join(os.path.dirname(os.path.dirname(os.path.abspath(__file__))), "corpus", "c33", "regress.txt")
    rc4, kf, e4 = ctx.jsonl([binp, "kf", "-in", corpus])
    if rc1 or rc2 or rc3 or rc4 or not prim or not hist or not shell or not kf:
        ctx.broken.append(("harness-run", "c33 harness failed rc=%s %s" % ((rc1, rc2, rc3, rc4), (e1 + e2 + e3 + e4)[-800:])))
        return
    ctx.rule = ("prim: list of 0..6 values with Indexes nil / well-formed sparse / wrong length / unsorted-duplicate-negative, "
                "index -2..29; hist: 1..20 operations (a[k]=v, a[k]+=v, unset 'a[k]', a=(...), a+=(...) with [k]=v items, a=v, a+=v, "
                "unset a, ${a[k]=v}, ${a[k]:=v}) with indices small / max+1 / beyond / negative in and out of range, or written as "
                "side-effecting expressions over i, j, k (i++, --k, j-=3, k=k+1, ...) whose values are dumped after every step, values incl. "
                "empty and with a space, each step followed by ${a[k]}, ${!a[@]}, ${#a[@]}, ${a[@]:o:l}, ${a[@]:o}; "
                "shell: the same histories (error-free ones) as programs in 6 contexts; non-trivial = history that reaches a sparse array")

    # the Coq evaluations (shards) and the bash runs are independent processes: run them side by side
    progs = [r["src"] for r in shell] + [r["src"] for r in kf]
    pshards = [prim[i:i + 600] for i in range(0, len(prim), 600)]
    hshards = [hist[i:i + 125] for i in range(0, len(hist), 125)]
    hterms, hpre, nsteps = [], [], 0
    for part in hshards:
        terms = []
        for h in part:
            ts = []
            for si, s in enumerate(h["steps"]):
                t = step_term(s)
                if not s.get("p") and s.get("ivok") is False:
                    hpre.append({"history": [x["stmt"] + ("   # then rd=\"${a[%s]}\"" % x["rx"] if x.get("rx") else "")
                                             for x in h["steps"][:si + 1]],
                                 "index_variables_i_j_k": s.get("ivgot"), "expected_after_one_evaluation_each": s.get("ivexp"),
                                 "why": "a subscript expression was not evaluated exactly once"})
                    break
                if t is None:
                    hpre.append({"history": [x["stmt"] for x in h["steps"][:si + 1]], "go_var": s["var"],
                                 "why": "Go value outside the modelled kinds (Kind/Set combination)"})
                    break
                ts.append(t)
            nsteps += len(ts)
            terms.append(coq_list(ts))
        hterms.append(coq_list(terms))
    with ThreadPoolExecutor(max_workers=5) as ex:
        fb = ex.submit(run_bash, ctx, progs, 3, 20 if quick else 100)
        fp = [ex.submit(ctx.coq_cases, "c33_prim_%d" % i, PRIM % coq_list([prim_term(r) for r in part]))
              for i, part in enumerate(pshards)]
        fh = [ex.submit(ctx.coq_cases, "c33_hist_%d" % i, HIST % t) for i, t in enumerate(hterms)]
        bash, berr = fb.result()
        pres = [f.result() for f in fp]
        hres = [f.result() for f in fh]

    # ------------------------------------------------------------ code leg 1: primitives
    mism = []
    for part, (ok, out) in zip(pshards, pres):
        m = re.search(r"M\s*=\s*(\[[^\]]*\])", out)
        if not ok or not m:
            ctx.broken.append(("correspondence:code-eval", "coqc on generated prim cases failed: " + out[-800:]))
            return
        for i in [int(x) for x in re.findall(r"\d+", m.group(1))]:
            mism.append(part[i])
    ctx.leg("code:internal/sparse.go + indexedVal/indexedKeys/sliceElems vs Vars/Sparse.v (vm_compute in kernel)", len(prim), mism)
    ctx.count(len(prim))

    # ------------------------------------------------------------ code leg 2: histories
    mism = list(hpre)
    for part, (ok, out) in zip(hshards, hres):
        m = re.search(r"M\s*=\s*(\[[^\]]*\])", out, re.S)
        if not ok or not m:
            ctx.broken.append(("correspondence:code-eval", "coqc on generated history cases failed: " + out[-800:]))
            return
        for (i, s) in re.findall(r"\((\d+)(?:%nat)?,\s*(\d+)(?:%nat)?\)", m.group(1)):
            h = part[int(i)]["steps"]
            st = h[int(s) - 1]
            mism.append({"history": [x["stmt"] for x in h[:int(s)]], "go_step": st})
    ctx.leg("code:interp assignVal/setVarWithIndex/unsetElem/assignElem histories vs Vars/Sparse.v step (vm_compute in kernel)",
            len(hist), mism, note="%d steps" % nsteps)
    for h in hist:
        sparse = any(not s.get("p") and s["var"]["kind"] == "A" and not s["var"]["nil"] for s in h["steps"])
        ctx.count(len(h["steps"]), [tuple(s["stmt"] for s in h["steps"])] if sparse else [])
    for h in hist[:2]:
        ctx.sample({"history": [s["stmt"] for s in h["steps"]], "final_go_var": h["steps"][-1].get("var")})

    # ------------------------------------------------------------ search: interp vs bash vs reference map
    nref = []
    for i, r in enumerate(shell):
        want = bytes.fromhex(r["want"]).decode("utf-8", "replace")
        got = bytes.fromhex(r["got"]).decode("utf-8", "replace")
        b = bash.get(i)
        if b is None:
            ctx.broken.append(("oracle-run", "no bash output for case %d: %s" % (i, berr.get(i, "")[-300:])))
            continue
        ctx.count(1, [r["src"]] if r["nops"] >= 3 else [])
        if b != want:
            nref.append({"src": r["src"], "bash": b, "reference": want})
        if got != b:
            ctx.fail("array_state_and_expansions_match_bash[%s]" % r["ctx"], {"src": r["src"]}, None,
                     {"interp": got[:600], "bash": b[:600], "reference_map": want[:600]})
    ctx.leg("oracle:Go-side reference map vs bash 5.2 on the generated programs", len(shell), nref)
    ctx.sample({"program": shell[0]["src"], "bash": bash.get(0)})
    # known findings and fixed findings: pinned witnesses
    for j, r in enumerate(kf):
        b = bash.get(len(shell) + j)
        got = bytes.fromhex(r["got"]).decode("utf-8", "replace")
        if b is None:
            ctx.broken.append(("oracle-run", "no bash output for witness %s" % r["id"]))
            continue
        ctx.count(1)
        # bash prefixes its diagnostics with the script name; compare what reaches stdout/stderr modulo that prefix
        bn = re.sub(r"(?m)^\S*w\d+\.sh: line \d+: ", "", b)
        if r["class"]:
            if got != bn:
                ctx.fail("witness " + r["id"], {"src": r["src"]}, r["class"], {"interp": got, "bash": bn})
        elif got != bn:
            ctx.fail("regression of " + r["id"], {"src": r["src"]}, None, {"interp": got, "bash": bn})
    ctx.assumptions += [
        "Go int is modelled as unbounded Z (indices beyond 2^63 are not exercised)",
        "values are modelled, not heap cells: the callers clone List/Indexes before the in-place helpers (aliasing is C27's topic)",
        "arithmetic evaluation of subscripts is outside the model: operations carry the evaluated index",
        "negative slice length, ${!a[@]} of unset names, out-of-range negative reads and ${s[-k]=v} on scalars are known findings "
        "(KF-C33-1..4) and are not sampled against bash",
        "a naked `local a` keeps the outer value in interp (defect of local, not of arrays): the generator declares `local a=()`",
    ]


def replay(ctx, obj):
    import json
    print(json.dumps(obj, indent=1))
    return 0


META = {
    "category": "proof",
    "text": ("Coq theorems over a transliterated model of the sparse indexed-array representation (List + Indexes, nil = dense) "
             "and of every operation the interpreter performs on it (element set/append/unset, whole and += array assignment "
             "with [k]=v items, scalar assignment/append, ${a[k]=v}, lookup, keys, count, slicing, negative indices): the "
             "representation invariant is preserved, every operation refines the corresponding operation on a finite map "
             "Z -> string for all histories (fold_left), and no operation panics. The model is tied to the code on every run by "
             "evaluating it inside the Coq kernel on the same generated inputs as the Go functions (primitives incl. malformed "
             "representations, and interp.Runner histories step by step); generated shell programs in six contexts are compared "
             "between interp, bash 5.2 and a Go-side reference map."),
    "note": ("Trusted: Coq kernel + vm_compute; hand-written model (tie = differential testing on seeded inputs); subscripts are "
             "evaluated integers (arithmetic is C20); Go int as Z. Known findings KF-C33-1..4 (error paths) are pinned witnesses."),
    "design_ref": "DESIGN.md 4 C33",
}
