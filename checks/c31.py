"""C31 Cancelling the context stops any program promptly.

Proof:    coq/Props/C31.v — stop-check discipline of the flag machine (Interp/Flags.v with the context
          oracle) and the wait-for model of blocking operations (Interp/Conc.v).
Code leg: core programs run by the real interp.Runner with the context cancelled deterministically inside
          the Write that brings stdout to B bytes; stdout/variables at return must be those of Flags.v with
          the oracle `Some k` for the least k that lets the model write B bytes (vm_compute in the kernel).
Search:   generated looping / blocking programs x cancellation times, each in a worker subprocess with a
          watchdog: Run must return (no hang), within kill timeout + margin, with an error."""
import json
import re

from vcheck import coq_bytes, coq_list

KILL_TIMEOUT_S = 2.0      # interp.New: DefaultExecHandler(2 * time.Second)  (checked below against the source)
MARGIN_S = 2.0
FUEL = 300
HORIZON = 600
CORE_VARS = ["x", "y", "z", "v", "i", "j", "r"] + ["w%d" % i for i in range(1, 13)]

HEADER = """From Verif Require Import Base.Str Interp.Core Interp.Flags.
From Coq Require Import String.
Open Scope string_scope.
Open Scope N_scope.
Definition FUEL : nat := %d%%nat.
Definition HORIZON : nat := %d%%nat.
Definition names : list str := %s.
Fixpoint bytes_eqb (a b : str) : bool :=
  match a, b with [], [] => true | x :: a', y :: b' => N.eqb x y && bytes_eqb a' b' | _, _ => false end.
Definition optstr_eqb (a b : option str) : bool :=
  match a, b with None, None => true | Some x, Some y => bytes_eqb x y | _, _ => false end.
Definition vars_agree (m g : list (str * str)) : bool :=
  forallb (fun n => optstr_eqb (lookup n m) (lookup n g)) names.
Definition runk (p : prog) (k : option nat) : st := run_prog FUEL p (set_ctx k init_st).
Definition enough (p : prog) (nb : nat) (k : nat) : bool := Nat.leb nb (List.length (out (runk p (Some k)))).
Fixpoint bsearch (n lo hi : nat) (f : nat -> bool) : nat :=
  match n with
  | O => hi
  | S n' => if Nat.leb hi lo then hi else
            let mid := Nat.div2 (lo + hi) in
            if f mid then bsearch n' lo mid f else bsearch n' (S mid) hi f
  end.
(* 0 agree | 1 model stuck | 2 differs | 3 beyond the horizon *)
Definition judge (c : prog * nat * bool * (str * N * list (str * str))) : N :=
  let '(p, nb, cancelled, (gout, gst, gvars)) := c in
  if cancelled then
    if negb (enough p nb HORIZON) then 3 else
    let k := bsearch 12 0 HORIZON (enough p nb) in
    let f := runk p (Some k) in
    if stuck f then 1 else
    if fatalExit (ex f) && bytes_eqb (out f) gout && vars_agree (vars f) gvars then 0 else 2
  else
    let f := runk p None in
    if stuck f then 1 else
    if bytes_eqb (out f) gout && N.eqb (code (ex f)) gst && vars_agree (vars f) gvars then 0 else 2.
"""


def coq_vars(vs):
    return coq_list(["(%s,%s)" % (coq_bytes(n.encode().hex()), coq_bytes(v)) for n, v in sorted(vs.items())])


def code_leg(ctx, binp, n):
    rc, rows, err = ctx.jsonl([binp, "core", "-seed", str(ctx.seed), "-n", str(n)], timeout=600)
    if rc != 0 or not rows:
        ctx.broken.append(("harness-run", "c31 core failed rc=%d %s" % (rc, err[-600:])))
        return
    usable = []
    for r in rows:
        g = r["go"]
        if g.get("hang") or g.get("panic"):
            ctx.fail("run_returns", {"src": r["src"], "cancel_bytes": r["bytes"]}, None, {"go": g})
            continue
        if g.get("parse_err") or g.get("timeout"):
            continue
        cancelled = bool(g.get("cancelled"))
        if cancelled and "context canceled" not in (g.get("err") or ""):
            # cancelled inside the very last write of the program: Run may finish normally
            continue
        if not cancelled and g.get("status", -1) < 0:
            continue
        usable.append(r)
    items = []
    for r in usable:
        g = r["go"]
        st = g["status"] if g["status"] >= 0 else 1
        items.append("(%s,%d%%nat,%s,(%s,%d,%s))" % (r["coq"], r["bytes"], "true" if g.get("cancelled") else "false",
                                                   coq_bytes(g["out"]), st, coq_vars(g.get("vars") or {})))
    text = HEADER % (FUEL, HORIZON, coq_list([coq_bytes(v.encode().hex()) for v in CORE_VARS]))
    text += "Definition cases := %s.\nDefinition R := Eval vm_compute in List.map judge cases.\nPrint R.\n" % coq_list(items)
    ok, out = ctx.coq_cases("c31_core_%d" % ctx.seed, text)
    m = re.search(r"R\s*=\s*\[([^\]]*)\]", out)
    if not ok or not m:
        ctx.broken.append(("correspondence:core-eval", "coqc on generated cases failed: " + out[-1200:]))
        return
    vals = [int(x) for x in re.findall(r"\d+", m.group(1))]
    mism, counted, cancelled_n = [], 0, 0
    for r, v in zip(usable, vals):
        if v in (1, 3):
            continue
        counted += 1
        cancelled_n += 1 if r["go"].get("cancelled") else 0
        ctx.count(1, [r["src"]])
        if v == 2:
            mism.append({"src": r["src"], "cancel_bytes": r["bytes"], "go_out": bytes.fromhex(r["go"]["out"]).decode("latin1"),
                         "go_vars": r["go"].get("vars")})
    ctx.leg("code:interp.Runner cancelled at byte B vs Interp/Flags.v with the context oracle (vm_compute in kernel)",
            counted, mism, "%d of them cancelled before the program ended" % cancelled_n)
    ctx.extra["core_cancelled_cases"] = cancelled_n


def search(ctx, binp, n):
    rc, rows, err = ctx.jsonl([binp, "gen", "-seed", str(ctx.seed), "-n", str(n)], timeout=900)
    if rc != 0 or not rows:
        ctx.broken.append(("harness-run", "c31 gen failed rc=%d %s" % (rc, err[-600:])))
        return
    bound_us = int((KILL_TIMEOUT_S + MARGIN_S) * 1e6)
    worst = 0
    kinds = {}
    for r in rows:
        g = r["go"]
        base = r["kind"].split("+")[0]
        kinds[base] = kinds.get(base, 0) + 1
        inp = {"src": r["src"], "cancel_ms": r["cancel_ms"], "stdin": r.get("stdin", "")}
        if r.get("lang"):
            inp["lang"] = r["lang"]
        if r.get("pre"):
            inp["pre_on_same_runner"] = r["pre"]
        bound_us_case = bound_us
        if r.get("exec_kill_ms") is not None:
            # a real external child (sleep) run by interp.DefaultExecHandler(t): bound = max(t, 0) + margin
            inp["exec_kill_ms"] = r["exec_kill_ms"]
            # (for the short timeouts the margin is 1 s, so that a child killed after the 2 s DEFAULT instead of
            # the configured timeout is out of bound)
            margin = MARGIN_S if r["exec_kill_ms"] >= 1000 else 1.0
            bound_us_case = int((max(r["exec_kill_ms"], 0) / 1000.0 + margin) * 1e6)
            if r.get("files"):
                inp["scratch_files"] = r["files"]
        if g.get("parse_err"):
            ctx.broken.append(("harness-run", "generated program does not parse: %s" % r["src"]))
            continue
        if g.get("panic"):
            ctx.fail("run_panics", inp, None, {"panic": g["panic"]})
            continue
        ctx.count(1, [(r["src"], r["cancel_ms"])])
        if g.get("hang"):
            klass = r.get("class") or None
            if base == "mapfile_blocked":
                klass = "mapfile_blocked_read_not_cancel_aware"
            if base.startswith("exec_grandchild_holds_pipe") and r.get("exec_kill_ms") is not None and r["exec_kill_ms"] <= 0:
                # kill timeout <= 0 (no WaitDelay) + stdout that is not a file (harness buffer / command substitution)
                # + a grandchild that survives the killed child and keeps the pipe open
                klass = "exec_no_wait_delay_grandchild_holds_output_pipe"
            ctx.fail("run_returns_after_cancel", inp, klass, {"watchdog": "no return 6.5 s (+ kill timeout) after the cancellation"})
            continue
        if not g.get("cancelled"):
            continue            # the program ended before the cancellation
        worst = max(worst, g["latency_us"])
        if g["latency_us"] > bound_us_case:
            ctx.fail("latency_within_kill_timeout_plus_margin", inp, None, {"latency_us": g["latency_us"]})
        if g.get("late_bytes", 0) > 0:
            ctx.fail("nothing_written_after_run_returned", inp, None, {"late_bytes": g["late_bytes"]})
        if g.get("status", 0) == 0 and not g.get("err"):
            # narrow class, decided on the syntax tree by the harness (blockedLast): the last command of the
            # main thread is read/wait/select or a loop whose condition is such a read
            klass = "blocked_last_statement_returns_nil" if r.get("blocked_last") else None
            ctx.fail("returns_an_error", inp, klass, {"status": g.get("status"), "err": g.get("err")})
    ctx.extra["worst_latency_us"] = worst
    ctx.extra["kinds"] = kinds
    for r in rows[:3]:
        ctx.sample({"src": r["src"], "cancel_ms": r["cancel_ms"], "latency_us": r["go"].get("latency_us"), "hang": r["go"].get("hang")})


def run(ctx):
    ctx.coq_props()
    # the bound of the property is read from the code: interp.New installs DefaultExecHandler(2 * time.Second)
    from vcheck import REPO
    try:
        api = open(REPO + "/interp/api.go").read()
        m = re.search(r"r\.execHandler = DefaultExecHandler\((\d+) \* time\.Second\)", api)
        if not m or float(m.group(1)) != KILL_TIMEOUT_S:
            ctx.broken.append(("kill-timeout", "default exec kill timeout in interp/api.go is no longer %s s" % KILL_TIMEOUT_S))
    except OSError as ex:
        ctx.broken.append(("kill-timeout", str(ex)))
    binp = ctx.go_build("c31")
    if not binp:
        return
    quick = ctx.tier == "quick"
    ctx.rule = ("search: every base also on a Runner REUSED after a first Run with another, still alive, context (no Reset) "
                "when it loops/blocks inside $(..)/<(..)/>(..) (+ a rotating third of the others); 5 programs blocked in a real "
                "external child (sleep, also ignoring SIGINT) under interp.DefaultExecHandler(t), t in -1,0,150,2000 ms, bound "
                "max(t,0)+2 s; 34 base programs (infinite while/until/for loops, nested loops and functions, subshell, command "
                "substitution, EXIT trap, read/select/mapfile on a pipe that never delivers, background loops + wait, "
                "pipelines of loops, process substitutions read / never read) each once, then random ones wrapped in 0..2 "
                "extra constructs, x cancellation after 0,1,3,10,30,100,250 ms; code leg: core programs repeated 4 times, "
                "cancelled at byte 1..60 of stdout; non-trivial = distinct (program, cancellation)")
    code_leg(ctx, binp, 150 if quick else 1500)
    search(ctx, binp, 100 if quick else 600)
    ctx.assumptions += ["real time is measured, not modelled: bound = default exec kill timeout (2 s, read from interp/api.go) + 2 s",
                        "a case slower than 1.5 s is re-run alone before it counts (load)",
                        "cancellation in the model happens at stop() calls; the harness cancels inside a Write of stdout, "
                        "which the next stop() observes"]


def replay(ctx, obj):
    print(json.dumps(obj, indent=1))
    return 0


META = {
    "category": "proof",
    "text": ("Coq theorems over the flag machine of interp/runner.go with a context oracle: once the context is cancelled "
             "every command, statement, call and loop returns after one observation of the context without any effect "
             "(all programs, all fuel), a list of n statements costs n observations; wait-for model of blocking operations "
             "(readLine cancel-aware, wait and FIFO open not): every thread returns if each blocking operation is cancel-aware "
             "or waits for returning threads, refuted by the faithful annotation for a never-opened process-substitution FIFO "
             "followed by wait. Tied to the code by running core programs with deterministic cancellation against the model in "
             "the kernel; search measures cancel-to-return latency of generated looping/blocking programs under a watchdog."),
    "note": ("External children: only the fixed template `sleep 30` (optionally under /bin/sh with SIGINT ignored) is ever "
             "started, in the worker's own process group which is killed afterwards; generated programs never reach an external "
             "command. Partial: real time and the OS are outside the model; the total unwinding cost over the whole stack is not a single "
             "closed formula. Known findings: process substitution never opened + wait, mapfile blocked on stdin, Run returning "
             "nil when cancelled inside its last blocking builtin."),
    "design_ref": "DESIGN.md 4 C31",
}
