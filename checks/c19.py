"""C19 Pathname expansion matches bash.
Proof: coq/Props/C19.v over the model coq/Expand/Glob.v (Config.glob/globDir on an in-memory file system).
Code leg: expand.Fields with ReadDir2 served from generated in-memory trees vs the model (vm_compute in kernel).
Search: the same kind of trees materialised in a scratch directory, printf '%s\\n' WORD in interp.Runner vs bash 5.2."""
import re
from vcheck import coq_list


def run(ctx):
    ctx.coq_props(extra_targets=["Expand/GlobEq.vo"])
    quick = ctx.tier == "quick"
    binp = ctx.go_build("c19")
    if not binp:
        return
    ngen = 800 if quick else 20000
    nsearch = 2000 if quick else 30000
    ctx.rule = ("trees of 2..6 entries per directory, depth <= 3, names from a pool with dot files, spaces, '*s', upper/lower case, "
                "non-ASCII; symlinks to sibling files/directories and dangling; words of 1..3 components over * ? ?? a* *b ?x .* "
                ".? *.* ** literals . and empty (search: also brackets, classes, quoted parts, extglob, ..); option sets over "
                "dotglob nullglob globstar noglob (search: also nocaseglob extglob); non-trivial = distinct (tree, word, options)")
    rc, rows, err = ctx.jsonl([binp, "gen", "-seed", str(ctx.seed), "-n", str(ngen)], timeout=900)
    if rc != 0 or not rows:
        ctx.broken.append(("harness-run", "c19 gen failed rc=%d %s" % (rc, err[-800:])))
        return
    mism = []
    good = [r for r in rows if r["coq_obs"].startswith(("(GOk", "GErr", "GPanic"))]
    for r in rows:
        if r not in good:
            mism.append({"word": r["word"], "go": r["coq_obs"]})
    total = len(rows) - len(good)
    nontriv = 0
    for sh in range(0, len(good), 500):
        part = good[sh:sh + 500]
        items = ["(%s,%s)" % (r["coq_in"][1:-1], r["coq_obs"]) for r in part]
        text = """From Verif Require Import Base.Str Expand.Param Expand.Glob Expand.GlobEq.
Open Scope N_scope.
Definition cases : list gcase := %s.
Definition M := Eval vm_compute in gmismatches 0 cases.
Print M.
""" % coq_list(items)
        ok, out = ctx.coq_cases("c19_%d_%d" % (ctx.seed, sh), text)
        m = re.search(r"M\s*=\s*(\[[^\]]*\])", out)
        if not ok or not m:
            ctx.broken.append(("correspondence:code-eval", "coqc on generated cases failed: " + out[-1200:]))
            return
        total += len(part)
        for i in [int(x) for x in re.findall(r"\d+", m.group(1))]:
            r = part[i]
            mism.append({"word": r["word"], "opts": r["opts"], "coq_in": r["coq_in"][:1500], "go": r["coq_obs"]})
    for r in good:
        ctx.count(1, [r["coq_in"]] if r["nres"] >= 1 else [])
        if r["nres"] > 1:
            nontriv += 1
    ctx.extra["code_leg_multi_match_cases"] = nontriv
    for r in good[:3]:
        ctx.sample({"word": r["word"], "opts": r["opts"], "go": r["coq_obs"][:200]})
    ctx.leg("code:expand.Fields+ReadDir2(in-memory tree) vs Expand/Glob.v glob_word (vm_compute in kernel)", total, mism)
    # search
    rc, srows, err = ctx.jsonl([binp, "search", "-seed", str(ctx.seed), "-n", str(nsearch)], timeout=3000)
    if rc != 0 or not srows:
        ctx.broken.append(("harness-run", "c19 search failed rc=%d %s" % (rc, err[-800:])))
        return
    for r in srows:
        ctx.count(1, [r["tree"] + "|" + r["script"]])
        for cl in r.get("fails") or []:
            ctx.fail(cl, {"script": r["script"], "tree": r["tree"]}, r.get("class") or None,
                     {"interp": r["interp"], "bash": r["bash"]})
    ctx.leg("oracle:interp.Runner vs bash 5.2 in materialised trees (sampling domain)", len(srows), [])
    rc, wrows, err = ctx.jsonl([binp, "witness"], timeout=300)
    if rc != 0:
        ctx.broken.append(("harness-run", "c19 witness failed rc=%d %s" % (rc, err[-800:])))
        return
    for r in wrows:
        ctx.count(1)
        if r.get("fails"):
            for cl in r["fails"]:
                ctx.fail(cl, {"script": r["script"], "tree": r["tree"]}, r.get("class") or None,
                         {"interp": r["interp"], "bash": r["bash"]})
        elif r.get("expect") == "differs":
            ctx.extra.setdefault("witness_no_longer_differs", []).append(r["script"])
    ctx.assumptions += [
        "bash's collation under LC_ALL=C.UTF-8 is bytewise",
        "the in-memory ReadDir2 of the harness behaves like os.ReadDir (entries sorted by name, symlinks followed in the path, ENOENT/ENOTDIR)",
        "model fragment: relative words over * ? literals / . and empty components; nocaseglob, extglob, brackets, backslashes, .. are search-only",
        "sampling domain of the search excludes the classes listed in notes/C19.md",
    ]


META = {
    "category": "proof",
    "text": ("Coq model of Config.glob/globDir over a finite file-system map (files, directories, symlinks) with ReadDir2 as a function "
             "of it; theorem C19_glob_matches_spec: for words with any number of components (no active **) the result is the bytewise "
             "sorted list of exactly the tree paths whose components match (dot-file rule, wantDir, symlinks, literal components), "
             "plus nullglob/noglob; model tied "
             "to expand.Fields with an in-memory ReadDir2 on every run (in-kernel evaluation); differential search of interp.Runner vs "
             "real bash 5.2 in materialised trees under dotglob/nullglob/globstar/nocaseglob/extglob/noglob."),
    "note": ("Partial: the ** walk is modelled and tied by the code leg and the bash search but not proved against a Spec; "
             "see notes/C19.md. Two expand.go defects repaired (dot-file rule, globstar through symlinks)."),
    "design_ref": "DESIGN.md 4 C19",
}
