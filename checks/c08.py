"""C08 Streaming, interactive and reused parsers agree with Parse.

Proofs (coq/Props/C08.v):
  * C08_reset_covers over Syntax/Reuse.v: state = fields; reset() re-initialises the Reset fields; if every field is
    Config, Reset or WriteFirst (fields_covered table = true) and the run never reads a WriteFirst field before writing it,
    a used instance gives the result of a fresh one.  The table Gen/ParserFields.v is REGENERATED ON EVERY RUN: reflection over
    syntax.Parser / syntax.Printer (hook), go/ast over reset()/New*/option functions/entry points, and a behavioural probe
    (poison each field of a used instance right before an API call; does any result change?).
  * C08_interactive over Syntax/Interactive.v (wrappedReader.Read + InteractiveSeq as a state machine over parser events).
Code legs: Interactive.v evaluated by vm_compute on event traces recorded from the real parser == the real InteractiveSeq
callbacks; poison probe of every Reset field (reset really neutralises it).
Search: StmtsSeq == Parse; InteractiveSeq line by line (deterministic line reader and a real io.Pipe); reuse histories."""
import json
import os
import re

import vcheck


def coq_str(s):
    return '"' + s.replace('"', '""') + '"'


def b(x):
    return "true" if x else "false"


def write_if_changed(path, text):
    old = open(path).read() if os.path.exists(path) else None
    if old != text:
        tmp = path + ".tmp%d" % os.getpid()
        open(tmp, "w").write(text)
        os.replace(tmp, path)


def aborted(ctx, rows, what):
    """the harness guard stopped a run that exceeded its time or memory budget: report what it was working on"""
    for r in rows:
        if "aborted" in r:
            ctx.fail("harness_aborted_" + r["aborted"], {"while": what, "current": r.get("current", "")[:600]}, None,
                     "the parser under test did not return / allocated without bound")
            return True
    return False


def gen_fields(ctx, binp):
    rc, rows, err = ctx.jsonl([binp, "fields", "-seed", "1", "-tier", ctx.tier], timeout=900)
    if aborted(ctx, rows, "fields probe"):
        return []       # no table this run (the stale one stays); the searches below still run and look for a concrete input
    rows = [r for r in rows if "struct" in r]
    if rc != 0 or not rows:
        ctx.broken.append(("gen-table", "c08 fields failed: %s" % err[-600:]))
        return None
    out = ["(* GENERATED on every run by checks/c08.py: reflection over syntax.Parser/syntax.Printer (verif hook), go/ast over",
           "   reset()/New*/option functions/entry points of <repo>/syntax, behavioural poison probe - do not edit. *)",
           "From Coq Require Import List String.", "From Verif Require Import Syntax.Reuse.", "Import ListNotations.",
           "Open Scope string_scope.", ""]
    for st, name in (("Parser", "parser_fields"), ("Printer", "printer_fields")):
        out.append("Definition %s : list frow := [" % name)
        out.append(";\n".join("  mkF %s %s %s %s %s %s" % (coq_str(st), coq_str(r["name"]), b(r["reset_assigns"]), b(r["config"]),
                                                         b(r.get("entry_assigns")), b(r["probe_live"]))
                              for r in rows if r["struct"] == st))
        out.append("].\n")
    write_if_changed(os.path.join(vcheck.COQ, "Gen", "ParserFields.v"), "\n".join(out))
    return rows


def run(ctx):
    os.environ["VERIF_REPO"] = vcheck.REPO
    binp = ctx.go_build("c08")
    if not binp:
        ctx.coq_props()
        return
    frows = gen_fields(ctx, binp)
    ctx.coq_props()
    if frows is None:
        return
    thorough = ctx.tier == "thorough"
    n = "3000" if thorough else "150"
    ctx.rule = ("every 6th (thorough: every) test-table literal of syntax/*_test.go + pinned unterminated inputs; per seed N each of "
                "grammar-generated programs (all variants), POSIX-only programs, byte mutations of corpus/generated programs; "
                "seq: StmtsSeq vs Parse (DeepEqual incl. positions, same error); inter: InteractiveSeq fed one line per Read through a "
                "deterministic line reader and through a real io.Pipe, input as is and newline-terminated; reuse: parser (6 entry "
                "points, option changes, early break of the iterator, erroring/truncated/random earlier inputs) and printer (5 option "
                "sets, partial trees, lone statements, failing writer) histories of 0-4 earlier uses vs a fresh instance; "
                "non-trivial = distinct (mode, input, variant) whose input parses")
    # ---- field table facts for the evidence
    unc = [r for r in frows if not r["reset_assigns"] and not r["config"] and r["probe_live"]]
    ctx.extra["fields"] = {"parser": sum(1 for r in frows if r["struct"] == "Parser"), "printer": sum(1 for r in frows if r["struct"] == "Printer"),
                           "reset": sum(1 for r in frows if r["reset_assigns"]), "config": sum(1 for r in frows if r["config"]),
                           "write_first": [r["struct"] + "." + r["name"] for r in frows if not r["reset_assigns"] and not r["config"] and not r["probe_live"]],
                           "uncovered": [r["struct"] + "." + r["name"] for r in unc]}
    # code leg: every Reset field was poisoned before API calls and no result changed
    reset_rows = [r for r in frows if r["reset_assigns"]]
    ctx.leg("code:poison probe - reset() neutralises every field it assigns (Parser+Printer)", sum(r["probe_cases"] for r in reset_rows),
            [{"field": r["struct"] + "." + r["name"], "witness": r.get("witness")} for r in reset_rows if r["probe_live"]])
    # ---- searches
    for mode in ("seq", "inter", "reuse"):
        rc, rows, err = ctx.jsonl([binp, mode, "-seed", str(ctx.seed), "-tier", ctx.tier, "-n", n], timeout=2400)
        ab = aborted(ctx, rows, mode)
        rows = [r for r in rows if "mode" in r]
        if (rc != 0 and not ab) or not rows:
            ctx.broken.append(("harness-run", "c08 %s failed rc=%d %s" % (mode, rc, err[-800:])))
            return
        for r in rows:
            ctx.count(1, [(r["mode"], r["hex"], r["lang"])] if r.get("valid") else [])
            for cl in r.get("fails") or []:
                klass = None
                if cl == "interactive_statements_differ" and r.get("class") == "interactive_last_line_without_newline":
                    klass = "interactive_last_line_without_newline"
                ctx.fail(cl, {"hex": r["hex"], "text": bytes.fromhex(r["hex"]).decode("utf-8", "replace")[:200], "lang": r["lang"],
                              "mode": r["mode"]}, klass, r.get("note"))
        ctx.extra["cases_" + mode] = len(rows)
        if mode == "inter":
            for r in [r for r in rows if r.get("valid") and r["nstmt"] > 1][:2]:
                ctx.sample({"mode": "inter", "text": bytes.fromhex(r["hex"]).decode("utf-8", "replace")[:80], "lang": r["lang"], "stmts": r["nstmt"]})
    # ---- code leg: Interactive.v on recorded event traces vs the real callbacks
    rc, trows, err = ctx.jsonl([binp, "trace", "-seed", str(ctx.seed), "-tier", ctx.tier, "-n", "1500" if thorough else "150"], timeout=1200)
    aborted(ctx, trows, "trace")
    trows = [r for r in trows if r.get("mode") == "trace"]
    mism = []

    def ev(e):
        if e[0] == 0:
            return "ERead %s %d %s" % (b(e[1]), e[2], b(e[3]))
        return "EStmt %d %s %s %d %s" % (e[1], b(e[2]), b(e[3]), e[4], b(e[5]))
    for sh in range(0, len(trows), 1000):
        part = trows[sh:sh + 1000]
        items = []
        for r in part:
            items.append("([%s], [%s])" % (";".join(ev(e) for e in r["events"]),
                                           ";".join("(%d,%s,%s)" % (o[0], b(o[1]), b(o[2])) for o in (r["outs"] or []))))
        text = """From Coq Require Import List Bool Arith.
From Verif Require Import Syntax.Interactive.
Import ListNotations.
Definition cases : list (list event * list (nat * bool * bool)) := [%s].
Definition obs (o : out) := (length (o_batch o), o_inc o, o_err o).
Fixpoint leq (a b : list (nat * bool * bool)) : bool :=
  match a, b with [], [] => true
  | (n1,i1,e1) :: a', (n2,i2,e2) :: b' => Nat.eqb n1 n2 && Bool.eqb i1 i2 && Bool.eqb e1 e2 && leq a' b'
  | _, _ => false end.
Fixpoint mism (i : nat) (cs : list (list event * list (nat * bool * bool))) : list nat :=
  match cs with [] => [] | (tr, want) :: r => if leq (map obs (snd (run init tr))) want then mism (S i) r else i :: mism (S i) r end.
Definition M := Eval vm_compute in mism 0 cases.
Print M.
""" % ";\n".join(items)
        ok, out = ctx.coq_cases("c08_%d_%d" % (ctx.seed, sh), text)
        m = re.search(r"M\s*=\s*(\[[^\]]*\])", out)
        if not ok or not m:
            ctx.broken.append(("correspondence:code-eval", "coqc on generated cases failed: " + out[-800:]))
            return
        for i in [int(x) for x in re.findall(r"\d+", m.group(1))]:
            mism.append({"hex": part[i]["hex"], "lang": part[i]["lang"], "events": part[i]["events"][:20], "real": part[i]["outs"]})
    ctx.leg("code:Syntax/Interactive.v (vm_compute) on event traces recorded from the real parser vs real InteractiveSeq callbacks",
            len(trows), mism)
    ctx.assumptions += [
        "Reuse.v: the run's independence of WriteFirst fields (write_first_frame) is a hypothesis of the theorem; evidence = poison probe "
        "(and go/ast for fields assigned by every entry point); the probe is testing, not proof",
        "StopAt cannot be switched off through the API (StopAt(\"\") stops at every word): reuse histories keep one StopAt per instance",
        "Interactive.v abstracts the parser into its event trace (Read entries and statement yields with the four values "
        "wrappedReader/InteractiveSeq look at), recorded through the verif hook VerifInteractiveState",
    ]


def replay(ctx, obj):
    print(json.dumps(obj, indent=1)[:4000])
    return 0


META = {
    "category": "proof",
    "text": ("Reuse: Coq theorem that a used Parser/Printer equals a fresh one when every field is configuration, re-initialised by "
             "reset(), or written before read; the per-field classification is regenerated on every run (reflection + go/ast + poison "
             "probe) and re-checked by vm_compute. Interactive: Coq state machine of wrappedReader.Read/InteractiveSeq with theorem that "
             "the complete batches partition the statement sequence and Incomplete callbacks only arise at a line end where the parser "
             "is incomplete; the model is run in the kernel on event traces recorded from the real parser and compared with the real "
             "callbacks. Search: StmtsSeq vs Parse, line-by-line InteractiveSeq (line reader + io.Pipe), parser/printer reuse histories."),
    "note": ("Partial: the parser body is abstract in both models. Known finding: statements on a last line without a terminating "
             "newline are never handed out by InteractiveSeq."),
    "design_ref": "DESIGN.md 4 C08",
}
