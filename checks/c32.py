"""C32 Concurrent shell features are race-free.
Proof: coq/Props/C32.v — ownership theorems over the same model as C27 (Interp/Isolation.v) and the bgProcs/wait
model. The Go memory model is not modelled: these are model-level theorems (partial).
Code leg: (a) the background-copy half of the C27 correspondence (programs in interp.Runner vs the model, contexts
<( ) >( ) | & Runner.Subshell); (b) `wait gN` statuses observed in the interpreter vs the wait model in the kernel.
Search: a -race build of the harness runs generated concurrent programs (background jobs, pipelines, process and command
substitutions, Runner.Subshell copies run concurrently with their parent) with random sleeps/yields injected by the
harness' CallHandler/ExecHandler at every command; any race report is a failure. `wait gN` under random completion
orders."""
import re

import c27
from vcheck import coq_list


def run(ctx):
    import time
    tm = ctx.extra.setdefault("timing", {})
    t0 = time.time()
    ctx.coq_props(extra_targets=["Interp/IsolationCheck.vo"])
    tm["coq_props"] = round(time.time() - t0, 1)
    quick = ctx.tier == "quick"
    t0 = time.time()
    binp = ctx.go_build("c32", race=True)
    race = True
    if not binp:
        # cgo / race runtime unavailable: fall back to the plain build (schedule perturbation + wait statuses only)
        ctx.broken[:] = [b for b in ctx.broken if b[0] != "go-build"]
        binp = ctx.go_build("c32")
        race = False
        ctx.assumptions.append("race detector build unavailable in this environment: search ran WITHOUT -race")
    bin27 = ctx.go_build("c27")
    tm["go_build"] = round(time.time() - t0, 1)
    if not binp or not bin27:
        return
    t0 = time.time()
    ngen = 260 if quick else 6000
    nwait = 80 if quick else 1500
    rc, rows, err = ctx.jsonl([binp, "gen", "-seed", str(ctx.seed), "-n", str(ngen)], timeout=3000)
    rc2, wrows, err2 = ctx.jsonl([binp, "wait", "-seed", str(ctx.seed), "-n", str(nwait)], timeout=3000)
    rc3, crows, err3 = ctx.jsonl([bin27, "gen", "-seed", str(ctx.seed + 1000), "-n", str(105 if quick else 1400)], timeout=1500)
    rc4, vrows, err4 = ctx.jsonl([binp, "vis"], timeout=1500)
    if rc4 or len(vrows) < 30:
        ctx.broken.append(("harness-run", "c32 vis mode failed rc=%d rows=%d %s" % (rc4, len(vrows), err4[-500:])))
    rows = rows + vrows
    tm["harness"] = round(time.time() - t0, 1)
    if rc or rc2 or rc3 or not rows or not wrows or not crows:
        ctx.broken.append(("harness-run", "c32 harness failed rc=%d/%d/%d %s" % (rc, rc2, rc3, (err + err2 + err3)[-800:])))
        return
    ctx.extra["race_build"] = race and all(r.get("race_build") for r in rows)
    if race and not ctx.extra["race_build"]:
        ctx.broken.append(("race-build", "harness reports it was not built with -race"))
    ctx.rule = ("gen: 2..5 parent operations, then 1..3 concurrent constructs (`{..} &`, `{..} | {..}`, `<( )`, `>( )`, command "
                "substitutions inside background jobs, nested background jobs) whose bodies are 1..4 mutating operations "
                "(same vocabulary as C27: scalar/array/assoc assignment, +=, element writes, unset, declare/export/readonly, "
                "shift, set --, cd/pushd/popd, alias, functions, options) while the parent runs 1..3 operations on the same "
                "names, then wait; every 5th case runs 1..3 Runner.Subshell copies in goroutines concurrently with the parent; "
                "a `:` between operations gives the harness a yield point (random sleep/Gosched). wait: 2..5 jobs with random "
                "statuses and completion delays, waited for in random order. gen placements: top level, whole program inside a "
                "function body (with locals), jobs started by a function that returns while they run, jobs started inside a "
                "foreground ( ) that they outlive; jobs also read the whole environment (`__snap`). vis: deterministic matrix, "
                "4 non-blocking constructs x 7 placements + pipe/<( ) x 2 + Runner.Subshell: the copy waits at a gate (harness "
                "ExecHandler) until the running shell has changed every kind of state and must still see the state it was "
                "started with. non-trivial = distinct program text")
    skipped = 0
    for r in rows + wrows:
        ctx.count(1, [r["prog"]])
        if r.get("panic") or (r.get("hang") and r["mode"] == "gen" and not r.get("fails")):
            skipped += 1      # interpreter crash / hang: C28 / C31 territory, not a race verdict
        for cl in r.get("fails") or []:
            ctx.fail(cl, {"prog": r["prog"]}, r.get("class") or None,
                     {"race": (r.get("race") or "")[:3000], "want": r.get("want"), "got": r.get("got")})
    ctx.extra["skipped_panic_or_hang"] = skipped
    for r in rows[:2] + wrows[:1]:
        ctx.sample({"mode": r["mode"], "prog": r["prog"][:500], "fails": r.get("fails")})
    # ---- code leg (a): background-copy correspondence, same model as the theorems
    good = [r for r in crows if r["bg"] and r.get("snaps") and all(k in r["snaps"] for k in ("init", "p0", "c", "p1")) and not r.get("err")]
    t0 = time.time()
    total, mism = c27.code_leg(ctx, good, "c32")
    ctx.leg("code:background copies in interp.Runner vs Interp/Isolation.v (vm_compute in kernel)", total, mism)
    # ---- code leg (b): wait statuses vs the wait model
    items, used = [], []
    for r in wrows:
        if r.get("fails") or r.get("panic") or r.get("hang"):
            continue
        if r.get("id", 0) >= 100000:
            continue    # pinned corpus programs (multi-operand / bare wait): checked against their expected output only
        sts = [int(x) for x in re.findall(r"exit (\d+);", r["prog"])]
        waits = [int(x) for x in re.findall(r"wait g(\d+)", r["prog"])]
        got = r["got"].split()
        if len(got) != len(waits):
            continue
        used.append(r)
        items.append("(%s,%s,%s)" % (coq_list(["%d%%N" % s for s in sts]), coq_list([str(w) for w in waits]),
                                   coq_list(["%d%%N" % int(g) for g in got])))
    text = """From Verif Require Import Base.Str Base.GoSlice Interp.Isolation.
Definition all_done (sts : list N) : list event :=
  map ESpawn sts ++ map EStep (rev (seq 0 (length sts))) ++ map EStep (seq 0 (length sts)).
Definition chk (c : list N * list nat * list N) : bool :=
  let '(sts, waits, got) := c in
  let js := run_events (all_done sts) [] in
  (fix go (ws : list nat) (gs : list N) : bool :=
     match ws, gs with
     | [], [] => true
     | w :: ws', g :: gs' =>
         (match wait_result js w with
          | Some (Ok st) => N.eqb st g
          | Some (Err _) => N.eqb g 1
          | _ => false end) && go ws' gs'
     | _, _ => false
     end) waits got.
Definition cases : list (list N * list nat * list N) := %s.
Fixpoint bad (i : nat) (cs : list (list N * list nat * list N)) : list nat :=
  match cs with [] => [] | c :: r => if chk c then bad (S i) r else i :: bad (S i) r end.
Definition M := Eval vm_compute in bad 0%%nat cases.
Print M.
""" % coq_list(items)
    import os
    ok, out = ctx.coq_cases("c32_wait_%d" % os.getpid(), text)
    try:
        os.remove(os.path.join(os.path.dirname(os.path.dirname(os.path.abspath(__file__))), "coq", "Cases", "c32_wait_%d.v" % os.getpid()))
    except OSError:
        pass
    m = re.search(r"M\s*=\s*(\[[^\]]*\])", out)
    if not ok or not m:
        ctx.broken.append(("correspondence:wait-eval", "coqc on wait cases failed: " + out[-800:]))
    else:
        idx = [int(x) for x in re.findall(r"\d+", m.group(1))]
        ctx.leg("code:wait gN statuses in interp.Runner vs wait model (vm_compute in kernel)", len(used),
                [{"prog": used[i]["prog"], "got": used[i]["got"]} for i in idx])
    tm["code_legs"] = round(time.time() - t0, 1)
    ctx.assumptions += [
        "The Go memory model is NOT modelled: C32 theorems are ownership statements about a sequentially consistent heap "
        "model; data-race freedom of the real binary rests on the race-detector runs (explored schedules only)",
        "C32_no_shared_writes_parent_partial is thread-modular: the interleaved two-thread execution and read sets are not modelled",
        "schedule perturbation comes from the harness' own handlers (sleep/Gosched at every command), no yield hooks inside interp",
    ]


def replay(ctx, obj):
    import json
    print(json.dumps(obj, indent=1))
    return 0


META = {
    "category": "proof+search",
    "technique": "Coq ownership theorems (model level) + race-detector search with schedule perturbation",
    "text": ("Model-level Coq theorems on the C27 heap model: a background copy (job, pipeline stage, process substitution, "
             "Runner.Subshell) never stores into a cell that existed when it was created, for every operation list; for every "
             "interleaving of parent and copy operations (C32_no_shared_writes, any schedule) no thread writes a shared cell or a "
             "cell of the other thread and no root pointer crosses; C32_copy_unaffected_by_parent holds under a pointer-closure "
             "hypothesis on the fork state (instantiated on a concrete parent, not discharged in general); `wait gN` returns "
             "job N's status for every interleaving of job starts and completions (bgProcs append-only, exit written before done "
             "is closed). Search: the harness built with -race runs generated concurrent programs with random sleeps/yields at "
             "every command; race reports and wrong wait statuses are failures."),
    "note": ("PARTIAL: the Go memory model is not modelled; real data-race freedom rests on the race detector over the explored "
             "schedules. The shared-backing-array write `a+=z` (fixed in d35f0af) was the one race found."),
    "design_ref": "DESIGN.md 4 C32",
}
