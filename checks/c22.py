"""C22 Field splitting and quote removal match bash.
Proof: coq/Props/C22.v over the model coq/Expand/Fields.v (wordFields: flush/delimit/splitAdd, "$@", "$*", unquoted $@/$*).
Code leg: expand.Fields on generated (IFS, word) vs the Coq model evaluated by vm_compute on the same words.
Search: in-process interp.Runner and expand.Fields vs real bash 5.2 on generated, unmodelled ("wild") and pinned words."""
import re
from vcheck import coq_list


def nl(v):
    return "[" + ";".join(str(x) for x in v) + "]"


def nll(vs):
    return "[" + ";".join(nl(v) for v in vs) + "]"


def coq_part(p):
    k = p["k"]
    if k == "lit":
        return "PLit " + nl(p.get("v") or [])
    if k == "sgl":
        return "PSgl " + nl(p.get("v") or [])
    if k == "exp":
        return "PExp " + nl(p.get("v") or [])
    if k == "dbl":
        return "PDbl " + nll(p.get("vs") or [])
    if k == "at":
        return "PAt " + nll(p.get("vs") or [])
    if k == "star":
        return "PStar " + nll(p.get("vs") or [])
    if k == "ulist":
        return "PUList " + nll(p.get("vs") or [])
    if k == "dblmix":
        return "PDblMix " + coq_list(["DList " + nll(it.get("es") or []) if it.get("list") else "DVal " + nl(it.get("v") or [])
                                      for it in (p.get("items") or [])])
    raise ValueError(k)


CASES_V = """From Verif Require Import Base.Str Expand.Fields.
Open Scope N_scope.
Definition cases : list (option str * list part * list str) := %s.
Fixpoint sl_eqb (a b : list str) : bool :=
  match a, b with [], [] => true | x :: a', y :: b' => str_eqb x y && sl_eqb a' b' | _, _ => false end.
Fixpoint mism (i : nat) (cs : list (option str * list part * list str)) : list nat :=
  match cs with [] => []
  | (oifs, ps, want) :: rest =>
     if sl_eqb (word_fields oifs ps) want then mism (S i) rest else i :: mism (S i) rest end.
Definition M := Eval vm_compute in mism 0 cases.
Print M.
"""


SEQ_V = """From Verif Require Import Base.Str Expand.Fields.
Open Scope N_scope.
Definition seqs : list (list (option str * list part) * list (list str)) := %s.
Fixpoint sl_eqb (a b : list str) : bool :=
  match a, b with [], [] => true | x :: a', y :: b' => str_eqb x y && sl_eqb a' b' | _, _ => false end.
Fixpoint sll_eqb (a b : list (list str)) : bool :=
  match a, b with [], [] => true | x :: a', y :: b' => sl_eqb x y && sll_eqb a' b' | _, _ => false end.
Fixpoint mism (i : nat) (cs : list (list (option str * list part) * list (list str))) : list nat :=
  match cs with [] => []
  | (calls, want) :: rest =>
     if sll_eqb (fields_seq [] calls) want then mism (S i) rest else i :: mism (S i) rest end.
Definition M := Eval vm_compute in mism 0 seqs.
Print M.
"""


def run(ctx):
    ctx.coq_props()
    quick = ctx.tier == "quick"
    n_gen = 1500 if quick else 40000
    n_wild = 500 if quick else 12000
    n_seq = 300 if quick else 5000
    binp = ctx.go_build("c22")
    if not binp:
        return
    streams = {}
    for mode, n in (("gen", n_gen), ("wild", n_wild), ("seq", n_seq), ("pinned", 0)):
        rc, rows, err = ctx.jsonl([binp, mode, "-seed", str(ctx.seed), "-n", str(n)], timeout=1500)
        if rc != 0 or not rows:
            ctx.broken.append(("harness-run", "c22 %s failed rc=%d %s" % (mode, rc, err[-800:])))
            return
        streams[mode] = rows
    ctx.rule = ("IFS drawn from unset/empty/default/whitespace/non-whitespace/mixed/multi-byte values; words of 1..4 parts "
                "(unquoted literal incl. backslash escapes, '..', \"..\" with literal and ${v} pieces incl. \"\", \"..$@..\", ${v}, $((n)), "
                "\"$@\", \"$*\", $@/$*; wild stream adds $(..), `..`, invalid UTF-8, arrays); values of 0..6 characters, 40% of them IFS characters, "
                "at the start, middle and end; 0..3 positional parameters; seq stream: 2..3 such words run one after the other by ONE bash, "
                "ONE Runner and ONE expand.Config while IFS changes in between (custom value, then unset / empty / another value); non-trivial = distinct (IFS, word, values) whose "
                "expansion yields at least two fields or an empty field")
    # ---- search: Go (interp and expand.Fields) vs bash
    no_oracle = 0
    for mode, rows in streams.items():
        for r in rows:
            key = (r["ifs_hex"], r["ifs_set"], r["src"], tuple(r["vars_hex"]), tuple(r["params_hex"]))
            nontrivial = "<>" in r["bash"][1:] or (r["bash"][:1].isdigit() and not r["bash"].startswith(("0<", "1<")))
            ctx.count(1, [key] if nontrivial else [])
            if r.get("no_oracle"):
                no_oracle += 1
            for cl in r.get("fails") or []:
                ctx.fail(cl, {"script": r.get("seq_script") or r["script"], "step": r.get("seq_pos", 0)}, r.get("class") or None,
                         {"interp": r["interp"], "expand_fields": r["fields_s"], "bash": r["bash"]})
    for r in streams["gen"][:3]:
        ctx.sample({"script": r["script"], "go": r["interp"], "bash": r["bash"]})
    ctx.extra["cases_without_bash_oracle"] = no_oracle
    # pinned witnesses of the known findings must still fail the same way
    seen = set(r.get("class") for r in streams["pinned"] if r.get("fails"))
    superseded = set(k["id"] for k in ctx.known if k["status"] == "fixed")
    for k in ctx.known:
        if k["status"] == "known" and k["id"] not in superseded and k["class"] not in seen and k.get("witness", {}).get("pinned"):
            ctx.broken.append(("known-finding-witness", "pinned witness of %s no longer fails: update known_findings" % k["id"]))
    # ---- code leg: expand.Fields vs the Coq model, in the kernel
    rows = [r for m in ("gen", "wild", "seq") for r in streams[m] if r["modelled"] and isinstance(r["fields"], list)]
    notlist = [r for m in ("gen", "wild", "seq") for r in streams[m] if r["modelled"] and not isinstance(r["fields"], list)]
    mism = [{"script": r["script"], "go": r["fields"]} for r in notlist]
    total = len(notlist)
    for sh in range(0, len(rows), 1500):
        part = rows[sh:sh + 1500]
        items = []
        for r in part:
            oifs = "Some " + nl(r["ifs"]) if r["ifs_set"] else "None"
            items.append("(%s,%s,%s)" % (oifs, coq_list([coq_part(p) for p in r["parts"]]), nll(r["fields"])))
        ok, out = ctx.coq_cases("c22_%d_%d" % (ctx.seed, sh), CASES_V % coq_list(items))
        total += len(part)
        m = re.search(r"M\s*=\s*(\[[^\]]*\])", out)
        if not ok or not m:
            ctx.broken.append(("correspondence:code-eval", "coqc on generated cases failed: " + out[-800:]))
            return
        for i in (int(x) for x in re.findall(r"\d+", m.group(1))):
            r = part[i]
            mism.append({"script": r["script"], "parts": r["parts"], "go_fields": r["fields_s"]})
    ctx.leg("code:expand.Fields vs Expand/Fields.v word_fields (vm_compute in kernel)", total, mism)
    # ---- code leg 2: sequences of calls on ONE expand.Config with a changing environment vs fields_seq
    groups = {}
    for r in streams["seq"]:
        groups.setdefault(r["seq"], []).append(r)
    seqs = [g for g in groups.values() if all(r["modelled"] and isinstance(r["fields"], list) for r in g)]
    smism = []
    for sh in range(0, len(seqs), 500):
        part = seqs[sh:sh + 500]
        items = []
        for g in part:
            calls = coq_list(["(%s,%s)" % ("Some " + nl(r["ifs"]) if r["ifs_set"] else "None",
                                           coq_list([coq_part(p) for p in r["parts"]])) for r in g])
            items.append("(%s,%s)" % (calls, coq_list([nll(r["fields"]) for r in g])))
        ok, out = ctx.coq_cases("c22seq_%d_%d" % (ctx.seed, sh), SEQ_V % coq_list(items))
        m = re.search(r"M\s*=\s*(\[[^\]]*\])", out)
        if not ok or not m:
            ctx.broken.append(("correspondence:code-eval", "coqc on generated sequences failed: " + out[-800:]))
            return
        for i in (int(x) for x in re.findall(r"\d+", m.group(1))):
            smism.append({"script": part[i][0]["seq_script"], "go_fields": [r["fields_s"] for r in part[i]]})
    ctx.leg("code:sequences on one expand.Config vs fields_seq (vm_compute in kernel)", len(seqs), smism)
    ctx.assumptions += [
        "strings are modelled as lists of code points; the code leg feeds valid UTF-8 only (invalid bytes: search only)",
        "tilde expansion, globbing, brace expansion and the expansion of the parts themselves are outside the model",
        "bash 5.2 is not consulted where it mishandles multi-byte IFS characters bytewise (IFS with a multi-byte character and "
        "white space; a multi-byte IFS character in quoted text); there only Go vs model and interp vs expand.Fields are checked",
    ]


def replay(ctx, obj):
    import json
    print(json.dumps(obj, indent=1))
    return 0


META = {
    "category": "proof",
    "text": ("Coq theorems over a transliterated model of Config.wordFields (flush/delimit/splitAdd, quoted \"$@\"/\"$*\", unquoted "
             "$@/$*, ifsJoin): for every IFS and every word of already expanded parts the fields equal POSIX 2.6.5 splitting of the "
             "flattened word (three-state reading) and, for one unquoted value, a text-book chunked splitter; quote removal, "
             "\"$@\"/\"$*\" theorems. Model tied to expand.Fields on every run (vm_compute in the kernel on the harness' cases); "
             "interp and expand.Fields compared with bash 5.2 on generated, unmodelled and pinned words."),
    "note": ("Trusted: Coq kernel + vm_compute; hand-written model (tie = differential testing); bash as oracle except where it is "
             "bytewise wrong for multi-byte IFS. Known finding: bash's missing leading empty field in words with $@/$* that "
             "begin with IFS whitespace + non-whitespace IFS (Go follows POSIX/dash)."),
    "design_ref": "DESIGN.md 4 C22",
}
