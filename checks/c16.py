"""C16 Brace expansion matches bash.
Proof: coq/Props/C16.v over the model coq/Expand/Braces.v (SplitBraces, printer rendering, bracesSeqRec/BracesSeq,
and bash's brace_expand as Spec).
Code leg: syntax.SplitBraces (flag, part tree) and expand.BracesSeq (word list / limit error) vs the Coq model, and the
harness' Go port of bash's algorithm vs the Coq Spec, evaluated inside the kernel (vm_compute) on the same words.
Oracle leg: the Go port of bash's algorithm vs real bash 5.2 on every word sent to bash.
Search: Go (SplitBraces + Printer, BracesSeq, expand.Fields with an empty environment) vs bash / the law itself, on
pinned words, exhaustive short words, structured random words and mutations."""
import json
import os
import re

from vcheck import coq_bytes, coq_list

KNOWN_CLASSES = {
    "bash_close_brace_needs_comma", "bash_nested_comma_only", "bash_seq_overflow_guard_literal",
    "bash_failed_seq_keeps_nested_braces",
}


def coq_word(parts):
    out = []
    for p in parts:
        if p.get("b"):
            out.append("PBrace %s %s" % ("true" if p.get("s") else "false",
                                         coq_list([coq_word(e) for e in (p.get("e") or [])])))
        else:
            out.append("PLit %s" % coq_bytes(p.get("l") or ""))
    return coq_list(out)


def coq_exp(r):
    if r["experr"] == "E":
        return "(Err E_LIMIT)"
    if r["experr"] == "P":
        return "Panic"
    return "(Ok %s)" % coq_list([coq_list([coq_bytes(x) for x in w]) for w in r["exp"]])


def coq_spec(r):
    if r["many"]:
        return "Many"
    return "(Words %s)" % coq_list([coq_bytes(x) for x in r["spec"]])


CASE_HDR = """From Verif Require Import Base.Str Expand.Braces.
Open Scope N_scope.
Fixpoint part_eqb (a b : part) : bool :=
  match a, b with
  | PLit x, PLit y => str_eqb x y
  | PBrace s1 e1, PBrace s2 e2 =>
      Bool.eqb s1 s2 &&
      (fix elems (l1 l2 : list (list part)) : bool :=
         match l1, l2 with
         | [], [] => true
         | w1 :: l1', w2 :: l2' =>
             (fix parts (p1 p2 : list part) : bool :=
                match p1, p2 with
                | [], [] => true
                | x :: p1', y :: p2' => part_eqb x y && parts p1' p2'
                | _, _ => false
                end) w1 w2 && elems l1' l2'
         | _, _ => false
         end) e1 e2
  | _, _ => false
  end.
Fixpoint word_eqb (a b : list part) : bool :=
  match a, b with [], [] => true | x :: a', y :: b' => part_eqb x y && word_eqb a' b' | _, _ => false end.
Fixpoint sl_eqb (a b : list str) : bool :=
  match a, b with [], [] => true | x :: a', y :: b' => str_eqb x y && sl_eqb a' b' | _, _ => false end.
Fixpoint sll_eqb (a b : list (list str)) : bool :=
  match a, b with [], [] => true | x :: a', y :: b' => sl_eqb x y && sll_eqb a' b' | _, _ => false end.
Definition exp_eqb (a b : res (list (list str))) : bool :=
  match a, b with Ok x, Ok y => sll_eqb x y | Err c, Err d => c =? d | Panic, Panic => true | _, _ => false end.
Definition spec_eqb (a b : sres) : bool :=
  match a, b with Many, Many => true | Words x, Words y => sl_eqb x y | _, _ => false end.
(* per case: 1 = split differs, 2 = expansion differs, 4 = render differs, 8 = Spec differs, 16 = class twin differs (not compared above the limit: the harness stops early there) *)
Definition check1 (c : str * bool * list part * res (list (list str)) * sres * (bool * bool * bool * bool)) : N :=
  let '(w, flag, tree, ex, sp, (skf, ncf, sgf, fsf)) := c in
  let '(mflag, mtree) := split_braces w in
  (if Bool.eqb mflag flag && word_eqb mtree tree then 0 else 1)
  + (if exp_eqb (expand mtree) ex then 0 else 2)
  + (if str_eqb (render mtree) w && str_eqb (print mtree) (print_lit w) then 0 else 4)
  + (if spec_eqb (spec w) sp then 0 else 8)
  + (match sp with Many => 0 | _ =>
       (if Bool.eqb (skipped_close w) skf then 0 else 16) + (if Bool.eqb (nested_comma_only w) ncf then 0 else 32)
       + (if Bool.eqb (seq_guard w) sgf then 0 else 64) + (if Bool.eqb (failed_seq_nested w) fsf then 0 else 128) end).
Fixpoint mism (i : nat) (cs : list (str * bool * list part * res (list (list str)) * sres * (bool * bool * bool * bool))) : list (nat * N) :=
  match cs with [] => []
  | c :: rest => match check1 c with 0 => mism (S i) rest | k => (i, k) :: mism (S i) rest end end.
"""


def run(ctx):
    ctx.coq_props()
    thorough = ctx.tier == "thorough"
    binp = ctx.go_build("c16")
    if not binp:
        return
    n = 400 if not thorough else 12000
    rc, rows, err = ctx.jsonl([binp, "run", "-seed", str(ctx.seed), "-n", str(n), "-tier", ctx.tier],
                              timeout=3000 if thorough else 600)
    summ = [r["summary"] for r in rows if "summary" in r]
    herr = [r for r in rows if "harness_error" in r]
    if rc != 0 or not summ or herr:
        ctx.broken.append(("harness-run", "c16 harness failed rc=%d %s %s" % (rc, json.dumps(herr)[:600], err[-600:])))
        return
    summ = summ[0]
    rows = [r for r in rows if "word" in r]
    ctx.rule = ("words = one literal each: (i) pinned list (repo test literals, witnesses of fixed defects and listed findings, "
                "limit/overflow edges); (ii) ALL words of length 1..5 over the 11 characters { } , . - \\ 0 1 9 a z "
                "(quick: all up to length 4 and a seed-rotated 1/8 of length 5; brace-free words thinned to 1/16); "
                "(iii) all words of length 6..7 (thorough: up to 9) over 4..7-character sub-alphabets that spell sequences "
                "and nesting (quick: a seed-rotated quarter); (iv) seeded random words from a grammar of plain runs, "
                "comma groups, nested groups and numeric/letter sequences with steps (0, negative, +n, int64 edge values, "
                "zero padding), plus single-edit mutations with metacharacters. Excluded from bash (Go vs Go-side Spec only): "
                "words ending in an odd number of backslashes, expansions above the limit, zero-padded sequences with a "
                "value outside int32 (bash 5.2 formats (int)n there). Non-trivial = SplitBraces found a brace expansion.")
    ctx.count(summ["Words"])
    ctx.nontrivial = set(range(summ["Nontrivial"]))
    ctx.extra["harness_summary"] = summ
    # ---- search + oracle leg (judged in the harness, word by word)
    oracle_mism = []
    for r in rows:
        fails = r.get("fails") or []
        if not fails:
            continue
        w = bytes.fromhex(r["word"]).decode("latin1")
        if any(f.startswith("ORACLE_") for f in fails):
            oracle_mism.append({"word": w, "spec": r.get("spec"), "bash": r.get("bash")})
            continue
        klass = r.get("class") or None
        if klass not in KNOWN_CLASSES:
            klass = None
        detail = {"feat": r.get("feat"), "go_fields": r.get("fields"), "go_err": r.get("ferr"), "exp_err": r.get("experr"),
                  "bash": r.get("bash"), "spec": r.get("spec") if r.get("spec") is None or len(r["spec"]) < 20 else "..."}
        ctx.fail("+".join(fails), {"word": w, "word_hex": r["word"]}, klass, detail)
    ctx.leg("oracle: Go port of bash's brace_expand (mirror of the Coq Spec) vs bash 5.2", summ["Bash"], oracle_mism,
            note="every word sent to bash; a mismatch means the Spec misdescribes bash")
    # ---- code leg: model vs Go inside the kernel
    sample = [r for r in rows if r.get("coq") == 1]
    for r in sample[:4]:
        ctx.sample({"word": bytes.fromhex(r["word"]).decode("latin1"), "flag": r["flag"], "tree": r["tree"],
                    "go_fields_hex": r["fields"], "bash_hex": r.get("bash")})
    mism = []
    total = 0
    shard = 1500
    for sh in range(0, len(sample), shard):
        part = sample[sh:sh + shard]
        items = []
        for r in part:
            items.append("(%s,%s,%s,%s,%s,%s)" % (coq_bytes(r["word"]), "true" if r["flag"] else "false",
                                                  coq_word(r["tree"]), coq_exp(r), coq_spec(r),
                                                  "(%s,%s,%s,%s)" % tuple("true" if k in (r.get("feat") or "") else "false" for k in
                                                                          ("skippedClose", "nestedComma", "seqGuard", "failedSeqNested"))))
        text = (CASE_HDR.replace("Expand.Braces.", "Expand.Braces Proofs.BracesSimProofs.")
                + "Definition cases := %s.\nDefinition M := Eval vm_compute in mism 0 cases.\nPrint M.\n"
                  "Definition NR := Eval vm_compute in length (filter (fun c => regular (fst (fst (fst (fst (fst c)))))) cases).\nPrint NR.\n") % coq_list(items)
        ok, out = ctx.coq_cases("c16_%d_%d_%d" % (ctx.seed, os.getpid(), sh), text, timeout=1800)
        m = re.search(r"M\s*=\s*(\[.*?\])\s*:", out, re.S)
        if not ok or not m:
            ctx.broken.append(("correspondence:code-eval", "coqc on generated cases failed: " + out[-800:]))
            return
        total += len(part)
        mr = re.search(r"NR\s*=\s*(\d+)", out)
        if mr:
            ctx.extra["sampled_words_in_proved_regular_scope"] = ctx.extra.get("sampled_words_in_proved_regular_scope", 0) + int(mr.group(1))
        for (i, k) in re.findall(r"\((\d+)%nat,\s*(\d+)\)", m.group(1)) or re.findall(r"\((\d+),\s*(\d+)\)", m.group(1)):
            r = part[int(i)]
            mism.append({"word": bytes.fromhex(r["word"]).decode("latin1"), "differs": int(k),
                         "legend": "1 split 2 expand 4 render/print 8 spec 16/32/64/128 class twins skipped_close/nested_comma_only/seq_guard/failed_seq_nested", "go_tree": r["tree"], "go_exp_err": r["experr"]})
    ctx.leg("code: SplitBraces/BracesSeq vs Expand/Braces.v, Go spec port vs Coq Spec (vm_compute in kernel)", total, mism)
    ctx.assumptions += [
        "words are single literals (one *syntax.Lit); multi-part words are not modelled",
        "bash observed through `f <word>` with f() { printf '%s\\n' \"$#\" \"$@\"; } (quote removal and removal of empty words applied to the Spec's words before comparison)",
        "letter ranges are generated within one case (a-z or A-Z); a range crossing Z..a contains '\\\\' and '`' which bash re-reads as quoting",
        "the in-kernel comparison skips words whose expansion exceeds 300 words (except a few over-limit words)",
    ]


def replay(ctx, obj):
    words = []
    for f in obj.get("failures", []):
        inp = f.get("input") or {}
        if "word_hex" in inp:
            words.append(inp["word_hex"])
    binp = ctx.go_build("c16")
    if not binp or not words:
        print(json.dumps(obj, indent=1))
        return 0
    rc, rows, err = ctx.jsonl([binp, "one"] + words)
    bad = 0
    for r in rows:
        if "word" in r:
            print(json.dumps({"word": bytes.fromhex(r["word"]).decode("latin1"), "fails": r.get("fails"), "class": r.get("class"),
                              "fields": r.get("fields"), "bash": r.get("bash")}))
            if r.get("fails") and not r.get("class"):
                bad = 1
    return bad


META = {
    "category": "proof",
    "text": ("Coq theorems over a transliterated model of SplitBraces, the printer's rendering of Lit/BraceExp parts and "
             "bracesSeqRec/BracesSeq, and over a Coq transcription of bash's brace_expand as Spec: splitting preserves the "
             "rendered and the printed text of every word, the returned flag says exactly whether a BraceExp exists, "
             "expansion never panics on split words, the limit error appears exactly above 16384 words, and on a stated "
             "scope the expansion equals the Spec; model tied to the code by in-kernel evaluation on the harness' words; "
             "Spec tied to bash 5.2 on every word; exhaustive short words + random long ones searched against bash."),
    "note": ("Trusted: Coq kernel + vm_compute; hand-written model and Spec (ties = differential testing); bash 5.2.15 as "
             "installed. Four narrow known-finding classes where bash's gobbler differs from the Go splitter."),
    "design_ref": "DESIGN.md 4 C16",
}
