"""C29 Running a program leaves the tree and Env untouched.
Proof: coq/Props/C29.v over coq/Interp/TreeRegion.v (Go-slice heap of Base/GoSliceLite.v).
Code leg: the alias-expansion loop of the model evaluated in the Coq kernel vs the argument
lists the real Runner produces for the same alias tables and calls.
Search: typed JSON + printed form of the tree before vs after Runner.Run, a recording Environ
(Get/Each only, or with a Set that must never be called) dumped before/after incl. spare
capacity, second run of the same tree; generated programs + the literals of interp_test.go."""
import re
from vcheck import coq_bytes, coq_list, REPO


def hexs(s):
    return s.encode().hex()


def run_resuming(ctx, argv, kind):
    """Run a harness mode; when the process dies (a panic in a goroutine of the interpreter cannot be
    recovered in-process) record the case it was on as a failing input and resume after it."""
    rows, start, errs = [], 0, ""
    for attempt in range(8):
        rc, part, err = ctx.jsonl(argv + [str(start)], timeout=3000)
        begun = None
        for r in part:
            if "begin" in r:
                begun = r
            else:
                rows.append(r)
                begun = None
        if rc == 0:
            return 0, rows, errs
        errs += err[-600:]
        if begun is None:
            return rc, rows, errs
        ctx.fail("run_crashes_the_process", {"src_hex": begun["src"], "kind": kind}, None, err[-700:])
        start = begun["begin"] + 1
    return 1, rows, errs


def run(ctx):
    ctx.coq_props()
    quick = ctx.tier == "quick"
    binp = ctx.go_build("c29")
    if not binp:
        return
    ngen = 900 if quick else 30000
    nal = 600 if quick else 6000
    # the pinned regression corpus (corpus/c29/regress.txt) runs first, on every seed and tier
    rcp, prow, errp = run_resuming(ctx, [binp, "pinned"], "pinned")
    if rcp or len(prow) < 8:
        ctx.broken.append(("harness-run", "pinned corpus corpus/c29/regress.txt not run: rc=%d rows=%d %s" % (rcp, len(prow), errp[-300:])))
    rc, rows, err = run_resuming(ctx, [binp, "gen", "-seed", str(ctx.seed), "-n", str(ngen)], "gen")
    rows = prow + rows
    rc2, crow, err2 = run_resuming(ctx, [binp, "corpus", "-in", REPO], "corpus")
    rc3, arow, err3 = ctx.jsonl([binp, "alias", "-seed", str(ctx.seed), "-n", str(nal)], timeout=900)
    if rc or rc2 or rc3 or not rows or not crow or not arow:
        ctx.broken.append(("harness-run", "c29 harness failed rc=%d/%d/%d %s" % (rc, rc2, rc3, (err + err2 + err3)[-800:])))
        return
    ctx.rule = ("generated bash programs of 2..10 top-level statements over small shared name pools: assignments, "
                "arrays (incl. arrays/maps that live in the caller's Environ), declare/export/readonly with expanded "
                "arguments, aliases (plain, trailing-space, chained, recursive), brace expansion, here-documents "
                "(<<, <<-, quoted, <<<), functions, traps, eval, subshells, pipes, background jobs, cd/pushd, set/shopt; "
                "plus the program literals of interp_test.go passing the builtin-only safety filter; every program runs "
                "with a refusing ExecHandler, an OpenHandler confined to a scratch dir and a 4 s context timeout; "
                "non-trivial = distinct program that ran to completion with >= 2 statements")
    # ---------------- search: the law itself on the real code
    ran = skipped = 0
    feats = {}
    for r in rows + crow:
        if r.get("error"):
            ctx.broken.append(("harness-run", r["error"]))
            continue
        if r.get("skip"):
            skipped += 1
            continue
        ran += 1
        ctx.count(1, [r["key"]] if r.get("stmts", 0) >= 2 else [])
        for f in r.get("feats") or []:
            feats[f] = feats.get(f, 0) + 1
        for cl in r.get("fails") or []:
            ctx.fail(cl, {"src_hex": r["src"], "kind": r["kind"], "writeenv": r.get("writeenv")}, None, r.get("detail"))
    gen_ran = sum(1 for r in rows if not r.get("skip"))
    cor_ran = sum(1 for r in crow if not r.get("skip"))
    ctx.extra["programs_run"] = {"generated": gen_ran, "corpus": cor_ran, "skipped": skipped}
    ctx.extra["feature_histogram"] = feats
    ctx.extra["env_reads"] = {"get": sum(r.get("gets", 0) for r in rows + crow), "each": sum(r.get("eachs", 0) for r in rows + crow)}
    if gen_ran < 0.8 * len(rows) or cor_ran < 300:
        ctx.broken.append(("harness-run", "too few programs ran: generated %d/%d corpus %d/%d" % (gen_ran, len(rows), cor_ran, len(crow))))
    if ctx.extra["env_reads"]["get"] == 0:
        ctx.broken.append(("harness-run", "the recording Environ was never read: the Env option is not wired"))
    for r in rows[:2]:
        ctx.sample({"program": bytes.fromhex(r["src"]).decode("utf-8", "replace")[:300], "status": r.get("status"),
                    "env_gets": r.get("gets"), "fails": r.get("fails")})
    ctx.legs.append({"leg": "search:tree typed-JSON/print + Environ dump before vs after Run", "cases": ran,
                     "mismatches": sum(1 for f in ctx.failures), "note": "law-based", "first_mismatches": []})
    # ---------------- code leg: alias expansion, model (in kernel) vs Go
    for r in arow:
        for cl in r.get("fails") or []:
            ctx.fail(cl, {"src_hex": hexs(r["src"]), "kind": "alias"}, None)
    usable = [r for r in arow if r.get("go") is not None and not r.get("stat")]
    mism = []
    total = 0
    for sh in range(0, len(usable), 1500):
        part = usable[sh:sh + 1500]
        items = []
        for r in part:
            defs = coq_list(["(%s,%s,%s)" % (coq_bytes(hexs(d[0])), "true" if d[1] == "1" else "false",
                                            coq_list([coq_bytes(hexs(w)) for w in d[2:]])) for d in (r.get("defs") or [])])
            args = coq_list([coq_bytes(hexs(w)) for w in r["args"]])
            go = [w for w in r["go"]]
            if go == [""]:
                go = []
            items.append("(%s,%s,%s)" % (defs, args, coq_list([coq_bytes(hexs(w)) for w in go])))
        text = """From Verif Require Import Base.Str Base.GoSliceLite Interp.TreeRegion.
Open Scope N_scope.
Definition cases : list (list (str * bool * list str) * list str * list str) := %s.
Definition run_case (defs : list (str * bool * list str)) (args : list str) : option (list str) :=
  let s0 : state := mkst [] [] in
  let '(s1, wl) := alloc_lit_words s0 args in
  let '(s2, sl) := alloc_list zero s1 wl 0 in
  let '(s3, al) := fold_left (fun (acc : state * alias_tab) (d : str * bool * list str) =>
                      let '(s, al) := acc in let '(name, blank, ws) := d in alias_def s al name ws blank) defs (s2, []) in
  match alias_loop (S (s_len sl)) true al s3 sl 0 with
  | Ok (s4, out) =>
      (* the call's own argument array must still hold the original words *)
      if Nat.eqb (length (elems s4 sl)) (length args) then
        Some (map (fun v => match v with VPtr w => match word_lit s4 w with Ok l => l | _ => [] end | _ => [] end) (elems s4 out))
      else None
  | _ => None
  end.
Fixpoint sl_eqb (a b : list str) : bool :=
  match a, b with [], [] => true | x :: a', y :: b' => str_eqb x y && sl_eqb a' b' | _, _ => false end.
Fixpoint mism (i : nat) (cs : list (list (str * bool * list str) * list str * list str)) : list nat :=
  match cs with [] => []
  | (defs, args, go) :: rest =>
      match run_case defs args with
      | Some m => if sl_eqb m go then mism (S i) rest else i :: mism (S i) rest
      | None => i :: mism (S i) rest
      end
  end.
Definition M := Eval vm_compute in mism 0 cases.
Print M.
""" % coq_list(items)
        ok, out = ctx.coq_cases("c29_%d" % sh, text)
        total += len(part)
        m = re.search(r"M\s*=\s*(\[[^\]]*\])", out)
        if not ok or not m:
            ctx.broken.append(("correspondence:code-eval", "coqc on generated cases failed: " + out[-800:]))
            return
        for i in [int(x) for x in re.findall(r"\d+", m.group(1))]:
            r = part[i]
            mism.append({"defs": r.get("defs"), "args": r["args"], "go": r["go"]})
    if total < 0.8 * len(arow):
        ctx.broken.append(("harness-run", "alias leg: only %d of %d cases usable: %s" % (total, len(arow), [r.get("stat") for r in arow if r.get("stat")][:3])))
    ctx.leg("code:alias expansion loop (Runner.cmd) vs Interp/TreeRegion.alias_loop (vm_compute in kernel)", total, mism)
    ctx.assumptions += [
        "SplitBraces' parse, sequence values and word expansion are abstract (Section variables): the theorems hold for every such function",
        "nested brace expansions inside a brace element are not in the SplitBraces result shape of the model (bracesSeqRec itself is modelled recursively)",
        "sparse arrays (Indexes), associative arrays and namerefs are outside the model's Variable; they are covered by the search only",
        "the tie of the fields/braces/flattenAssigns/heredoc/env parts of the model to the code is the law-based search (tree and Environ byte-identical), not an in-kernel evaluation",
    ]


def replay(ctx, obj):
    import json
    for f in obj.get("failures", []):
        src = f["input"].get("src_hex")
        print("clause:", f["clause"], "detail:", f.get("detail"))
        if src:
            print(bytes.fromhex(src).decode("utf-8", "replace"))
    if not obj.get("failures"):
        print(json.dumps(obj, indent=1))
    return 0


META = {
    "category": "proof",
    "text": ("Coq theorems over a Go-slice heap model of what the interpreter does to tree slices and to the caller's Environ "
             "(alias expansion via slices.Concat, FieldsSeq's word copy + SplitBraces + bracesSeqRec, flattenAssigns, <<- here-documents, "
             "overlayEnviron.Set, array element/append assignments): for every initial heap and every operation sequence no store targets "
             "an object that existed before the run; mutants (append on cm.Args, no word copy, no clone, funcScope at the bottom) are refuted "
             "by concrete witnesses. Alias loop tied to the code in-kernel; whole Runner.Run checked by typed-JSON/print/Environ-dump identity "
             "on generated programs and the repository's interpreter test literals."),
    "note": ("Trusted: Coq kernel + vm_compute; hand-written model (SplitBraces parse/expansion abstract); tie = differential testing on seeded "
             "inputs for the alias loop and the law itself for the rest; recording Environ + typedjson as observers."),
    "design_ref": "DESIGN.md 4 C29",
}
