(* Pattern/Regex.v — the subset of Go regexp syntax that pattern.Regexp emits:
   AST, denotation (which rune lists an expression accepts), an executable
   matcher by Brzozowski derivatives, and the printer to Go regexp syntax.
   Strings here are lists of RUNES (N); the harness decodes UTF-8.
   Case folding (?i) is parameterised by [orbit]: the simple-fold orbit of a
   rune as a list (Go: unicode.SimpleFold); [orbit_id] is "no folding".
   NO PROOFS in this file. *)
From Verif Require Import Base.Str.
Open Scope N_scope.

(* --- character classes -------------------------------------------------- *)
Inductive cls := Calnum | Calpha | Cascii | Cblank | Ccntrl | Cdigit | Cgraph
               | Clower | Cprint | Cpunct | Cspace | Cupper | Cword | Cxdigit.

Definition in_rng (lo hi x : N) : bool := (lo <=? x) && (x <=? hi).

(* Go regexp/syntax posixGroup tables: ASCII only *)
Definition cls_mem (k : cls) (x : N) : bool :=
  match k with
  | Calnum => in_rng 48 57 x || in_rng 65 90 x || in_rng 97 122 x
  | Calpha => in_rng 65 90 x || in_rng 97 122 x
  | Cascii => in_rng 0 127 x
  | Cblank => (x =? 9) || (x =? 32)
  | Ccntrl => in_rng 0 31 x || (x =? 127)
  | Cdigit => in_rng 48 57 x
  | Cgraph => in_rng 33 126 x
  | Clower => in_rng 97 122 x
  | Cprint => in_rng 32 126 x
  | Cpunct => in_rng 33 47 x || in_rng 58 64 x || in_rng 91 96 x || in_rng 123 126 x
  | Cspace => in_rng 9 13 x || (x =? 32)
  | Cupper => in_rng 65 90 x
  | Cword => in_rng 48 57 x || in_rng 65 90 x || in_rng 97 122 x || (x =? 95)
  | Cxdigit => in_rng 48 57 x || in_rng 65 70 x || in_rng 97 102 x
  end.

(* how a literal inside a bracket was written (only matters for the printer) *)
Inductive quoting := QRaw | QMeta | QDash.

Inductive citem :=
| CChar (c : N) (q : quoting)
| CRange (lo : N) (qlo : quoting) (hi : N) (qhi : quoting)
| CNamed (k : cls).

Definition item_mem (it : citem) (x : N) : bool :=
  match it with
  | CChar c _ => x =? c
  | CRange lo _ hi _ => in_rng lo hi x
  | CNamed k => cls_mem k x
  end.

Definition items_mem (items : list citem) (x : N) : bool := existsb (fun it => item_mem it x) items.

(* --- AST ------------------------------------------------------------------ *)
Inductive re :=
| RNone                      (* matches nothing; only produced by derivatives *)
| REps
| RChar (c : N)
| RAny                       (* . under (?s) *)
| RSet (neg : bool) (items : list citem)
| RCat (a b : re)
| RAlt (a b : re)
| RStar (a : re)
| RPlus (a : re)
| ROpt (a : re)
| RGroup (a : re).           (* ( a ) : same language, kept for the printer *)

Section Fold.
  (* orbit x = every rune equal to x under the active folding, x included *)
  Variable orbit : N -> list N.

  Definition chr_ok (c x : N) : bool := existsb (fun y => y =? c) (orbit x).
  (* Go: under (?i) a class is closed under folding BEFORE negation *)
  Definition set_ok (neg : bool) (items : list citem) (x : N) : bool :=
    xorb neg (existsb (items_mem items) (orbit x)).

  Inductive matches : re -> list N -> Prop :=
  | MEps : matches REps []
  | MChar c x : chr_ok c x = true -> matches (RChar c) [x]
  | MAny x : matches RAny [x]
  | MSet neg items x : set_ok neg items x = true -> matches (RSet neg items) [x]
  | MCat a b s t : matches a s -> matches b t -> matches (RCat a b) (s ++ t)
  | MAltL a b s : matches a s -> matches (RAlt a b) s
  | MAltR a b s : matches b s -> matches (RAlt a b) s
  | MStar0 a : matches (RStar a) []
  | MStarS a s t : matches a s -> matches (RStar a) t -> matches (RStar a) (s ++ t)
  | MPlus a s t : matches a s -> matches (RStar a) t -> matches (RPlus a) (s ++ t)
  | MOpt0 a : matches (ROpt a) []
  | MOptS a s : matches a s -> matches (ROpt a) s
  | MGroup a s : matches a s -> matches (RGroup a) s.

  (* --- Brzozowski derivatives ------------------------------------------------ *)
  Fixpoint nullable (r : re) : bool :=
    match r with
    | RNone => false
    | REps => true
    | RChar _ => false
    | RAny => false
    | RSet _ _ => false
    | RCat a b => nullable a && nullable b
    | RAlt a b => nullable a || nullable b
    | RStar _ => true
    | RPlus a => nullable a
    | ROpt _ => true
    | RGroup a => nullable a
    end.

  Fixpoint deriv (x : N) (r : re) : re :=
    match r with
    | RNone => RNone
    | REps => RNone
    | RChar c => if chr_ok c x then REps else RNone
    | RAny => REps
    | RSet neg items => if set_ok neg items x then REps else RNone
    | RCat a b => if nullable a then RAlt (RCat (deriv x a) b) (deriv x b) else RCat (deriv x a) b
    | RAlt a b => RAlt (deriv x a) (deriv x b)
    | RStar a => RCat (deriv x a) (RStar a)
    | RPlus a => RCat (deriv x a) (RStar a)
    | ROpt a => deriv x a
    | RGroup a => deriv x a
    end.

  (* smart constructors keep derivative terms small (language-preserving) *)
  Definition mk_cat (a b : re) : re :=
    match a, b with
    | RNone, _ => RNone
    | _, RNone => RNone
    | REps, _ => b
    | _, _ => RCat a b
    end.
  Definition mk_alt (a b : re) : re :=
    match a, b with
    | RNone, _ => b
    | _, RNone => a
    | _, _ => RAlt a b
    end.
  Fixpoint simp (r : re) : re :=
    match r with
    | RCat a b => mk_cat (simp a) (simp b)
    | RAlt a b => mk_alt (simp a) (simp b)
    | _ => r
    end.

  Fixpoint matchb (r : re) (s : list N) : bool :=
    match s with
    | [] => nullable r
    | x :: s' => matchb (simp (deriv x r)) s'
    end.

  (* --- the whole expression: flags, anchors, body ------------------------------ *)
  Record rx := { rx_bol : bool; rx_eol : bool; rx_body : re }.

  (* regexp.MatchString: unanchored search unless ^ / $ are present *)
  Definition rx_matches (r : rx) (s : list N) : Prop :=
    exists pre mid post, s = pre ++ mid ++ post /\ matches (rx_body r) mid /\
      (rx_bol r = true -> pre = []) /\ (rx_eol r = true -> post = []).

  (* executable twin: try every split allowed by the anchors *)
  Fixpoint prefixes_match (r : re) (s : list N) (eol : bool) : bool :=
    (* some prefix (the whole of s when eol) of s matches r *)
    match s with
    | [] => nullable r
    | x :: s' => (negb eol && nullable r) || prefixes_match (simp (deriv x r)) s' eol
    end.
  Fixpoint search_match (r : re) (s : list N) (eol : bool) : bool :=
    prefixes_match r s eol || match s with [] => false | _ :: s' => search_match r s' eol end.
  Definition rx_matchb (r : rx) (s : list N) : bool :=
    if rx_bol r then prefixes_match (rx_body r) s (rx_eol r) else search_match (rx_body r) s (rx_eol r).
End Fold.

Definition orbit_id (x : N) : list N := [x].

(* --- printer to Go regexp syntax ---------------------------------------------- *)
(* regexp.QuoteMeta(string(c)) for one rune: escapes \.+*?()|[]{}^$ *)
Definition is_re_special (c : N) : bool :=
  existsb (fun y => y =? c) [92; 46; 43; 42; 63; 40; 41; 124; 91; 93; 123; 125; 94; 36].
Definition quote_meta1 (c : N) : str := if is_re_special c then [92; c] else [c].
Definition quote_meta (s : str) : str := flat_map quote_meta1 s.

Definition cls_name (k : cls) : str :=
  match k with
  | Calnum => [97;108;110;117;109] | Calpha => [97;108;112;104;97] | Cascii => [97;115;99;105;105]
  | Cblank => [98;108;97;110;107] | Ccntrl => [99;110;116;114;108] | Cdigit => [100;105;103;105;116]
  | Cgraph => [103;114;97;112;104] | Clower => [108;111;119;101;114] | Cprint => [112;114;105;110;116]
  | Cpunct => [112;117;110;99;116] | Cspace => [115;112;97;99;101] | Cupper => [117;112;112;101;114]
  | Cword => [119;111;114;100] | Cxdigit => [120;100;105;103;105;116]
  end.

Definition print_lit (c : N) (q : quoting) : str :=
  match q with QRaw => [c] | QMeta => quote_meta1 c | QDash => [92; c] end.

Definition print_item (it : citem) : str :=
  match it with
  | CChar c q => print_lit c q
  | CRange lo ql hi qh => print_lit lo ql ++ [45] ++ print_lit hi qh
  | CNamed k => [91; 58] ++ cls_name k ++ [58; 93]
  end.

Fixpoint print_re (r : re) : str :=
  match r with
  | RNone => [91; 94; 0; 45; 1114111; 93]          (* [^\x00-\x{10FFFF}] : never emitted *)
  | REps => []
  | RChar c => quote_meta1 c
  | RAny => [46]
  | RSet neg items => [91] ++ (if neg then [94] else []) ++ flat_map print_item items ++ [93]
  | RCat a b => print_re a ++ print_re b
  | RAlt a b => print_re a ++ [124] ++ print_re b
  | RStar a => print_re a ++ [42]
  | RPlus a => print_re a ++ [43]
  | ROpt a => print_re a ++ [63]
  | RGroup a => [40] ++ print_re a ++ [41]
  end.
