(* Pattern/GlobSpec.v — bash's pattern matching rule as a direct recursive matcher on
   (pattern, string), independent of regular expressions: a transliteration of the
   structure of bash 5.2 lib/glob/sm_loop.c (GMATCH, BRACKMATCH, PATSCAN, EXTMATCH),
   validated against the real bash on every run (oracle leg).
   Pattern and string are lists of runes.  [gmatch] recurses on explicit fuel; every
   recursive call consumes a pattern rune or a string rune, so fuel
   (|p|+1)*(|s|+2) is never exhausted ([glob_spec] supplies it).
   Flags: extglob, nocase (FOLD = ASCII tolower; wide runes through [wfold]),
   pathname/period (FNM_PATHNAME / FNM_PERIOD, used by pathname expansion only).
   Not transliterated (outside the checked domain, see notes/C17.md): collating symbols and
   equivalence classes, multi-rune collation order (C.UTF-8 orders by code point),
   the `*` followed by an ill-formed extglob quirk.
   NO PROOFS in this file. *)
From Verif Require Import Base.Str Pattern.Regex Pattern.Translate.
Open Scope N_scope.

Record gflags := { g_ext : bool; g_nocase : bool; g_pathname : bool; g_period : bool }.

Definition fold1 (nocase : bool) (c : N) : N := if nocase && in_rng 65 90 c then c + 32 else c.

(* IS_CCLASS on an ASCII test rune (the C.UTF-8 tables restricted to ASCII = the POSIX ones);
   wide runes are delegated to [wcls] *)
Section Spec.
  Variable wcls : cls -> N -> bool.

  Definition bash_cls_mem (k : cls) (x : N) : bool := if x <? 128 then cls_mem k x else wcls k x.

  (* --- BRACKMATCH ------------------------------------------------------------------ *)
  (* result of matching test rune [t] against the bracket expression whose text after '[' is p:
     BNo = no match (FNM_NOMATCH for the whole attempt), BLit = the '[' is an ordinary character
     (only when t = '['): continue after the '[', BYes rest = matched, continue with rest. *)
  Inductive bres := BNo | BLit | BYes (rest : list N).

  Definition unclosed (t : N) : bres := if t =? cLBRK then BLit else BNo.

  (* the "matched:" tail: skip the rest of the bracket expression. [c] = current rune (already read) *)
  Fixpoint skip_rest (fuel : nat) (neg : bool) (t : N) (p : list N) (brcnt : nat) (brch : option N) (oc : N) : bres :=
    match fuel with
    | O => BNo
    | S fuel' =>
        match p with
        | [] => unclosed t
        | c :: p1 =>
            if (c =? cLBRK) && (match p1 with x :: _ => (x =? cEQ) || (x =? cCOLON) || (x =? cDOT) | [] => false end) then
              match p1 with
              | x :: p2 => match p2 with
                           | [] => unclosed t
                           | _ => skip_rest fuel' neg t p2 (S brcnt) (Some x) c
                           end
              | [] => unclosed t
              end
            else if (c =? cRBRK) && (Nat.ltb 1 brcnt) && (match brch with Some b => oc =? b | None => false end) then
              skip_rest fuel' neg t p1 (pred brcnt) None c
            else if (c =? cRBRK) && (match brch with Some b => negb (b =? cDOT) | None => true end) then
              (if neg then BNo else BYes p1)
            else if c =? cBSL then
              match p1 with
              | [] => BNo
              | _ :: p2 => skip_rest fuel' neg t p2 brcnt brch c
              end
            else skip_rest fuel' neg t p1 brcnt brch c
        end
    end.

  (* the main loop; [c] = current rune, p = pattern after it *)
  Fixpoint brack_loop (fuel : nat) (nocase pathname neg : bool) (t0 t : N) (c : N) (p : list N) : bres :=
    match fuel with
    | O => BNo
    | S fuel' =>
        let matched (p' : list N) (oc : N) := skip_rest fuel' neg t p' 1 None oc in
        (* after an item that did not match: c' = next rune *)
        let next_item (p' : list N) :=
          match p' with
          | [] => unclosed t
          | c' :: p'' => if c' =? cRBRK then (if neg then BYes p'' else BNo)
                         else brack_loop fuel' nocase pathname neg t0 t (fold1 nocase c') p''
          end in
        if (c =? cLBRK) && (match p with x :: _ => x =? cCOLON | [] => false end) then
          (* character class *)
          match find2 cCOLON cRBRK (tl p) with
          | Some k =>
              match cls_of_name (firstn k (tl p)) with
              | Some cl =>
                  let p' := skipn (k + 3) p in
                  if bash_cls_mem cl t0 then matched p' cRBRK else next_item p'
              | None => next_item (skipn (k + 3) p)   (* invalid name: the element is skipped and matches nothing *)
              end
          | None => next_item p
          end
        else
          (* plain rune, possibly escaped, possibly the start of a range *)
          let '(cstart, p1, dead) :=
            if c =? cBSL then match p with [] => (c, p, true) | x :: p' => (x, p', false) end
            else (c, p, false) in
          if dead then BNo else
          let cstart := fold1 nocase cstart in
          match p1 with
          | [] => unclosed t
          | c2 :: p2 =>
              let c2 := fold1 nocase c2 in
              if pathname && (c2 =? cSLASH) then BNo else
              if (c2 =? cDASH) && negb (match p2 with x :: _ => x =? cRBRK | [] => false end) then
                (* range cstart - cend *)
                match p2 with
                | [] => BNo
                | e :: p3 =>
                    let '(cend, p4, dead2) :=
                      if e =? cBSL then match p3 with [] => (0, p3, true) | x :: p' => (x, p', false) end
                      else (e, p3, false) in
                    if dead2 then BNo else
                    let cend := fold1 nocase cend in
                    match p4 with
                    | [] => unclosed t
                    | c3 :: p5 =>
                        if cend <? cstart then
                          (if c3 =? cRBRK then (if neg then BYes p5 else BNo)
                           else brack_loop fuel' nocase pathname neg t0 t (fold1 nocase c3) p5)
                        else if in_rng cstart cend t then matched p4 cend
                        else if c3 =? cRBRK then (if neg then BYes p5 else BNo)
                        else brack_loop fuel' nocase pathname neg t0 t (fold1 nocase c3) p5
                    end
                end
              else if t =? cstart then matched p1 cstart
              else if c2 =? cRBRK then (if neg then BYes p2 else BNo)
              else brack_loop fuel' nocase pathname neg t0 t c2 p2
          end
    end.

  Definition brackmatch (nocase pathname : bool) (p : list N) (t0 : N) : bres :=
    let t := fold1 nocase t0 in
    let fuel := S (S (length p)) in
    let '(neg, p1) := match p with
                      | x :: p' => if (x =? cBANG) || (x =? cCARET) then (true, p') else (false, p)
                      | [] => (false, p)
                      end in
    match p1 with
    | [] => unclosed t
    | c :: p2 => brack_loop fuel nocase pathname neg t0 t c p2
    end.

  (* --- PATSCAN ------------------------------------------------------------------------ *)
  (* scan from just inside a group for the matching ')' (delim = false) or a top-level '|' or that ')'
     (delim = true): Some (inner, rest after the delimiter, ended_by_paren) *)
  Fixpoint patscan (p : list N) (acc : list N) (delim : bool) (pnest : nat) (bnest : nat) (bfirst : bool) (prevc prev2 : N) (skip : bool)
    : option (list N * list N * bool) :=
    match p with
    | [] => None
    | c :: p' =>
        let go pn bn bf := patscan p' (c :: acc) delim pn bn bf c prevc false in
        if skip then go pnest bnest false
        else if c =? cBSL then patscan p' (c :: acc) delim pnest bnest false c prevc true
        else if c =? cLBRK then
          if Nat.eqb bnest 0 then
            (* bfirst: the next rune (after an optional ! or ^) is "first" *)
            match p' with
            | x :: p'' => if (x =? cBANG) || (x =? cCARET)
                          then patscan p'' (x :: c :: acc) delim pnest 1 true x c false
                          else go pnest 1%nat true
            | [] => None
            end
          else if (match p' with x :: _ => (x =? cCOLON) || (x =? cDOT) || (x =? cEQ) | [] => false end)
          then go pnest (S bnest) false
          else go pnest bnest false
        else if c =? cRBRK then
          if Nat.eqb bnest 0 then go pnest bnest false
          else if ((prevc =? cCOLON) || (prevc =? cDOT) || (prevc =? cEQ)) && Nat.ltb 1 bnest then go pnest (pred bnest) false
          else if bfirst then go pnest bnest false
          else go pnest (pred bnest) false
        else if c =? cLPAR then (if Nat.eqb bnest 0 then go (S pnest) bnest false else go pnest bnest false)
        else if c =? cRPAR then
          if Nat.eqb bnest 0 then
            (if Nat.eqb pnest 0 then Some (rev acc, p', true) else go (pred pnest) bnest false)
          else go pnest bnest false
        else if c =? cBAR then
          if Nat.eqb bnest 0 && Nat.eqb pnest 0 && delim then Some (rev acc, p', false) else go pnest bnest false
        else go pnest bnest false
    end.

  (* split the inside of a group into its alternatives; None = ill-formed *)
  Fixpoint alternatives (fuel : nat) (p : list N) : option (list (list N) * list N) :=
    match fuel with
    | O => None
    | S fuel' =>
        match patscan p [] true 0 0 false 0 0 false with
        | None => None
        | Some (alt, rest, true) => Some ([alt], rest)
        | Some (alt, rest, false) =>
            match alternatives fuel' rest with
            | Some (alts, rest') => Some (alt :: alts, rest')
            | None => None
            end
        end
    end.

  (* all splits s = a ++ b, shortest a first *)
  Fixpoint splits (s : list N) : list (list N * list N) :=
    match s with
    | [] => [([], [])]
    | x :: s' => ([], s) :: map (fun ab => (x :: fst ab, snd ab)) (splits s')
    end.

  (* bash's `*` case skips any following ? and *, and then only tries string positions whose rune
     equals the next literal pattern rune; for a lone trailing backslash that rune is NUL: no match *)
  Fixpoint star_then_lone_backslash (p : list N) : bool :=
    match p with
    | [c] => c =? cBSL
    | c :: p' => ((c =? cSTAR) || (c =? cQUEST)) && star_then_lone_backslash p'
    | [] => false
    end.

  (* `*`: try the rest of the pattern at every suffix of the string (never past a '/' in pathname mode) *)
  Fixpoint star_loop (k : list N -> bool -> bool) (aft : N -> bool) (s1 : list N) (b : bool) : bool :=
    k s1 b || match s1 with
              | [] => false
              | y :: s2 => negb (aft y) && star_loop k aft s2 false
              end.

  (* --- GMATCH / EXTMATCH ------------------------------------------------------------------ *)
  (* [bos]: the string position is at the start of the string or just after a '/' (for FNM_PERIOD) *)
  Fixpoint gmatch (fuel : nat) (f : gflags) (p s : list N) (bos : bool) : bool :=
    match fuel with
    | O => false
    | S fuel' =>
        let period_block := fun (x : N) => g_period f && bos && (x =? cDOT) in
        let after := fun (x : N) => g_pathname f && (x =? cSLASH) in
        match p with
        | [] => match s with [] => true | _ => false end
        | c :: p' =>
            if g_ext f && is_ext_op c && (match p' with x :: _ => x =? cLPAR | [] => false end) then
              match alternatives (S (length p')) (tl p') with
              | None =>
                  (* ill-formed: compare the rest of the pattern and the string as strings *)
                  str_eqb p s
              | Some (alts, prest) =>
                  let sub (a : list N) (u : list N) := gmatch fuel' f a u bos in
                  let rest_ok (u v : list N) :=
                    gmatch fuel' f prest v (match u with [] => bos | _ => after (last u 0) end) in
                  if c =? cBANG then
                    existsb (fun uv => negb (existsb (fun a => sub a (fst uv)) alts)
                                        && negb (match s with x :: _ => period_block x | [] => false end)
                                        && rest_ok (fst uv) (snd uv)) (splits s)
                  else if (c =? cAT) || (c =? cQUEST) then
                    ((c =? cQUEST) && gmatch fuel' f prest s bos)
                    || existsb (fun uv => existsb (fun a => sub a (fst uv)) alts && rest_ok (fst uv) (snd uv)) (splits s)
                  else
                    ((c =? cSTAR) && gmatch fuel' f prest s bos)
                    || existsb (fun uv => existsb (fun a => sub a (fst uv)) alts
                                           && (rest_ok (fst uv) (snd uv)
                                               || (match fst uv with
                                                   | [] => false
                                                   | _ => gmatch fuel' f p (snd uv) (after (last (fst uv) 0))
                                                   end))) (splits s)
              end
            else if c =? cQUEST then
              match s with
              | [] => false
              | x :: s' => negb (after x) && negb (period_block x) && gmatch fuel' f p' s' (after x)
              end
            else if (c =? cSTAR) && star_then_lone_backslash p' then false
            else if c =? cSTAR then
              match s with
              | x :: _ => if period_block x then false else star_loop (gmatch fuel' f p') after s bos
              | [] => gmatch fuel' f p' [] bos
              end
            else if c =? cBSL then
              match p' with
              | [] => match s with [x] => x =? cBSL | _ => false end
              | e :: p'' =>
                  match s with
                  | x :: s' => (fold1 (g_nocase f) x =? fold1 (g_nocase f) e) && gmatch fuel' f p'' s' (after x)
                  | [] => false
                  end
              end
            else if c =? cLBRK then
              match s with
              | [] => false
              | x :: s' =>
                  if period_block x then false else
                  match brackmatch (g_nocase f) (g_pathname f) p' x with
                  | BNo => false
                  | BLit => gmatch fuel' f p' s' false
                  | BYes rest => gmatch fuel' f rest s' (after x)
                  end
              end
            else
              match s with
              | x :: s' => (fold1 (g_nocase f) x =? fold1 (g_nocase f) c) && gmatch fuel' f p' s' (after x)
              | [] => false
              end
        end
    end.

  Definition spec_fuel (p s : list N) : nat := ((length p + 1) * (length s + 2))%nat.
  Definition glob_spec (f : gflags) (p s : list N) : bool := gmatch (spec_fuel p s) f p s true.
End Spec.

Definition no_wide (k : cls) (x : N) : bool := false.

Definition f_plain : gflags := {| g_ext := false; g_nocase := false; g_pathname := false; g_period := false |}.
Definition f_extglob : gflags := {| g_ext := true; g_nocase := false; g_pathname := false; g_period := false |}.
