(* Pattern/CaseEval.v — evaluation helpers for the generated case files (code leg,
   regexp-meaning leg, spec-vs-bash leg).  Definitions only. *)
From Verif Require Import Base.Str Pattern.Regex Pattern.Translate.
Open Scope N_scope.

(* simple-fold orbits restricted to what the harness strings can contain: ASCII letters,
   plus the two ASCII letters with a non-ASCII orbit member (k/K/KELVIN, s/S/LONG S) *)
Definition orbit_ascii (x : N) : list N :=
  if x =? 107 then [107; 75; 8490] else if x =? 75 then [75; 107; 8490] else if x =? 8490 then [8490; 107; 75]
  else if x =? 115 then [115; 83; 383] else if x =? 83 then [83; 115; 383] else if x =? 383 then [383; 115; 83]
  else if in_rng 97 122 x then [x; x - 32]
  else if in_rng 65 90 x then [x; x + 32]
  else [x].

Definition mode_of_bits (b : N) : mode :=
  {| m_shortest := N.testbit b 0; m_filenames := N.testbit b 1; m_entire := N.testbit b 2;
     m_nocase := N.testbit b 3; m_noglobstar := N.testbit b 4; m_leadingdot := N.testbit b 5;
     m_ext := N.testbit b 6 |}.

(* what the harness observed of pattern.Regexp (+ regexp.Compile) *)
Inductive gobs :=
| GText (txt : str) (compiles : bool)
| GErr (e : perr)
| GNeg (groups : list (nat * nat)).

Definition perr_eqb (a b : perr) : bool :=
  match a, b with
  | EBackslash, EBackslash => true
  | EClass, EClass => true
  | ERange x y, ERange x' y' => (x =? x') && (y =? y')
  | _, _ => false
  end.
Fixpoint groups_eqb (a b : list (nat * nat)) : bool :=
  match a, b with
  | [], [] => true
  | (x, y) :: a', (x', y') :: b' => Nat.eqb x x' && Nat.eqb y y' && groups_eqb a' b'
  | _, _ => false
  end.
Fixpoint bits_eqb (a b : list bool) : bool :=
  match a, b with
  | [], [] => true
  | x :: a', y :: b' => Bool.eqb x y && bits_eqb a' b'
  | _, _ => false
  end.

(* all strings of length <= n over alpha, in the harness' order (hxpat.StringsOver) *)
Fixpoint strings_level (alpha : list N) (n : nat) : list (list N) :=
  match n with
  | O => [[]]
  | S n' => flat_map (fun p => map (fun r => p ++ [r]) alpha) (strings_level alpha n')
  end.
Fixpoint strings_upto (alpha : list N) (n : nat) : list (list N) :=
  match n with
  | O => [[]]
  | S n' => strings_upto alpha n' ++ strings_level alpha n
  end.

(* verdict of one code-leg case: 0 = agree, 1 = text/error differs, 2 = match bits differ,
   3 = model says unmodelled (skipped), 4 = out of fuel *)
Definition code_case (mb : N) (pat : list N) (o : gobs) (strs : list (list N)) (bits : list bool) : N :=
  let m := mode_of_bits mb in
  match translate m pat, o with
  | TFuel, _ => 4
  | TOk _ _ _ OUnmodelled, _ => 3
  | TOk txt bol eol OBad, GText gt false => if str_eqb txt gt then 0 else 1
  | TOk txt bol eol (OOk r), GText gt true =>
      if str_eqb txt gt then
        let orb := if m_nocase m then orbit_ascii else orbit_id in
        if bits_eqb (map (rx_matchb orb {| rx_bol := bol; rx_eol := eol; rx_body := r |}) strs) bits then 0 else 2
      else 1
  | TErr e, GErr e' => if perr_eqb e e' then 0 else 1
  | TNeg g, GNeg g' => if groups_eqb g g' then 0 else 1
  | _, _ => 1
  end.

(* what internal.ExtendedPatternMatcher's result answers on a string; None = error/panic outcome *)
Inductive mobs := MBits (bits : list bool) | MError | MPanicked.

Definition tres_matchb (orb : N -> list N) (t : tres) (s : list N) : option bool :=
  match t with
  | TOk _ bol eol (OOk r) => Some (rx_matchb orb {| rx_bol := bol; rx_eol := eol; rx_body := r |} s)
  | _ => None
  end.

Fixpoint has_prefix (p s : list N) : bool :=
  match p, s with
  | [], _ => true
  | x :: p', y :: s' => (x =? y) && has_prefix p' s'
  | _ :: _, [] => false
  end.
Definition has_suffix (p s : list N) : bool := has_prefix (rev p) (rev s).

Definition matcher_case (mb : N) (pat : list N) (o : mobs) (strs : list (list N)) : N :=
  let m := mode_of_bits mb in
  let orb := if m_nocase m then orbit_ascii else orbit_id in
  match ext_matcher m pat, o with
  | MPanic, MPanicked => 0
  | MErr, MError => 0
  | MRx _ _ _ OUnmodelled, _ => 3
  | MRx _ bol eol (OOk r), MBits bits =>
      if bits_eqb (map (rx_matchb orb {| rx_bol := bol; rx_eol := eol; rx_body := r |}) strs) bits then 0 else 2
  | MNeg pre suf inner, MBits bits =>
      match inner with
      | TOk _ bol eol (OOk r) =>
          let f s := has_prefix pre s && has_suffix suf s &&
                     (Nat.leb (length pre + length suf) (length s)) &&
                     negb (rx_matchb orbit_id {| rx_bol := bol; rx_eol := eol; rx_body := r |}
                             (firstn (length s - length pre - length suf) (skipn (length pre) s))) in
          if bits_eqb (map f strs) bits then 0 else 2
      | TOk _ _ _ OUnmodelled => 3
      | _ => 1
      end
  | MNeg _ _ inner, MError => match inner with TErr _ | TNeg _ => 0 | _ => 1 end
  | _, _ => 1
  end.

(* --- spec-vs-bash leg ------------------------------------------------------------------ *)
From Verif Require Import Pattern.GlobSpec.
Definition gflags_of_bits (b : N) : gflags :=
  {| g_ext := N.testbit b 0; g_nocase := N.testbit b 1; g_pathname := N.testbit b 2; g_period := N.testbit b 3 |}.
(* 0 = the spec answers as bash did on every string, 2 = some bit differs *)
Definition spec_case (fb : N) (pat alpha : list N) (bits : list bool) : N :=
  if bits_eqb (map (glob_spec no_wide (gflags_of_bits fb) pat) (strings_upto alpha 3)) bits then 0 else 2.
Definition spec_bits (fb : N) (pat alpha : list N) : list bool :=
  map (glob_spec no_wide (gflags_of_bits fb) pat) (strings_upto alpha 3).

(* --- C18 code leg: QuoteMeta / HasMeta ---------------------------------------------------- *)
Definition meta_case (s q : list N) (hasq hass : bool) : N :=
  if negb (str_eqb (quote_meta_glob s) q) then 1
  else if negb (Bool.eqb (has_meta q) hasq) then 2
  else if negb (Bool.eqb (has_meta s) hass) then 2
  else 0.
