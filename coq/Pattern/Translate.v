(* Pattern/Translate.v — transliteration of pattern.Regexp / regexpNext / charClass,
   HasMeta, QuoteMeta (pattern/pattern.go, after the two fix: commits for a leading
   '-' in a bracket (leading, and after a class), escaped range ends and unclosed extended groups) and of internal.ExtendedPatternMatcher's
   !(...) path (internal/pattern.go).
   The pattern is a list of RUNES; the lexer {s, i} is a zipper (consumed runes
   reversed, remaining runes).  Each step yields the regexp TEXT exactly as the Go
   code writes it and, in lockstep, the AST that text denotes (Regex.v); [None] as
   AST = "Go's regexp package rejects the text".
   NO PROOFS in this file. *)
From Verif Require Import Base.Str Pattern.Regex.
Open Scope N_scope.

Record mode := { m_shortest : bool; m_filenames : bool; m_entire : bool; m_nocase : bool;
                 m_noglobstar : bool; m_leadingdot : bool; m_ext : bool }.

Definition cSTAR := 42. Definition cQUEST := 63. Definition cLBRK := 91. Definition cRBRK := 93.
Definition cBANG := 33. Definition cCARET := 94. Definition cDASH := 45. Definition cBSL := 92.
Definition cSLASH := 47. Definition cDOT := 46. Definition cCOLON := 58. Definition cLPAR := 40.
Definition cBAR := 124. Definition cRPAR := 41. Definition cAT := 64. Definition cPLUS := 43.
Definition cEQ := 61.

(* --- stringLexer ------------------------------------------------------------ *)
Record lex := { lprev : list N; lrest : list N }.
Definition lnext (l : lex) : N * lex :=
  match lrest l with
  | [] => (0, l)
  | c :: r => (c, {| lprev := c :: lprev l; lrest := r |})
  end.
Definition lpeek (l : lex) : N := match lrest l with [] => 0 | c :: _ => c end.
(* last(): the rune before the (one-byte) rune just read; 0 when i < 2 *)
Definition llast (l : lex) : N := match lprev l with _ :: c :: _ => c | _ => 0 end.
Definition lskip1 (l : lex) : lex := snd (lnext l).                 (* sl.i++ *)
Fixpoint lskip (n : nat) (l : lex) : lex := match n with O => l | S n' => lskip n' (lskip1 l) end.
Definition lpos (l : lex) : nat := length (lprev l).

Inductive perr := EBackslash | ERange (a b : N) | EClass.

(* --- charClass ---------------------------------------------------------------- *)
(* find the two-rune separator [a;b] in s: length of the part before it *)
Fixpoint find2 (a b : N) (s : list N) : option nat :=
  match s with
  | [] => None
  | x :: s' =>
      match s' with
      | y :: _ => if (x =? a) && (y =? b) then Some O
                  else match find2 a b s' with Some k => Some (S k) | None => None end
      | [] => None
      end
  end.

Definition cls_of_name (n : list N) : option cls :=
  let is k := str_eqb n (cls_name k) in
  if is Calnum then Some Calnum else if is Calpha then Some Calpha else if is Cascii then Some Cascii
  else if is Cblank then Some Cblank else if is Ccntrl then Some Ccntrl else if is Cdigit then Some Cdigit
  else if is Cgraph then Some Cgraph else if is Clower then Some Clower else if is Cprint then Some Cprint
  else if is Cpunct then Some Cpunct else if is Cspace then Some Cspace else if is Cupper then Some Cupper
  else if is Cword then Some Cword else if is Cxdigit then Some Cxdigit else None.

(* (n, err, class) *)
Definition char_class (s : list N) : nat * bool * option cls :=
  match s with
  | c :: s1 =>
      if (c =? cDOT) || (c =? cEQ) then
        match find2 c cRBRK s1 with
        | None => (O, true, None)
        | Some k => ((k + 3)%nat, true, None)
        end
      else if c =? cCOLON then
        match find2 cCOLON cRBRK s1 with
        | None => (O, true, None)
        | Some k => match cls_of_name (firstn k s1) with
                    | Some cl => ((k + 3)%nat, false, Some cl)
                    | None => ((k + 3)%nat, true, None)
                    end
        end
      else (O, false, None)
  | [] => (O, false, None)
  end.

(* --- bracket expressions ------------------------------------------------------- *)
Inductive btok := BChar (c : N) (q : quoting) | BDash | BNamed (k : cls) | BOpen.

Definition btok_text (t : btok) : str :=
  match t with
  | BChar c q => print_lit c q
  | BDash => [cDASH]
  | BNamed k => [cLBRK; cCOLON] ++ cls_name k ++ [cCOLON; cRBRK]
  | BOpen => [cLBRK]
  end.

(* Go regexp/syntax parseClass (Perl flags) on the token sequence *)
Inductive cv := CvOk (items : list citem) | CvBad | CvUnmodelled.
Definition tok_char (t : btok) : option (N * quoting) :=
  match t with BChar c q => Some (c, q) | BDash => Some (cDASH, QRaw) | BOpen => Some (cLBRK, QRaw) | BNamed _ => None end.
Definition cv_cons (it : citem) (r : cv) : cv := match r with CvOk l => CvOk (it :: l) | x => x end.
Fixpoint conv (fuel : nat) (toks : list btok) : cv :=
  match fuel with
  | O => CvUnmodelled
  | S fuel' =>
      match toks with
      | [] => CvOk []
      | BNamed k :: t => cv_cons (CNamed k) (conv fuel' t)
      | BOpen :: BChar c _ :: _ =>
          if c =? cCOLON then CvUnmodelled   (* text "[:" re-read as a class opener *)
          else cv_cons (CChar cLBRK QRaw) (conv fuel' (tl toks))
      | lo :: BDash :: hi :: t =>
          match tok_char lo, tok_char hi with
          | Some (a, qa), Some (b, qb) =>
              if b <? a then CvBad else cv_cons (CRange a qa b qb) (conv fuel' t)
          | _, _ => CvUnmodelled
          end
      | lo :: t =>
          match tok_char lo with
          | Some (a, qa) => cv_cons (CChar a qa) (conv fuel' t)
          | None => CvUnmodelled
          end
      end
  end.

Record bst := { bs_toks : list btok (* reversed *); bs_slash : bool;
                bs_def : option perr; bs_cls : option perr;
                bs_clsend : option nat (* classEnd: offset just after the last class element *) }.

(* AST results may be "rejected by regexp" *)
Inductive ore := OOk (r : re) | OBad | OUnmodelled.
Definition ocat (a b : ore) : ore :=
  match a, b with
  | OUnmodelled, _ | _, OUnmodelled => OUnmodelled
  | OBad, _ | _, OBad => OBad
  | OOk x, OOk y => OOk (RCat x y)
  end.
Definition oalt (a b : ore) : ore :=
  match a, b with
  | OUnmodelled, _ | _, OUnmodelled => OUnmodelled
  | OBad, _ | _, OBad => OBad
  | OOk x, OOk y => OOk (RAlt x y)
  end.
Definition omap (f : re -> re) (a : ore) : ore := match a with OOk x => OOk (f x) | y => y end.

Inductive step :=
| SEOF (l : lex)
| SErr (e : perr)
| SNeg (st en : nat) (l : lex)
| SOk (txt : str) (r : ore) (l : lex)
| SFuel.

Definition lit_re (s : list N) : re := fold_right (fun c r => RCat (RChar c) r) REps s.

(* the runes consumed between lexer states l0 (earlier) and l *)
Definition consumed (l0 l : lex) : list N := rev (firstn (length (lprev l) - length (lprev l0)) (lprev l)).

Definition set_slash (st : bst) (b : bool) : bst :=
  {| bs_toks := bs_toks st; bs_slash := bs_slash st || b; bs_def := bs_def st; bs_cls := bs_cls st; bs_clsend := bs_clsend st |}.
Definition push_tok (st : bst) (t : btok) : bst :=
  {| bs_toks := t :: bs_toks st; bs_slash := bs_slash st; bs_def := bs_def st; bs_cls := bs_cls st; bs_clsend := bs_clsend st |}.
Definition set_def (st : bst) (e : perr) : bst :=
  {| bs_toks := bs_toks st; bs_slash := bs_slash st;
     bs_def := match bs_def st with None => Some e | d => d end; bs_cls := bs_cls st; bs_clsend := bs_clsend st |}.
Definition set_clserr (st : bst) : bst :=
  {| bs_toks := bs_toks st; bs_slash := bs_slash st;
     bs_def := match bs_def st with
               | None => Some EClass
               | d => d end;
     bs_cls := Some EClass; bs_clsend := bs_clsend st |}.
Definition set_clsend (st : bst) (k : nat) : bst :=
  {| bs_toks := bs_toks st; bs_slash := bs_slash st; bs_def := bs_def st; bs_cls := bs_cls st; bs_clsend := Some k |}.

(* the `for { switch c {...}; c = sl.next() }` loop; [c] is the current rune, [l] the lexer after it *)
Fixpoint bracket_loop (fuel : nat) (filenames neg : bool) (lit : lex) (c : N) (l : lex) (first : bool) (st : bst) : step :=
  match fuel with
  | O => SFuel
  | S fuel' =>
      let literal := SOk [cBSL; cLBRK] (OOk (RChar cLBRK)) lit in
      let continue st' := let '(c', l') := lnext l in bracket_loop fuel' filenames neg lit c' l' false st' in
      if c =? 0 then
        match bs_cls st with Some e => SErr e | None => literal end
      else if c =? cBSL then
        let '(c2, l2) := lnext l in
        if c2 =? 0 then bracket_loop fuel' filenames neg lit 0 l2 false st
        else
          let st' :=
            if c2 =? cDASH then push_tok st (BChar c2 QDash)
            else if 128 <? c2 then push_tok st (BChar c2 QRaw)
            else push_tok (set_slash st (filenames && (c2 =? cSLASH))) (BChar c2 QMeta) in
          let '(c', l') := lnext l2 in bracket_loop fuel' filenames neg lit c' l' false st'
      else if c =? cDASH then
        let st1 := push_tok st BDash in
        if first || (match bs_clsend st with Some k => Nat.eqb (lpos l - 1) k | None => false end) then continue st1
        else
          let a := llast l in let b0 := lpeek l in
          (* the range end may be an escaped rune: look through the backslash *)
          let b := if b0 =? cBSL then match lrest l with _ :: x :: _ => x | _ => b0 end else b0 in
          if negb (b0 =? cRBRK) && (b <? a) then continue (set_def st1 (ERange a b)) else continue st1
      else if c =? cRBRK then
        if bs_slash st then
          let t := cLBRK :: consumed lit l in SOk (quote_meta t) (OOk (lit_re t)) l
        else match bs_def st with
             | Some e => SErr e
             | None =>
                 let toks := rev (bs_toks st) in
                 let txt := [cLBRK] ++ (if neg then [cCARET] else []) ++ flat_map btok_text toks ++ [cRBRK] in
                 let ast := match conv (S (length toks)) toks with
                            | CvOk items => OOk (RSet neg items)
                            | CvBad => OBad
                            | CvUnmodelled => OUnmodelled
                            end in
                 SOk txt ast l
             end
      else if c =? cLBRK then
        let '(n, err, k) := char_class (lrest l) in
        let st1 := if err then set_clserr st else st in
        let st2 := match k with Some cl => push_tok st1 (BNamed cl) | None => push_tok st1 BOpen end in
        let st3 := set_slash st2 (filenames && existsb (fun x => x =? cSLASH) (firstn n (lrest l))) in
        let st4 := match n with O => st3 | _ => set_clsend st3 (lpos (lskip n l)) end in
        let '(c', l') := lnext (lskip n l) in bracket_loop fuel' filenames neg lit c' l' false st4
      else
        continue (push_tok (set_slash st (filenames && (c =? cSLASH))) (BChar c QRaw))
  end.

(* case '[' of regexpNext; [lit] = lexer just after the '[' *)
Definition bracket (filenames : bool) (lit : lex) : step :=
  let literal := SOk [cBSL; cLBRK] (OOk (RChar cLBRK)) lit in
  let st0 := {| bs_toks := []; bs_slash := false; bs_def := None; bs_cls := None; bs_clsend := None |} in
  let fuel := S (S (length (lrest lit))) in
  let '(c, l) := lnext lit in
  if c =? 0 then literal else
  let neg := (c =? cBANG) || (c =? cCARET) in
  let '(c1, l1) := if neg then lnext l else (c, l) in
  if c1 =? 0 then literal else
  if c1 =? cRBRK then
    let '(c2, l2) := lnext l1 in
    if c2 =? 0 then literal
    else bracket_loop fuel filenames neg lit c2 l2 false (push_tok st0 (BChar cRBRK QRaw))
  else bracket_loop fuel filenames neg lit c1 l1 true st0.

(* --- the non-extended switch of regexpNext --------------------------------------- *)
Definition set_ns : re := RSet true [CChar cSLASH QRaw].                       (* [^/] *)
Definition set_nsd : re := RSet true [CChar cSLASH QRaw; CChar cDOT QRaw].     (* [^/.] *)
Definition txt_ns : str := [cLBRK; cCARET; cSLASH; cRBRK].
Definition txt_nsd : str := [cLBRK; cCARET; cSLASH; cDOT; cRBRK].
Definition seg_re : re := RCat set_nsd (RStar set_ns).                          (* [^/.][^/]* *)
Definition seg_txt : str := txt_nsd ++ txt_ns ++ [cSTAR].

Definition star_filenames (m : mode) (l : lex) : step :=
  (* l = lexer after the '*' *)
  let single_before := (Nat.eqb (lpos l) 1) || (llast l =? cSLASH) in
  let plain l' :=
    if single_before && negb (m_leadingdot m)
    then SOk ([cLPAR] ++ seg_txt ++ [cRPAR; cQUEST]) (OOk (ROpt (RGroup seg_re))) l'
    else SOk (txt_ns ++ [cSTAR]) (OOk (RStar set_ns)) l' in
  if lpeek l =? cSTAR then
    let l1 := lskip1 l in
    let single_after := (match lrest l1 with [] => true | _ => false end) || (lpeek l1 =? cSLASH) in
    if negb (m_noglobstar m) && single_before && single_after then
      let slash_suffix := lpeek l1 =? cSLASH in
      let l2 := if slash_suffix then lskip1 l1 else l1 in
      let '(btxt, bre) :=
        if negb (m_leadingdot m)
        then ([cLPAR; cSLASH; cBAR] ++ seg_txt ++ [cRPAR; cSTAR], RStar (RGroup (RAlt (RChar cSLASH) seg_re)))
        else ([cDOT; cSTAR], RStar RAny) in
      if slash_suffix
      then SOk ([cLPAR] ++ btxt ++ [cSLASH; cRPAR; cQUEST]) (OOk (ROpt (RGroup (RCat bre (RChar cSLASH))))) l2
      else SOk btxt (OOk bre) l2
    else plain l1
  else plain l.

Definition plain_next (m : mode) (c : N) (l : lex) : step :=
  (* c = the rune just read, l = lexer after it *)
  if c =? 0 then SEOF l
  else if c =? cSTAR then
    if negb (m_filenames m) then SOk [cDOT; cSTAR] (OOk (RStar RAny)) l else star_filenames m l
  else if c =? cQUEST then
    if m_filenames m then SOk txt_ns (OOk set_ns) l else SOk [cDOT] (OOk RAny) l
  else if c =? cBSL then
    let '(c2, l2) := lnext l in
    if c2 =? 0 then SErr EBackslash else SOk (quote_meta1 c2) (OOk (RChar c2)) l2
  else if c =? cLBRK then bracket (m_filenames m) l
  else SOk (quote_meta1 c) (OOk (RChar c)) l.

Definition is_ext_op (c : N) : bool :=
  (c =? cBANG) || (c =? cQUEST) || (c =? cSTAR) || (c =? cPLUS) || (c =? cAT).

(* the nested loop of an extended operator group.  [next] = regexpNext on the rest (the recursive call),
   c = the operator, optxt = the operator and everything after it (for the unclosed case),
   txt = gsb so far (without the leading "("), alts/cur = AST so far *)
Fixpoint group_loop (next : lex -> step) (c : N) (optxt : list N) (start : nat)
         (gfuel : nat) (lx : lex) (txt : str) (alts : option ore) (cur : ore) {struct gfuel} : step :=
  match gfuel with
  | O => SFuel
  | S gfuel' =>
      if lpeek lx =? cRPAR then
        let lend := lskip1 lx in
        let body := match alts with None => cur | Some a => oalt a cur end in
        let gtxt := [cLPAR] ++ txt ++ [cRPAR] in
        if c =? cBANG then SNeg start (lpos lend) lend
        else if c =? cAT then SOk gtxt (omap RGroup body) lend
        else if c =? cSTAR then SOk (gtxt ++ [c]) (omap (fun b => RStar (RGroup b)) body) lend
        else if c =? cPLUS then SOk (gtxt ++ [c]) (omap (fun b => RPlus (RGroup b)) body) lend
        else SOk (gtxt ++ [c]) (omap (fun b => ROpt (RGroup b)) body) lend
      else if lpeek lx =? cBAR then
        group_loop next c optxt start gfuel' (lskip1 lx) (txt ++ [cBAR])
                   (Some (match alts with None => cur | Some a => oalt a cur end)) (OOk REps)
      else
        match next lx with
        | SEOF lend => SOk (quote_meta optxt) (OOk (lit_re optxt)) lend      (* unclosed: literal *)
        | SErr e => SErr e
        | SNeg a b l' => SNeg a b l'
        | SOk t r l' => group_loop next c optxt start gfuel' l' (txt ++ t) alts (ocat cur r)
        | SFuel => SFuel
        end
  end.

(* regexpNext; recursion (through group_loop) on fuel *)
Fixpoint regexp_next (fuel : nat) (m : mode) (l0 : lex) : step :=
  match fuel with
  | O => SFuel
  | S fuel' =>
      let '(c, l) := lnext l0 in
      if m_ext m && is_ext_op c && (lpeek l =? cLPAR) then
        group_loop (regexp_next fuel' m) c (c :: lrest l) (lpos l0) fuel' (lskip1 l) [] None (OOk REps)
      else plain_next m c l
  end.

(* --- Regexp ------------------------------------------------------------------------ *)
Definition needs_escaping (c : N) : bool := is_re_special c.   (* same 14 runes as regexp.QuoteMeta *)

Inductive tres :=
| TOk (txt : str) (bol eol : bool) (body : ore)
| TErr (e : perr)
| TNeg (groups : list (nat * nat))
| TFuel.

Fixpoint top_loop (fuel : nat) (m : mode) (l : lex) (txt : str) (body : ore) (negs : list (nat * nat)) : tres :=
  match fuel with
  | O => TFuel
  | S fuel' =>
      match regexp_next (S (S (length (lrest l)))) m l with
      | SEOF _ =>
          match negs with
          | [] => TOk (txt ++ (if m_entire m then [36] else [])) (m_entire m) (m_entire m) body
          | _ => TNeg (rev negs)
          end
      | SErr e => TErr e
      | SNeg a b l' => top_loop fuel' m l' txt body ((a, b) :: negs)
      | SOk t r l' => top_loop fuel' m l' (txt ++ t) (ocat body r) negs
      | SFuel => TFuel
      end
  end.

Definition header (m : mode) : str :=
  [40; 63; 115] ++ (if m_nocase m then [105] else []) ++ (if m_shortest m then [85] else []) ++ [41]
  ++ (if m_entire m then [94] else []).

Definition translate (m : mode) (pat : list N) : tres :=
  if negb (m_entire m) && negb (m_nocase m) && negb (existsb needs_escaping pat)
  then TOk pat false false (OOk (lit_re pat))
  else top_loop (S (length pat)) m {| lprev := []; lrest := pat |} (header m) (OOk REps) [].

(* --- HasMeta / QuoteMeta ------------------------------------------------------------- *)
Fixpoint has_meta_aux (p : list N) (skip open : bool) : bool :=
  match p with
  | [] => false
  | c :: p' =>
      if skip then has_meta_aux p' false open
      else if c =? cBSL then has_meta_aux p' true open
      else if (c =? cSTAR) || (c =? cQUEST) then true
      else if c =? cLBRK then has_meta_aux p' false true
      else if c =? cRBRK then (if open then true else has_meta_aux p' false open)
      else has_meta_aux p' false open
  end.
Definition has_meta (p : list N) : bool := has_meta_aux p false false.

Definition is_glob_special (c : N) : bool := (c =? cSTAR) || (c =? cQUEST) || (c =? cLBRK) || (c =? cBSL).
Definition quote_meta_glob (s : list N) : list N :=
  flat_map (fun c => if is_glob_special c then [cBSL; c] else [c]) s.

(* --- internal.ExtendedPatternMatcher: which matcher it builds ------------------------ *)
Inductive matcher :=
| MRx (fold : bool) (bol eol : bool) (body : ore)             (* regexp.MustCompile(expr).MatchString *)
| MNeg (pre suf : list N) (inner : tres)                         (* extNegatedMatcher *)
| MErr                                                            (* error returned *)
| MPanic.                                                         (* MustCompile panics / mode panic *)

Definition mode_es_ext : mode :=
  {| m_shortest := false; m_filenames := false; m_entire := true; m_nocase := false;
     m_noglobstar := false; m_leadingdot := false; m_ext := true |}.

Definition ext_matcher (m : mode) (pat : list N) : matcher :=
  if m_ext m && negb (m_entire m) then MPanic else
  match translate m pat with
  | TOk _ bol eol OBad => MPanic
  | TOk _ bol eol body => MRx (m_nocase m) bol eol body
  | TErr _ => MErr
  | TFuel => MErr
  | TNeg [(a, b)] =>
      let pre := firstn a pat in
      let suf := skipn b pat in
      if has_meta pre || has_meta suf then MErr
      else
        let inner := firstn (b - a - 3) (skipn (a + 2) pat) in
        MNeg pre suf (translate mode_es_ext ([cAT; cLPAR] ++ inner ++ [cRPAR]))
  | TNeg _ => MErr
  end.
