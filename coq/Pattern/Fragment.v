(* Pattern/Fragment.v — the pattern fragment of the first soundness theorem, and the helper
   notions its statement uses.  Definitions only. *)
From Verif Require Import Base.Str Pattern.Regex Pattern.Translate.
Open Scope N_scope.

(* "flat": no NUL, no unescaped '[', every backslash escapes a (non-NUL) rune *)
Fixpoint flat (p : list N) : bool :=
  match p with
  | [] => true
  | c :: p' =>
      if c =? 0 then false
      else if c =? cLBRK then false
      else if c =? cBSL then match p' with [] => false | e :: p'' => negb (e =? 0) && flat p'' end
      else flat p'
  end.

(* the language of a flat pattern, stated directly *)
Fixpoint gflat (p s : list N) : Prop :=
  match p with
  | [] => s = []
  | c :: p' =>
      if c =? cSTAR then exists s1 s2, s = s1 ++ s2 /\ gflat p' s2
      else if c =? cQUEST then exists x s', s = x :: s' /\ gflat p' s'
      else if c =? cBSL then match p' with e :: p'' => exists s', s = e :: s' /\ gflat p'' s' | [] => False end
      else exists s', s = c :: s' /\ gflat p' s'
  end.

(* the AST the translation builds for a flat pattern (left-nested concatenation onto acc) *)
Fixpoint flat_re (acc : re) (p : list N) : re :=
  match p with
  | [] => acc
  | c :: p' =>
      if c =? cSTAR then flat_re (RCat acc (RStar RAny)) p'
      else if c =? cQUEST then flat_re (RCat acc RAny) p'
      else if c =? cBSL then match p' with e :: p'' => flat_re (RCat acc (RChar e)) p'' | [] => acc end
      else flat_re (RCat acc (RChar c)) p'
  end.

(* p with its escapes removed *)
Fixpoint unescape (p : list N) : list N :=
  match p with
  | [] => []
  | c :: p' => if c =? cBSL then match p' with e :: p'' => e :: unescape p'' | [] => [c] end
               else c :: unescape p'
  end.

Definition mode_es : mode :=
  {| m_shortest := false; m_filenames := false; m_entire := true; m_nocase := false;
     m_noglobstar := false; m_leadingdot := false; m_ext := false |}.
