(* Pattern/Fragment.v — the pattern fragment of the first soundness theorem, and the helper
   notions its statement uses.  Definitions only. *)
From Verif Require Import Base.Str Pattern.Regex Pattern.Translate.
Open Scope N_scope.

(* "flat": no NUL, no unescaped '[', every backslash escapes a (non-NUL) rune *)
Fixpoint flat (p : list N) : bool :=
  match p with
  | [] => true
  | c :: p' =>
      if c =? 0 then false
      else if c =? cLBRK then false
      else if c =? cBSL then match p' with [] => false | e :: p'' => negb (e =? 0) && flat p'' end
      else flat p'
  end.

(* the language of a flat pattern, stated directly *)
Fixpoint gflat (p s : list N) : Prop :=
  match p with
  | [] => s = []
  | c :: p' =>
      if c =? cSTAR then exists s1 s2, s = s1 ++ s2 /\ gflat p' s2
      else if c =? cQUEST then exists x s', s = x :: s' /\ gflat p' s'
      else if c =? cBSL then match p' with e :: p'' => exists s', s = e :: s' /\ gflat p'' s' | [] => False end
      else exists s', s = c :: s' /\ gflat p' s'
  end.

(* the AST the translation builds for a flat pattern (left-nested concatenation onto acc) *)
Fixpoint flat_re (acc : re) (p : list N) : re :=
  match p with
  | [] => acc
  | c :: p' =>
      if c =? cSTAR then flat_re (RCat acc (RStar RAny)) p'
      else if c =? cQUEST then flat_re (RCat acc RAny) p'
      else if c =? cBSL then match p' with e :: p'' => flat_re (RCat acc (RChar e)) p'' | [] => acc end
      else flat_re (RCat acc (RChar c)) p'
  end.

(* p with its escapes removed *)
Fixpoint unescape (p : list N) : list N :=
  match p with
  | [] => []
  | c :: p' => if c =? cBSL then match p' with e :: p'' => e :: unescape p'' | [] => [c] end
               else c :: unescape p'
  end.

Definition mode_es : mode :=
  {| m_shortest := false; m_filenames := false; m_entire := true; m_nocase := false;
     m_noglobstar := false; m_leadingdot := false; m_ext := false |}.

(* ------------------------------------------------------------------------------------------
   The second fragment: patterns given as a list of pieces, now with bracket expressions
   (sets of plain runes, escaped runes and ranges; negation by ! or ^; "]" first).  The raw
   pattern is [pat_text ps]. *)
Inductive belem := EChar (c : N) | EEsc (c : N) | ERng (a b : N).

(* a rune that stands for itself inside a bracket expression wherever it occurs *)
Definition plainc (c : N) : bool :=
  negb ((c =? 0) || (c =? cBSL) || (c =? cDASH) || (c =? cRBRK) || (c =? cLBRK)).

Definition elem_ok (e : belem) : bool :=
  match e with
  | EChar c => plainc c
  | EEsc c => negb (c =? 0)
  | ERng a b => plainc a && plainc b && (a <=? b)
  end.

Definition esc_q (c : N) : quoting := if c =? cDASH then QDash else if 128 <? c then QRaw else QMeta.

Definition elem_text (e : belem) : list N :=
  match e with EChar c => [c] | EEsc c => [cBSL; c] | ERng a b => [a; cDASH; b] end.
Definition elem_toks (e : belem) : list btok :=
  match e with
  | EChar c => [BChar c QRaw]
  | EEsc c => [BChar c (esc_q c)]
  | ERng a b => [BChar a QRaw; BDash; BChar b QRaw]
  end.
Definition elem_item (e : belem) : citem :=
  match e with EChar c => CChar c QRaw | EEsc c => CChar c (esc_q c) | ERng a b => CRange a QRaw b QRaw end.
Definition elem_mem (x : N) (e : belem) : bool :=
  match e with EChar c => x =? c | EEsc c => x =? c | ERng a b => in_rng a b x end.

Definition es_text (es : list belem) : list N := flat_map elem_text es.
Definition es_toks (es : list belem) : list btok := flat_map elem_toks es.

Inductive piece :=
| PLit (c : N) | PEsc (c : N) | PStar | PAny
| PSet (neg : option N) (rb : bool) (es : list belem).

Definition first_rune (es : list belem) : N :=
  match es with [] => cRBRK | e :: _ => match elem_text e with c :: _ => c | [] => 0 end end.

Definition piece_ok (pc : piece) : bool :=
  match pc with
  | PLit c => negb ((c =? 0) || (c =? cSTAR) || (c =? cQUEST) || (c =? cLBRK) || (c =? cBSL))
  | PEsc c => negb (c =? 0)
  | PStar | PAny => true
  | PSet neg rb es =>
      forallb elem_ok es
      && (rb || match es with [] => false | _ => true end)
      && match neg with
         | Some m => (m =? cBANG) || (m =? cCARET)
         | None => rb || negb ((first_rune es =? cBANG) || (first_rune es =? cCARET))
         end
  end.

Definition set_body_text (rb : bool) (es : list belem) : list N := (if rb then [cRBRK] else []) ++ es_text es.

Definition piece_text (pc : piece) : list N :=
  match pc with
  | PLit c => [c]
  | PEsc c => [cBSL; c]
  | PStar => [cSTAR]
  | PAny => [cQUEST]
  | PSet neg rb es => [cLBRK] ++ (match neg with Some m => [m] | None => [] end) ++ set_body_text rb es ++ [cRBRK]
  end.
Definition pat_text (ps : list piece) : list N := flat_map piece_text ps.

Definition is_some {A} (o : option A) : bool := match o with Some _ => true | None => false end.

Definition set_items (rb : bool) (es : list belem) : list citem :=
  (if rb then [CChar cRBRK QRaw] else []) ++ map elem_item es.

Definition piece_re (pc : piece) : re :=
  match pc with
  | PLit c => RChar c
  | PEsc c => RChar c
  | PStar => RStar RAny
  | PAny => RAny
  | PSet neg rb es => RSet (is_some neg) (set_items rb es)
  end.
Definition pat_re (acc : re) (ps : list piece) : re := fold_left (fun a pc => RCat a (piece_re pc)) ps acc.

(* what a bracket expression accepts, stated directly *)
Definition set_accepts (neg : option N) (rb : bool) (es : list belem) (x : N) : bool :=
  xorb (is_some neg) ((rb && (x =? cRBRK)) || existsb (elem_mem x) es).

(* the language of a piece list, stated directly *)
Fixpoint glang (ps : list piece) (s : list N) : Prop :=
  match ps with
  | [] => s = []
  | PLit c :: ps' => exists s', s = c :: s' /\ glang ps' s'
  | PEsc c :: ps' => exists s', s = c :: s' /\ glang ps' s'
  | PStar :: ps' => exists s1 s2, s = s1 ++ s2 /\ glang ps' s2
  | PAny :: ps' => exists x s', s = x :: s' /\ glang ps' s'
  | PSet neg rb es :: ps' => exists x s', s = x :: s' /\ set_accepts neg rb es x = true /\ glang ps' s'
  end.
