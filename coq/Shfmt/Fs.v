(* Shfmt/Fs.v — a tiny file-system model for property C35 (shfmt -w replaces files
   atomically) and the protocol checker that is run on the system-call trace of the real
   shfmt binary.  NO PROOFS in this file (Proofs/FsProofs.v).

   State: directory map name -> inode number, inode table, file-descriptor table, allocation
   counter.  A "name" is the absolute path string exactly as it appears in the system call
   (the harness runs shfmt with absolute paths); directories themselves are not modelled.
   A trace is the list of the SUCCESSFUL system calls of the process, in order; [step]
   returns None when the call could not have succeeded in that state (EEXIST, ENOENT),
   i.e. the trace is not a possible history of that state.  A crash (kill -9) at a
   system-call boundary leaves the state reached by a prefix of the trace: [crash k]. *)
From Verif Require Import Base.Str.

Inductive kind := Regular | Symlink | Fifo.

Record inode := mkInode { i_bytes : str; i_mode : N; i_kind : kind }.
(* for a Symlink inode i_bytes is the link text (an absolute name) *)

Record fdent := mkFd { fe_ino : nat; fe_wr : bool; fe_off : nat }.

Record fs := mkFs {
  dir  : str -> option nat;      (* directory entries *)
  ino  : nat -> option inode;    (* inode table *)
  fds  : N -> option fdent;      (* open file descriptors of the process *)
  next : nat                     (* next unused inode number *)
}.

Inductive op :=
| OpenCreatExcl (name : str) (mode : N) (fd : N)  (* openat(name, O_RDWR|O_CREAT|O_EXCL, m) = fd; mode = m & ~umask *)
| OpenRead (name : str) (fd : N)                  (* openat(name, O_RDONLY) = fd, follows symlinks *)
| OpenTrunc (name : str) (mode : N) (fd : N)      (* openat(name, O_WRONLY|O_CREAT|O_TRUNC, m) = fd *)
| OpenWrite (name : str) (app : bool) (fd : N)    (* openat(name, O_WRONLY or O_RDWR [|O_APPEND]) = fd *)
| Write (fd : N) (data : str)                     (* write(fd, data) = length data *)
| Fchmod (fd : N) (mode : N)
| Chmod (name : str) (mode : N)                   (* chmod/fchmodat, follows symlinks *)
| Fsync (fd : N)
| Close (fd : N)
| Rename (old new : str)                          (* renameat: atomic replacement of the entry [new] *)
| Unlink (name : str)
| Unmodelled.                                     (* any other mutating call on a path/fd of interest *)

(* --- functional map updates ------------------------------------------------ *)
Definition upd_s {A} (m : str -> option A) (k : str) (v : option A) : str -> option A :=
  fun k' => if str_eqb k k' then v else m k'.
Definition upd_n {A} (m : nat -> option A) (k : nat) (v : option A) : nat -> option A :=
  fun k' => if Nat.eqb k k' then v else m k'.
Definition upd_N {A} (m : N -> option A) (k : N) (v : option A) : N -> option A :=
  fun k' => if N.eqb k k' then v else m k'.

(* follow symbolic links (open, chmod): at most [fuel] levels, like the kernel's ELOOP limit *)
Fixpoint resolve (fuel : nat) (s : fs) (name : str) : option (str * option nat) :=
  match dir s name with
  | None => Some (name, None)                     (* final name does not exist *)
  | Some j =>
      match ino s j with
      | Some (mkInode link _ Symlink) =>
          match fuel with
          | O => None                             (* ELOOP *)
          | S f => resolve f s link
          end
      | _ => Some (name, Some j)
      end
  end.

Definition LOOPMAX : nat := 40.

(* write [data] at offset [off] into [c] *)
Definition write_at (c : str) (off : nat) (data : str) : str :=
  firstn off c ++ data ++ skipn (off + length data) c.

Definition set_bytes (i : inode) (b : str) : inode := mkInode b (i_mode i) (i_kind i).
Definition set_mode (i : inode) (m : N) : inode := mkInode (i_bytes i) m (i_kind i).

Definition step (s : fs) (o : op) : option fs :=
  match o with
  | OpenCreatExcl name mode fd =>
      match dir s name with
      | Some _ => None                            (* EEXIST (O_EXCL also refuses a dangling symlink) *)
      | None =>
          let j := next s in
          Some (mkFs (upd_s (dir s) name (Some j))
                     (upd_n (ino s) j (Some (mkInode [] mode Regular)))
                     (upd_N (fds s) fd (Some (mkFd j true 0)))
                     (S j))
      end
  | OpenRead name fd =>
      match resolve LOOPMAX s name with
      | Some (_, Some j) => Some (mkFs (dir s) (ino s) (upd_N (fds s) fd (Some (mkFd j false 0))) (next s))
      | _ => None
      end
  | OpenTrunc name mode fd =>
      match resolve LOOPMAX s name with
      | Some (_, Some j) =>
          match ino s j with
          | Some i =>
              Some (mkFs (dir s)
                         (upd_n (ino s) j (Some (match i_kind i with Regular => set_bytes i [] | _ => i end)))
                         (upd_N (fds s) fd (Some (mkFd j true 0))) (next s))
          | None => None
          end
      | Some (final, None) =>
          let j := next s in
          Some (mkFs (upd_s (dir s) final (Some j))
                     (upd_n (ino s) j (Some (mkInode [] mode Regular)))
                     (upd_N (fds s) fd (Some (mkFd j true 0)))
                     (S j))
      | None => None
      end
  | OpenWrite name app fd =>
      match resolve LOOPMAX s name with
      | Some (_, Some j) =>
          match ino s j with
          | Some i => Some (mkFs (dir s) (ino s)
                                 (upd_N (fds s) fd (Some (mkFd j true (if app then length (i_bytes i) else 0))))
                                 (next s))
          | None => None
          end
      | _ => None
      end
  | Write fd data =>
      match fds s fd with
      | Some (mkFd j true off) =>
          match ino s j with
          | Some i =>
              Some (mkFs (dir s)
                         (upd_n (ino s) j (Some (set_bytes i (write_at (i_bytes i) off data))))
                         (upd_N (fds s) fd (Some (mkFd j true (off + length data))))
                         (next s))
          | None => Some s
          end
      | _ => Some s                               (* not a descriptor of a file of this model (stdout, pipe) *)
      end
  | Fchmod fd mode =>
      match fds s fd with
      | Some e =>
          match ino s (fe_ino e) with
          | Some i => Some (mkFs (dir s) (upd_n (ino s) (fe_ino e) (Some (set_mode i mode))) (fds s) (next s))
          | None => Some s
          end
      | None => Some s
      end
  | Chmod name mode =>
      match resolve LOOPMAX s name with
      | Some (_, Some j) =>
          match ino s j with
          | Some i => Some (mkFs (dir s) (upd_n (ino s) j (Some (set_mode i mode))) (fds s) (next s))
          | None => None
          end
      | _ => None
      end
  | Fsync _ => Some s                             (* process kill: the page cache survives; no effect *)
  | Close fd => Some (mkFs (dir s) (ino s) (upd_N (fds s) fd None) (next s))
  | Rename old new =>
      match dir s old with
      | None => None                              (* ENOENT *)
      | Some j =>
          if str_eqb old new then Some s
          else Some (mkFs (upd_s (upd_s (dir s) new (Some j)) old None) (ino s) (fds s) (next s))
      end
  | Unlink name =>
      match dir s name with
      | None => None
      | Some _ => Some (mkFs (upd_s (dir s) name None) (ino s) (fds s) (next s))
      end
  | Unmodelled => None
  end.

Fixpoint run (t : list op) (s : fs) : option fs :=
  match t with
  | [] => Some s
  | o :: t' => match step s o with Some s' => run t' s' | None => None end
  end.

(* the state a kill before the (k+1)-th system call leaves behind *)
Definition crash (k : nat) (t : list op) (s : fs) : option fs := run (firstn k t) s.

(* what an observer sees under a name (lstat + read, no symlink following) *)
Definition look (s : fs) (name : str) : option inode :=
  match dir s name with Some j => ino s j | None => None end.

(* well-formed state: nothing refers to an inode number that is not allocated yet *)
Definition wf (s : fs) : Prop :=
  (forall n j, dir s n = Some j -> j < next s) /\
  (forall fd e, fds s fd = Some e -> fe_ino e < next s).

(* the initial states the theorems quantify over: well-formed, the target name shows the inode record I0,
   and no descriptor that is already open for writing refers to the target's inode *)
Definition init_ok (s : fs) (target : str) (I0 : inode) : Prop :=
  wf s /\ look s target = Some I0 /\
  (forall fd e, fds s fd = Some e -> fe_wr e = true -> dir s target <> Some (fe_ino e)).

(* --- the protocol checker ---------------------------------------------------- *)
(* It knows only the target name, the permission bits the target must keep, and the new
   contents; it tracks the files CREATED during the trace (by name, with their contents
   and mode) and the descriptors opened on them. *)

Section Assoc.
  Context {K V : Type} (eqb : K -> K -> bool).
  Fixpoint alookup (k : K) (l : list (K * V)) : option V :=
    match l with
    | [] => None
    | (k', v) :: l' => if eqb k k' then Some v else alookup k l'
    end.
  Fixpoint aremove (k : K) (l : list (K * V)) : list (K * V) :=
    match l with
    | [] => []
    | (k', v) :: l' => if eqb k k' then aremove k l' else (k', v) :: aremove k l'
    end.
End Assoc.

Record cst := mkCst {
  c_names : list (str * (str * N));      (* created name -> (contents, mode) *)
  c_fds   : list (N * (str * nat))       (* descriptor -> (created name, offset) *)
}.

Definition nlook (c : cst) (n : str) := alookup str_eqb n (c_names c).
Definition flook (c : cst) (fd : N) := alookup N.eqb fd (c_fds c).

(* is some tracked descriptor open on the created name n ? *)
Definition fd_on (c : cst) (n : str) : bool :=
  existsb (fun p => str_eqb n (fst (snd p))) (c_fds c).

Definition is_some {A} (o : option A) : bool := match o with Some _ => true | None => false end.

(* [replace] = may the target be replaced at all (false: the target must stay untouched) *)
Definition cstep (replace : bool) (target : str) (mode : N) (new : str) (c : cst) (o : op) : option cst :=
  match o with
  | OpenCreatExcl n md fd =>
      if str_eqb n target || is_some (nlook c n) || is_some (flook c fd) then None
      else Some (mkCst ((n, ([], md)) :: c_names c) ((fd, (n, 0)) :: c_fds c))
  | OpenRead _ fd => if is_some (flook c fd) then None else Some c
  | OpenTrunc _ _ _ => None
  | OpenWrite _ _ _ => None
  | Write fd data =>
      match flook c fd with
      | None => Some c
      | Some (n, off) =>
          match nlook c n with
          | None => None
          | Some (cont, md) =>
              Some (mkCst ((n, (write_at cont off data, md)) :: aremove str_eqb n (c_names c))
                          ((fd, (n, off + length data)) :: aremove N.eqb fd (c_fds c)))
          end
      end
  | Fchmod fd md' =>
      match flook c fd with
      | None => None                       (* fchmod works on read-only descriptors too: refuse *)
      | Some (n, _) =>
          match nlook c n with
          | None => None
          | Some (cont, _) => Some (mkCst ((n, (cont, md')) :: aremove str_eqb n (c_names c)) (c_fds c))
          end
      end
  | Chmod n md' =>
      match nlook c n with
      | None => None
      | Some (cont, _) => Some (mkCst ((n, (cont, md')) :: aremove str_eqb n (c_names c)) (c_fds c))
      end
  | Fsync _ => Some c
  | Close fd => Some (mkCst (c_names c) (aremove N.eqb fd (c_fds c)))
  | Rename old new_name =>
      match nlook c old with
      | None => None                       (* only files created in this trace may be renamed *)
      | Some (cont, md) =>
          if fd_on c old || str_eqb old new_name then None
          else if str_eqb new_name target then
            if replace && str_eqb cont new && N.eqb md mode
            then Some (mkCst (aremove str_eqb old (c_names c)) (c_fds c))
            else None
          else if fd_on c new_name then None
          else Some (mkCst ((new_name, (cont, md)) :: aremove str_eqb new_name (aremove str_eqb old (c_names c)))
                           (c_fds c))
      end
  | Unlink n =>
      if str_eqb n target || fd_on c n then None
      else Some (mkCst (aremove str_eqb n (c_names c)) (c_fds c))
  | Unmodelled => None
  end.

Fixpoint crun (replace : bool) (target : str) (mode : N) (new : str) (c : cst) (t : list op) : option cst :=
  match t with
  | [] => Some c
  | o :: t' => match cstep replace target mode new c o with
               | Some c' => crun replace target mode new c' t'
               | None => None
               end
  end.

Definition cst0 := mkCst [] [].

Definition no_names (c : cst) : bool := match c_names c with [] => true | _ => false end.

(* accepted: every step follows the protocol and, at the end, no created file still has a name *)
Definition atomic_replace_ok (target : str) (mode : N) (new : str) (t : list op) : bool :=
  match crun true target mode new cst0 t with
  | Some c => no_names c
  | None => false
  end.

(* weaker: only the crash-safety part (used on traces of killed runs, which may leave temps) *)
Definition atomic_prefix_ok (target : str) (mode : N) (new : str) (t : list op) : bool :=
  is_some (crun true target mode new cst0 t).

(* the target must not be replaced at all (symlink, FIFO, already formatted file) *)
Definition untouched_ok (target : str) (t : list op) : bool :=
  match crun false target 0%N [] cst0 t with
  | Some c => no_names c
  | None => false
  end.

(* --- helpers for the generated case files ------------------------------------ *)
Fixpoint rep (n : nat) (blk : str) : str :=
  match n with O => [] | S n' => blk ++ rep n' blk end.

Definition empty_fs : fs := mkFs (fun _ => None) (fun _ => None) (fun _ => None) 0.

(* add a directory entry with a new inode *)
Definition add_file (s : fs) (name : str) (i : inode) : fs :=
  mkFs (upd_s (dir s) name (Some (next s))) (upd_n (ino s) (next s) (Some i)) (fds s) (S (next s)).

Definition inode_eqb (a b : inode) : bool :=
  str_eqb (i_bytes a) (i_bytes b) && N.eqb (i_mode a) (i_mode b) &&
  match i_kind a, i_kind b with
  | Regular, Regular | Symlink, Symlink | Fifo, Fifo => true
  | _, _ => false
  end.

Definition look_is (s : fs) (name : str) (i : inode) : bool :=
  match look s name with Some i' => inode_eqb i' i | None => false end.

(* semantic check of one concrete history: every crash point shows the old or the new file *)
Fixpoint all_prefixes_ok (t : list op) (s : fs) (target : str) (old new : inode) : bool :=
  (look_is s target old || look_is s target new) &&
  match t with
  | [] => true
  | o :: t' => match step s o with
               | Some s' => all_prefixes_ok t' s' target old new
               | None => false
               end
  end.
