(* Shfmt/Patch.v — a strict applier for unified diffs (the format printed by shfmt -d, i.e. by
   rogpeppe/go-internal/diff).  A text is a list of lines (each line is a byte string including its
   terminating newline when it has one).  A hunk is its 0-based start line in the old text and its body,
   a list of tagged lines.  NO PROOFS in this file. *)
From Verif Require Import Base.Str.

Inductive tag := Ctx | Del | Add.               (* ' ', '-', '+' *)
Record hunk := mkHunk { h_start : nat; h_body : list (tag * str) }.

Fixpoint old_side (b : list (tag * str)) : list str :=
  match b with
  | [] => []
  | (Add, _) :: b' => old_side b'
  | (_, l) :: b' => l :: old_side b'
  end.

Fixpoint new_side (b : list (tag * str)) : list str :=
  match b with
  | [] => []
  | (Del, _) :: b' => new_side b'
  | (_, l) :: b' => l :: new_side b'
  end.

Fixpoint lines_eqb (a b : list str) : bool :=
  match a, b with
  | [], [] => true
  | x :: a', y :: b' => str_eqb x y && lines_eqb a' b'
  | _, _ => false
  end.

(* [a] = the old text from line [pos] on.  Copy the lines up to the hunk, check that the old side of the
   hunk is what the text has there, emit the new side, continue behind it. *)
Fixpoint apply (pos : nat) (a : list str) (hs : list hunk) : option (list str) :=
  match hs with
  | [] => Some a
  | h :: hs' =>
      if Nat.ltb (h_start h) pos then None                       (* hunks out of order / overlapping *)
      else
        let gap := h_start h - pos in
        if Nat.ltb (length a) gap then None                      (* starts behind the end *)
        else
          let pre := firstn gap a in
          let rest := skipn gap a in
          let o := old_side (h_body h) in
          if lines_eqb o (firstn (length o) rest) then
            match apply (h_start h + length o) (skipn (length o) rest) hs' with
            | Some r => Some (pre ++ new_side (h_body h) ++ r)
            | None => None
            end
          else None                                              (* context or deleted line does not match *)
  end.

Definition apply_patch (a : list str) (hs : list hunk) : option (list str) := apply 0 a hs.

(* Declarative meaning: [hs] is a unified diff of [a] (from line [pos] on) that describes [b]:
   the text is cut into  pre ++ old_side h ++ rest'  at the hunk's start line, and
   b = pre ++ new_side h ++ b'  where the remaining hunks describe b' from rest'. *)
Fixpoint describes (pos : nat) (a : list str) (hs : list hunk) (b : list str) : Prop :=
  match hs with
  | [] => b = a
  | h :: hs' =>
      exists pre rest' b',
        h_start h = pos + length pre /\
        a = pre ++ old_side (h_body h) ++ rest' /\
        describes (h_start h + length (old_side (h_body h))) rest' hs' b' /\
        b = pre ++ new_side (h_body h) ++ b'
  end.

(* split a byte string into lines, each with its newline (strings.SplitAfter without the final "") *)
Fixpoint split_lines_aux (s : str) (cur : str) : list str :=
  match s with
  | [] => match cur with [] => [] | _ => [rev cur] end
  | c :: s' => if N.eqb c 10 then rev (c :: cur) :: split_lines_aux s' [] else split_lines_aux s' (c :: cur)
  end.
Definition split_lines (s : str) : list str := split_lines_aux s [].

Definition apply_bytes (src : str) (hs : list hunk) : option str :=
  match apply_patch (split_lines src) hs with
  | Some ls => Some (concat ls)
  | None => None
  end.
