(* Shfmt/Modes.v — the decision logic of cmd/shfmt/main.go: formatBytes (what is listed, written, diffed,
   printed, which error is returned), formatPath/formatStdin (language detection) and the loop of main that
   turns the results into the exit status.  The formatter itself (parse + simplify + print with the options
   in force) is the Section variable [fmt]; the regular expression of fileutil.Shebang and the file-name
   rules of langFromFilename are Section variables too.  NO PROOFS in this file. *)
From Verif Require Import Base.Str.

Inductive lang := LBash | LPosix | LMksh | LBats | LZsh.

Definition lang_eqb (a b : lang) : bool :=
  match a, b with
  | LBash, LBash | LPosix, LPosix | LMksh, LMksh | LBats, LBats | LZsh, LZsh => true
  | _, _ => false
  end.

Inductive lmode := LOff | LNl | LZero.                 (* -l absent, -l, -l=0 *)
Record flags := mkFlags { f_list : lmode; f_write : bool; f_diff : bool }.

Inductive ev :=
| EvList (path : str) (zero : bool)                    (* path printed by -l / -l=0 *)
| EvWrite (path res : str)                             (* maybeio.WriteFile(path, res, perm) *)
| EvDiff (path src res : str)                          (* diff of src -> res printed *)
| EvOut (res : str)                                    (* formatted bytes printed *)
| EvErr (path : str).                                  (* error printed on stderr by main *)

Inductive ret := RNil | RDiffers | RErr.               (* nil, errFormattingDiffers, any other error *)

Definition listing (fl : flags) : bool := match f_list fl with LOff => false | _ => true end.
Definition plain (fl : flags) : bool := negb (listing fl) && negb (f_write fl) && negb (f_diff fl).

(* LangVariant.Set on a shebang / extension word *)
Definition sh_ : str := [115;104]%N.
Definition dash_ : str := [100;97;115;104]%N.
Definition bash_ : str := [98;97;115;104]%N.
Definition posix_ : str := [112;111;115;105;120]%N.
Definition mksh_ : str := [109;107;115;104]%N.
Definition bats_ : str := [98;97;116;115]%N.
Definition zsh_ : str := [122;115;104]%N.

Definition lang_set (w : str) : option lang :=
  if str_eqb w bash_ then Some LBash
  else if str_eqb w posix_ || str_eqb w sh_ || str_eqb w dash_ then Some LPosix
  else if str_eqb w mksh_ then Some LMksh
  else if str_eqb w bats_ then Some LBats
  else if str_eqb w zsh_ then Some LZsh
  else None.

Section Modes.
  Variable fmt : lang -> str -> res str.               (* parser.Parse + Simplify + printer.Print *)
  Variable shebang : str -> str.                       (* fileutil.Shebang *)
  Variable lang_from_filename : str -> option lang.    (* langFromFilename; None = LangAuto *)

  (* formatBytes, after the language has been fixed; [isreg] = os.Lstat(path).Mode().IsRegular() *)
  Definition format_bytes (fl : flags) (src path : str) (l : lang) (isreg : bool) : list ev * ret :=
    match fmt l src with
    | Err _ => ([], RErr)
    | Panic => ([], RErr)
    | Ok res =>
        if str_eqb src res then ((if plain fl then [EvOut res] else []), RNil)
        else
          let l1 := match f_list fl with
                    | LOff => []
                    | LNl => [EvList path false]
                    | LZero => [EvList path true]
                    end in
          if f_write fl && negb isreg then (l1, RErr)
          else
            let l2 := if f_write fl then l1 ++ [EvWrite path res] else l1 in
            if f_diff fl then (l2 ++ [EvDiff path src res], RDiffers)
            else if listing fl && negb (f_write fl) then (l2, RDiffers)
            else (l2 ++ (if plain fl then [EvOut res] else []), RNil)
    end.

  (* language of a file: -ln flag (or, when no parser/printer flag is given, the EditorConfig shell_variant,
     which propsOptions lets take precedence; the caller passes whichever applies as [flagl]), else the file
     name, else the shebang found in the bytes that were looked at *)
  Definition detect (flagl : option lang) (path : str) (seen : str) : lang :=
    match flagl with
    | Some l => l
    | None =>
        match lang_from_filename path with
        | Some l => l
        | None => match lang_set (shebang seen) with Some l => l | None => LBash end
        end
    end.

  Record file := mkFile {
    fi_path : str;
    fi_src : str;
    fi_check_shebang : bool;     (* found while walking, no extension: only formatted if it has a shebang *)
    fi_isreg : bool
  }.

  (* formatPath: io.ReadAtLeast(f, copyBuf[:32], 9) -- the first 32 bytes *)
  Definition head32 (src : str) : str := firstn 32 src.

  Definition skipped (f : file) : bool :=
    fi_check_shebang f &&
    (Nat.ltb (length (fi_src f)) 9 || match shebang (head32 (fi_src f)) with [] => true | _ => false end).

  Definition format_path (fl : flags) (flagl : option lang) (f : file) : list ev * ret :=
    if skipped f then ([], RNil)
    else format_bytes fl (fi_src f) (fi_path f) (detect flagl (fi_path f) (head32 (fi_src f))) (fi_isreg f).

  (* formatStdin: the shebang is looked for in the whole source; -w is refused *)
  Definition format_stdin (fl : flags) (flagl : option lang) (name src : str) : list ev * ret :=
    if f_write fl then ([], RErr)
    else format_bytes fl src name (detect flagl name src) true.

  (* the loop of main over the files found: events and exit status *)
  Fixpoint run_files (fl : flags) (flagl : option lang) (fs : list file) : list ev * bool :=
    match fs with
    | [] => ([], false)
    | f :: rest =>
        let '(e1, r) := format_path fl flagl f in
        let '(e2, st) := run_files fl flagl rest in
        match r with
        | RNil => (e1 ++ e2, st)
        | RDiffers => (e1 ++ e2, true)
        | RErr => (e1 ++ EvErr (fi_path f) :: e2, true)
        end
    end.

  (* the file system after the events: every EvWrite replaces the contents (the last one wins) *)
  Fixpoint written (evs : list ev) (path : str) : option str :=
    match evs with
    | [] => None
    | e :: t =>
        match written t path with
        | Some r => Some r
        | None => match e with
                  | EvWrite p r => if str_eqb p path then Some r else None
                  | _ => None
                  end
        end
    end.

  Definition after_write (evs : list ev) (f : file) : file :=
    match written evs (fi_path f) with
    | Some r => mkFile (fi_path f) r (fi_check_shebang f) (fi_isreg f)
    | None => f
    end.

  (* --- specification vocabulary ------------------------------------------------ *)
  Definition file_lang (flagl : option lang) (f : file) : lang :=
    detect flagl (fi_path f) (head32 (fi_src f)).

  (* "the formatted output of f differs from its contents" *)
  Definition differs (flagl : option lang) (f : file) : Prop :=
    skipped f = false /\ exists r, fmt (file_lang flagl f) (fi_src f) = Ok r /\ r <> fi_src f.

  Definition errors (flagl : option lang) (f : file) : Prop :=
    skipped f = false /\ forall r, fmt (file_lang flagl f) (fi_src f) <> Ok r.

  Definition listed (evs : list ev) (p : str) : Prop := exists z, In (EvList p z) evs.
  Definition diffed (evs : list ev) (p : str) : Prop := exists s r, In (EvDiff p s r) evs.
End Modes.
