(* Base/Utf8.v — Go's unicode/utf8 as used by `for range s`, utf8.DecodeRuneInString,
   strings.Builder.WriteRune (= utf8.AppendRune).  Bytes and runes are N.
   Definitions only; the lemmas (round trip etc.) are in Proofs/Utf8Proofs.v. *)
From Verif Require Import Base.Str.
Open Scope N_scope.

Definition RuneError : N := 65533.   (* U+FFFD *)
Definition MaxRune : N := 1114111.   (* U+10FFFF *)
Definition RuneSelf : N := 128.

Definition in_range (lo hi x : N) : bool := (lo <=? x) && (x <=? hi).
Definition is_cont (b : N) : bool := in_range 128 191 b.

(* utf8.DecodeRuneInString: (rune, size).  "" -> (RuneError, 0); every invalid or
   short sequence -> (RuneError, 1).  Accept ranges of the second byte as in the Go
   tables: E0 -> A0..BF, ED -> 80..9F, F0 -> 90..BF, F4 -> 80..8F, otherwise 80..BF. *)
Definition decode_rune (s : str) : N * nat :=
  match s with
  | [] => (RuneError, 0%nat)
  | s0 :: t =>
      if s0 <? 128 then (s0, 1%nat)
      else if in_range 194 223 s0 then
        match t with
        | s1 :: _ =>
            if is_cont s1 then ((s0 - 192) * 64 + (s1 - 128), 2%nat) else (RuneError, 1%nat)
        | _ => (RuneError, 1%nat)
        end
      else if in_range 224 239 s0 then
        match t with
        | s1 :: s2 :: _ =>
            if in_range (if s0 =? 224 then 160 else 128) (if s0 =? 237 then 159 else 191) s1
               && is_cont s2
            then ((s0 - 224) * 4096 + (s1 - 128) * 64 + (s2 - 128), 3%nat)
            else (RuneError, 1%nat)
        | _ => (RuneError, 1%nat)
        end
      else if in_range 240 244 s0 then
        match t with
        | s1 :: s2 :: s3 :: _ =>
            if in_range (if s0 =? 240 then 144 else 128) (if s0 =? 244 then 143 else 191) s1
               && is_cont s2 && is_cont s3
            then ((s0 - 240) * 262144 + (s1 - 128) * 4096 + (s2 - 128) * 64 + (s3 - 128), 4%nat)
            else (RuneError, 1%nat)
        | _ => (RuneError, 1%nat)
        end
      else (RuneError, 1%nat)
  end.

(* utf8.AppendRune / Builder.WriteRune for a non-negative rune value *)
Definition encode_rune (r : N) : str :=
  if r <? 128 then [r]
  else if r <? 2048 then [192 + r / 64; 128 + r mod 64]
  else if (MaxRune <? r) || in_range 55296 57343 r then [239; 191; 189]
  else if r <? 65536 then [224 + r / 4096; 128 + (r / 64) mod 64; 128 + r mod 64]
  else [240 + r / 262144; 128 + (r / 4096) mod 64; 128 + (r / 64) mod 64; 128 + r mod 64].

(* The rune loop `for rem := s; len(rem) > 0; { r, size := DecodeRuneInString(rem); ...;
   rem = rem[size:] }` and `for _, r := range s`: the list of (rune, bytes consumed).
   Structural on s: [skip] counts the bytes of the current rune still to be stepped over. *)
Fixpoint runes_aux (skip : nat) (s : str) : list (N * str) :=
  match s with
  | [] => []
  | _ :: t =>
      match skip with
      | S k => runes_aux k t
      | O => let (r, size) := decode_rune s in
             (r, firstn size s) :: runes_aux (Nat.pred size) t
      end
  end.

Definition runes (s : str) : list (N * str) := runes_aux 0 s.
