(* Base/GoSliceLite.v — a small Go heap for the "does not modify" properties
   (C29): objects (struct field lists and backing arrays alike) are lists of
   values, the heap is a list of objects, allocation appends an object, and
   every in-place change goes through one of two logging primitives
   ([hwrite]: store into existing cells, [hset]: replace a map object).
   Slices are Go slice headers (array, offset, length, capacity); [go_append]
   writes into spare capacity when there is room, exactly like Go, and
   reallocates otherwise; [concat] (slices.Concat) always allocates.
   The value type is a parameter.  NO PROOFS in this file.
   (Self-contained on purpose: Base/GoSlice.v of C27 was still moving when this
   was written; the conventions are the same.) *)
From Verif Require Import Base.Str.

Definition loc := nat.

Inductive slice := SNil | Sl (l : loc) (off len cap : nat).

Definition s_len (s : slice) : nat := match s with SNil => 0 | Sl _ _ n _ => n end.
Definition s_cap (s : slice) : nat := match s with SNil => 0 | Sl _ _ _ c => c end.

Fixpoint set_nth {A} (l : list A) (i : nat) (x : A) : list A :=
  match l, i with
  | [], _ => []
  | _ :: t, O => x :: t
  | a :: t, S i' => a :: set_nth t i' x
  end.

(* overwrite l[pos .. pos+|vs|) with vs (cells beyond the end are dropped) *)
Fixpoint write_at {A} (l : list A) (pos : nat) (vs : list A) : list A :=
  match vs with
  | [] => l
  | v :: vs' => write_at (set_nth l pos v) (S pos) vs'
  end.

Section Heap.
Context {V : Type}.
Variable zero : V.

(* the heap and the log of stores: (object, first cell, number of cells) *)
Record st := mkst { hp : list (list V); wlog : list (loc * nat * nat) }.

Definition obj (s : st) (l : loc) : list V := nth l (hp s) [].

(* ---- the three heap-changing primitives ---- *)
Definition halloc (s : st) (o : list V) : st * loc :=
  (mkst (hp s ++ [o]) (wlog s), length (hp s)).
Definition hwrite (s : st) (l : loc) (pos : nat) (vs : list V) : st :=
  mkst (set_nth (hp s) l (write_at (obj s l) pos vs)) ((l, pos, length vs) :: wlog s).
Definition hset (s : st) (l : loc) (o : list V) : st :=
  mkst (set_nth (hp s) l o) ((l, 0, length o) :: wlog s).

(* ---- slices ---- *)
Definition elems (s : st) (sl : slice) : list V :=
  match sl with
  | SNil => []
  | Sl l o n _ => firstn n (skipn o (obj s l))
  end.

(* a fresh array holding vs, capacity max c |vs| *)
Definition alloc_list (s : st) (vs : list V) (c : nat) : st * slice :=
  let c' := Nat.max c (length vs) in
  let '(s', a) := halloc s (vs ++ repeat zero (c' - length vs)) in
  (s', Sl a 0 (length vs) c').

(* sl[lo:hi] *)
Definition reslice (sl : slice) (lo hi : nat) : res slice :=
  match sl with
  | SNil => if Nat.eqb lo 0 && Nat.eqb hi 0 then Ok SNil else Panic
  | Sl l o n c =>
      if Nat.leb lo hi && Nat.leb hi c then Ok (Sl l (o + lo) (hi - lo) (c - lo)) else Panic
  end.

(* sl[i] = v *)
Definition store (s : st) (sl : slice) (i : nat) (v : V) : res st :=
  match sl with
  | SNil => Panic
  | Sl l o n _ => if Nat.ltb i n then Ok (hwrite s l (o + i) [v]) else Panic
  end.

(* append(sl, vs...): in place when the capacity allows; the growth policy
   (twice the needed length) only matters for later spare capacity *)
Definition go_append (s : st) (sl : slice) (vs : list V) : st * slice :=
  match vs with
  | [] => (s, sl)
  | _ =>
      match sl with
      | SNil => alloc_list s vs (2 * length vs)
      | Sl l o n c =>
          if Nat.leb (n + length vs) c
          then (hwrite s l (o + n) vs, Sl l o (n + length vs) c)
          else alloc_list s (elems s sl ++ vs) (2 * (n + length vs))
      end
  end.

(* slices.Concat(sls...): one fresh array of exactly the total length
   (nil when the total is zero: Grow(nil, 0) stays nil) *)
Definition concat (s : st) (sls : list slice) : st * slice :=
  let all := flat_map (elems s) sls in
  match all with
  | [] => (s, SNil)
  | _ => alloc_list s all 0
  end.

(* slices.Clone *)
Definition clone (s : st) (sl : slice) : st * slice :=
  match sl with
  | SNil => (s, SNil)
  | Sl l o n c =>
      match n with
      | O => (s, Sl l o 0 0)
      | _ => alloc_list s (elems s sl) 0
      end
  end.

End Heap.

Arguments st V : clear implicits.
Arguments mkst {V} hp wlog.
