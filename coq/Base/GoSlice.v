(* Base/GoSlice.v — Go slices on an explicit heap of backing arrays.
   heap  = loc -> list V (a list of cells; a cell is a whole backing array,
           its length is the capacity of the allocation);
   slice = nil | (loc, off, len, cap), as Go's slice header.
   Operations follow Go: indexed store writes the backing array in place,
   append writes into spare capacity when there is room and reallocates
   otherwise, slices.Clone / Insert / Delete as in the standard library
   (Go 1.22+ : Delete clears the tail, Insert shifts in place when the capacity
   allows).  The growth policy of the runtime (size classes) is the Section
   variable [grow old_cap needed]; the model uses max needed (grow ...).
   NO PROOFS in this file. *)
From Verif Require Import Base.Str.

Definition loc := nat.

Fixpoint set_nth {A} (l : list A) (i : nat) (x : A) : list A :=
  match l, i with
  | [], _ => []
  | _ :: t, O => x :: t
  | a :: t, S i' => a :: set_nth t i' x
  end.

(* overwrite l[pos .. pos+|vs|) with vs (the part that fits) *)
Fixpoint write_at {A} (l : list A) (pos : nat) (vs : list A) : list A :=
  match vs with
  | [] => l
  | v :: vs' => write_at (set_nth l pos v) (S pos) vs'
  end.

Inductive slice := SNil | Sl (l : loc) (off len cap : nat).

Definition s_len (s : slice) : nat := match s with SNil => 0 | Sl _ _ n _ => n end.
Definition s_cap (s : slice) : nat := match s with SNil => 0 | Sl _ _ _ c => c end.
Definition s_is_nil (s : slice) : bool := match s with SNil => true | _ => false end.

Section GoSlice.
Context {V : Type}.
Variable zero : V.
Variable grow : nat -> nat -> nat.

Definition aheap := list (list V).

Definition arr (h : aheap) (l : loc) : list V := nth l h [].

(* the two heap-changing primitives: everything below goes through them *)
Definition hwrite (h : aheap) (l : loc) (pos : nat) (vs : list V) : aheap :=
  set_nth h l (write_at (arr h l) pos vs).
Definition halloc (h : aheap) (c : list V) : aheap * loc := (h ++ [c], length h).

Definition newcap (old need : nat) : nat := Nat.max need (grow old need).

(* a fresh array holding l, capacity c (at least |l|) *)
Definition alloc_list (h : aheap) (l : list V) (c : nat) : aheap * slice :=
  let c' := Nat.max c (length l) in
  let '(h', a) := halloc h (l ++ repeat zero (c' - length l)) in
  (h', Sl a 0 (length l) c').

Definition elems (h : aheap) (s : slice) : list V :=
  match s with
  | SNil => []
  | Sl l o n _ => firstn n (skipn o (arr h l))
  end.

(* s[i] *)
Definition index (h : aheap) (s : slice) (i : nat) : res V :=
  if Nat.ltb i (s_len s) then
    match nth_error (elems h s) i with Some v => Ok v | None => Panic end
  else Panic.

(* s[i] = v *)
Definition store (h : aheap) (s : slice) (i : nat) (v : V) : res aheap :=
  match s with
  | SNil => Panic
  | Sl l o n _ => if Nat.ltb i n then Ok (hwrite h l (o + i) [v]) else Panic
  end.

(* s[lo:hi] *)
Definition reslice (s : slice) (lo hi : nat) : res slice :=
  match s with
  | SNil => if Nat.eqb lo 0 && Nat.eqb hi 0 then Ok SNil else Panic
  | Sl l o n c =>
      if Nat.leb lo hi && Nat.leb hi c then Ok (Sl l (o + lo) (hi - lo) (c - lo)) else Panic
  end.

(* make([]T, n, c) *)
Definition make (h : aheap) (n c : nat) : aheap * slice :=
  alloc_list h (repeat zero n) c.

(* append(s, vs...) *)
Definition append (h : aheap) (s : slice) (vs : list V) : aheap * slice :=
  match vs with
  | [] => (h, s)
  | _ =>
      match s with
      | SNil => alloc_list h vs (newcap 0 (length vs))
      | Sl l o n c =>
          if Nat.leb (n + length vs) c
          then (hwrite h l (o + n) vs, Sl l o (n + length vs) c)
          else alloc_list h (elems h s ++ vs) (newcap c (n + length vs))
      end
  end.

(* slices.Clone(s) = append(s[:0:0], s...) : nil stays nil, an empty non-nil
   slice stays on its array with capacity 0, otherwise a fresh array *)
Definition clone (h : aheap) (s : slice) : aheap * slice :=
  match s with
  | SNil => (h, SNil)
  | Sl l o n c =>
      match n with
      | O => (h, Sl l o 0 0)
      | _ => alloc_list h (elems h s) (newcap 0 n)
      end
  end.

(* slices.Insert(s, i, v) for one value *)
Definition insert (h : aheap) (s : slice) (i : nat) (v : V) : res (aheap * slice) :=
  let n := s_len s in
  if Nat.ltb n i then Panic                       (* _ = s[i:] *)
  else if Nat.eqb i n then Ok (append h s [v])
  else match s with
       | SNil => Panic                            (* unreachable: i < n = 0 *)
       | Sl l o _ c =>
           let es := elems h s in
           let es' := firstn i es ++ v :: skipn i es in
           if Nat.ltb c (n + 1)
           then Ok (alloc_list h es' (newcap c (n + 1)))
           else Ok (hwrite h l o es', Sl l o (n + 1) c)
       end.

(* slices.Delete(s, i, j): shifts in place and clears the tail *)
Definition delete (h : aheap) (s : slice) (i j : nat) : res (aheap * slice) :=
  let n := s_len s in
  if negb (Nat.leb i j && Nat.leb j n) then Panic
  else if Nat.eqb i j then Ok (h, s)
  else match s with
       | SNil => Panic
       | Sl l o _ c =>
           let es := elems h s in
           let es' := firstn i es ++ skipn j es in
           Ok (hwrite h l o (es' ++ repeat zero (j - i)), Sl l o (n - (j - i)) c)
       end.

End GoSlice.
