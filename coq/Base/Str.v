(* Base/Str.v — Go strings as lists of bytes (N), with the few library
   functions the models need. No proofs here beyond trivial ones; lemmas live in
   Proofs/. Stdlib only. *)
From Coq Require Export List NArith ZArith Bool Lia.
Export ListNotations.

Definition byte := N.
Definition str := list N.

(* bytewise comparison, = Go's strings.Compare / cmp.Compare on string *)
Fixpoint cmp_str (a b : str) : comparison :=
  match a, b with
  | [], [] => Eq
  | [], _ :: _ => Lt
  | _ :: _, [] => Gt
  | x :: a', y :: b' =>
      match N.compare x y with
      | Eq => cmp_str a' b'
      | c => c
      end
  end.

Definition str_eqb (a b : str) : bool :=
  match cmp_str a b with Eq => true | _ => false end.

(* strings.IndexByte *)
Fixpoint index_byte (c : N) (s : str) : option nat :=
  match s with
  | [] => None
  | x :: s' => if N.eqb x c then Some O
               else match index_byte c s' with Some i => Some (S i) | None => None end
  end.

(* strings.Cut(s, string(c)) : (before, after, found) ; None = not found *)
Fixpoint cut_byte (c : N) (s : str) : option (str * str) :=
  match s with
  | [] => None
  | x :: s' => if N.eqb x c then Some ([], s')
               else match cut_byte c s' with
                    | Some (b, a) => Some (x :: b, a)
                    | None => None
                    end
  end.

Definition contains_byte (c : N) (s : str) : bool :=
  match index_byte c s with Some _ => true | None => false end.

(* result type used by every model: Go panics are explicit *)
Inductive res (A : Type) : Type :=
| Ok (a : A)
| Err (code : N)
| Panic.
Arguments Ok {A} a.
Arguments Err {A} code.
Arguments Panic {A}.

Definition res_bind {A B} (r : res A) (f : A -> res B) : res B :=
  match r with Ok a => f a | Err c => Err c | Panic => Panic end.

Definition is_panic {A} (r : res A) : bool :=
  match r with Panic => true | _ => false end.
