(* Vars/Sparse.v — model of the sparse indexed-array representation of mvdan/sh:
     internal/sparse.go    IndexedMax, SetIndexedElem, DeleteIndexedElem, CanonicalIndexes
     expand/environ.go     Variable.indexedVal, Variable.indexedKeys
     expand/expand.go      Config.sliceElems (non-positional part)
     expand/param.go       varInd (Indexed/String/Unknown kinds), assignElem (${a[i]=v})
     interp/vars.go        assignVal, setVarWithIndex, unsetElem, `unset name`
   and the reference model (Spec): a finite map from Z to strings with bash's rules.

   Transliteration: a Go []string is a [list str]; a Go []int that may be nil is an
   [option (list Z)] (None = nil, Some [] = empty non-nil).  Go ints are unbounded Z.
   Every Go index / slice expression / slices.Insert / slices.Delete that can go out
   of range yields Panic.  The callers clone List and Indexes before they call the
   in-place helpers, so values (not heap cells) are modelled; aliasing is C27's topic.
   NO PROOFS in this file. *)
From Verif Require Import Base.Str.
Open Scope Z_scope.

Definition len {A} (l : list A) : Z := Z.of_nat (length l).

(* ------------------------------------------------------------------ Go slice primitives *)

(* l[n] = v *)
Fixpoint upd {A} (l : list A) (n : nat) (v : A) : res (list A) :=
  match l, n with
  | [], _ => Panic
  | _ :: r, O => Ok (v :: r)
  | x :: r, S n' => match upd r n' v with Ok r' => Ok (x :: r') | Err c => Err c | Panic => Panic end
  end.

(* slices.Insert(l, n, v): panics when n > len(l) *)
Fixpoint insert_at {A} (n : nat) (v : A) (l : list A) : res (list A) :=
  match n, l with
  | O, _ => Ok (v :: l)
  | S _, [] => Panic
  | S n', x :: r => match insert_at n' v r with Ok r' => Ok (x :: r') | Err c => Err c | Panic => Panic end
  end.

(* slices.Delete(l, n, n+1): panics when n+1 > len(l) *)
Fixpoint delete_at {A} (n : nat) (l : list A) : res (list A) :=
  match l, n with
  | [], _ => Panic
  | _ :: r, O => Ok r
  | x :: r, S n' => match delete_at n' r with Ok r' => Ok (x :: r') | Err c => Err c | Panic => Panic end
  end.

(* l[n:] : panics when n > len(l) *)
Definition slice_from {A} (n : nat) (l : list A) : res (list A) :=
  if Nat.leb n (length l) then Ok (skipn n l) else Panic.

(* l[:n] : panics when n > len(l)  (cap = len for every slice that reaches sliceElems' result) *)
Definition slice_to {A} (n : nat) (l : list A) : res (list A) :=
  if Nat.leb n (length l) then Ok (firstn n l) else Panic.

(* 0, 1, ..., the indexes a dense array stands for *)
Fixpoint iota_from (s : Z) (n : nat) : list Z :=
  match n with O => [] | S n' => s :: iota_from (s + 1) n' end.
Definition iota (n : nat) : list Z := iota_from 0 n.

(* slices.BinarySearch on []int:
     i, j := 0, n; for i < j { h := (i+j)>>1; if x[h] < target { i = h+1 } else { j = h } }
     return i, i < n && x[i] == target *)
Fixpoint bsearch_loop (fuel : nat) (x : list Z) (k : Z) (i j : nat) : res nat :=
  match fuel with
  | O => Err 99                                   (* out of fuel: excluded by the theorems *)
  | S fuel' =>
      if Nat.ltb i j then
        let h := Nat.div2 (i + j) in
        match nth_error x h with
        | None => Panic                           (* x[h] *)
        | Some e => if e <? k then bsearch_loop fuel' x k (S h) j
                    else bsearch_loop fuel' x k i h
        end
      else Ok i
  end.

Definition bsearch (x : list Z) (k : Z) : res (nat * bool) :=
  match bsearch_loop (S (length x)) x k 0 (length x) with
  | Ok i => Ok (i, match nth_error x i with Some e => e =? k | None => false end)
  | Err c => Err c
  | Panic => Panic
  end.

(* ------------------------------------------------------------------ internal/sparse.go *)

Record arr : Type := mkArr { a_list : list str; a_idx : option (list Z) }.

Definition empty_arr : arr := mkArr [] None.

(* IndexedMax *)
Definition indexed_max (l : list str) (idx : option (list Z)) : Z :=
  match idx with
  | Some (x :: r) => last (x :: r) 0
  | _ => len l - 1
  end.

(* CanonicalIndexes *)
Fixpoint is_iota_from (s : Z) (idx : list Z) : bool :=
  match idx with
  | [] => true
  | k :: r => if k =? s then is_iota_from (s + 1) r else false
  end.
Definition canonical (idx : list Z) : option (list Z) :=
  if is_iota_from 0 idx then None else Some idx.

(* the common tail of SetIndexedElem, from the BinarySearch on *)
Definition set_sparse (l : list str) (idx : list Z) (k : Z) (v : str) : res arr :=
  match bsearch idx k with
  | Ok (pos, true) =>
      match upd l pos v with
      | Ok l' => Ok (mkArr l' (Some idx))
      | Err c => Err c | Panic => Panic
      end
  | Ok (pos, false) =>
      match insert_at pos v l with
      | Ok l' => match insert_at pos k idx with
                 | Ok idx' => Ok (mkArr l' (canonical idx'))
                 | Err c => Err c | Panic => Panic
                 end
      | Err c => Err c | Panic => Panic
      end
  | Err c => Err c
  | Panic => Panic
  end.

Definition set_elem (a : arr) (k : Z) (v : str) : res arr :=
  match a_idx a with
  | None =>
      if k <? len (a_list a) then
        if k <? 0 then Panic                                   (* list[k] with k < 0 *)
        else match upd (a_list a) (Z.to_nat k) v with
             | Ok l' => Ok (mkArr l' None)
             | Err c => Err c | Panic => Panic
             end
      else if k =? len (a_list a) then Ok (mkArr (a_list a ++ [v]) None)
      else set_sparse (a_list a) (iota (length (a_list a))) k v
  | Some idx => set_sparse (a_list a) idx k v
  end.

(* the common tail of DeleteIndexedElem *)
Definition del_sparse (l : list str) (idx : list Z) (k : Z) : res arr :=
  match bsearch idx k with
  | Ok (_, false) => Ok (mkArr l (Some idx))
  | Ok (pos, true) =>
      match delete_at pos l with
      | Ok l' => match delete_at pos idx with
                 | Ok idx' => Ok (mkArr l' (canonical idx'))
                 | Err c => Err c | Panic => Panic
                 end
      | Err c => Err c | Panic => Panic
      end
  | Err c => Err c
  | Panic => Panic
  end.

Definition delete_elem (a : arr) (k : Z) : res arr :=
  match a_idx a with
  | None =>
      if (k <? 0) || (len (a_list a) <=? k) then Ok a
      else if k =? len (a_list a) - 1 then Ok (mkArr (firstn (Z.to_nat k) (a_list a)) None)   (* list[:k] *)
      else del_sparse (a_list a) (iota (length (a_list a))) k
  | Some idx => del_sparse (a_list a) idx k
  end.

(* ------------------------------------------------------------------ expand/environ.go *)

(* Variable.indexedVal: Ok None = ("", false) *)
Definition indexed_val (a : arr) (i : Z) : res (option str) :=
  match a_idx a with
  | Some idx =>
      match bsearch idx i with
      | Ok (pos, true) => match nth_error (a_list a) pos with
                          | Some s => Ok (Some s)
                          | None => Panic                       (* v.List[pos] *)
                          end
      | Ok (_, false) => Ok None
      | Err c => Err c
      | Panic => Panic
      end
  | None =>
      if i <? len (a_list a) then
        if i <? 0 then Panic
        else match nth_error (a_list a) (Z.to_nat i) with
             | Some s => Ok (Some s)
             | None => Panic
             end
      else Ok None
  end.

(* Variable.indexedKeys (as numbers; strconv.Itoa is applied by the harness side) *)
Fixpoint keys_loop (n : nat) (i : nat) (idx : option (list Z)) : res (list Z) :=
  match n with
  | O => Ok []
  | S n' =>
      match (match idx with
             | Some ix => match nth_error ix i with Some k => Ok k | None => Panic end   (* v.Indexes[i] *)
             | None => Ok (Z.of_nat i)
             end) with
      | Ok k => match keys_loop n' (S i) idx with Ok r => Ok (k :: r) | Err c => Err c | Panic => Panic end
      | Err c => Err c
      | Panic => Panic
      end
  end.
Definition indexed_keys (a : arr) : res (list Z) := keys_loop (length (a_list a)) 0 (a_idx a).

Definition count (a : arr) : Z := len (a_list a).

(* ------------------------------------------------------------------ expand/expand.go sliceElems *)

Definition slice_pos (n : Z) (l : list str) : Z :=
  if n <? 0 then (let n' := len l + n in if n' <? 0 then len l else n')
  else if len l <? n then len l else n.

Definition slice_elems (a : arr) (off len_ : option Z) : res (list str) :=
  let elems := a_list a in
  match (match off with
         | None => Ok elems
         | Some o =>
             match a_idx a with
             | Some (x :: r) =>
                 let mx := last (x :: r) 0 in
                 let o' := if o <? 0 then (let o2 := o + (mx + 1) in if o2 <? 0 then mx + 1 else o2) else o in
                 match bsearch (x :: r) o' with
                 | Ok (pos, _) => slice_from pos elems
                 | Err c => Err c
                 | Panic => Panic
                 end
             | _ => slice_from (Z.to_nat (slice_pos o elems)) elems
             end
         end) with
  | Ok elems' =>
      match len_ with
      | None => Ok elems'
      | Some n => slice_to (Z.to_nat (slice_pos n elems')) elems'
      end
  | Err c => Err c
  | Panic => Panic
  end.

(* ------------------------------------------------------------------ variables (interp/vars.go) *)

(* the value of one shell variable, as far as Kind Unknown / String / Indexed go *)
Inductive var : Type :=
| VUnset
| VStr (s : str)
| VArr (a : arr).

Inductive aelem : Type :=
| EIdx (k : Z) (v : str)        (* [k]=v inside ( ) *)
| EVal (v : str).               (* one field inside ( ) *)

Inductive op : Type :=
| OSetElem (k : Z) (v : str)            (* a[k]=v *)
| OAppElem (k : Z) (v : str)            (* a[k]+=v *)
| OUnsetElem (k : Z)                    (* unset 'a[k]' *)
| OAssignArr (es : list aelem)          (* a=( ... ) *)
| OAppendArr (es : list aelem)          (* a+=( ... ) *)
| OAssignStr (v : str)                  (* a=v *)
| OAppendStr (v : str)                  (* a+=v *)
| OUnsetAll                             (* unset a *)
| ODefault (colon : bool) (k : Z) (v : str).   (* : "${a[k]=v}" / "${a[k]:=v}" *)

(* "Negative indices count from one past the maximum index"; None = bad array subscript *)
Definition resolve_neg (l : list str) (idx : option (list Z)) (k : Z) : option Z :=
  if k <? 0 then (let k' := k + (indexed_max l idx + 1) in if k' <? 0 then None else Some k')
  else Some k.

(* the list/indexes that setVarWithIndex, assignVal (+=) and assignElem start from *)
Definition base_arr (v : var) : arr :=
  match v with
  | VUnset => mkArr [] None
  | VStr s => mkArr [s] None
  | VArr a => a
  end.

(* a step yields the new value and whether "bad array subscript"-like error was reported *)
Definition stepres := res (var * bool).

Definition ret_arr (r : res arr) : stepres :=
  match r with Ok a => Ok (VArr a, false) | Err c => Err c | Panic => Panic end.

(* the current element at (resolved, non-negative) index k as setVarWithIndex' appendElem reads it *)
Definition cur_elem (a : arr) (k : Z) : res str :=
  match a_idx a with
  | None => if k <? len (a_list a)
            then match nth_error (a_list a) (Z.to_nat k) with Some s => Ok s | None => Panic end
            else Ok []
  | Some idx => match bsearch idx k with
                | Ok (pos, true) => match nth_error (a_list a) pos with Some s => Ok s | None => Panic end
                | Ok (_, false) => Ok []
                | Err c => Err c
                | Panic => Panic
                end
  end.

(* the element loop of assignVal's array assignment *)
Fixpoint assign_loop (es : list aelem) (a : arr) (index : Z) : res (arr * bool) :=
  match es with
  | [] => Ok (a, false)
  | EIdx k v :: r =>
      match resolve_neg (a_list a) (a_idx a) k with
      | None => Ok (a, true)                                     (* errf; break *)
      | Some k' =>
          match set_elem a k' v with
          | Ok a' => assign_loop r a' (k' + 1)
          | Err c => Err c | Panic => Panic
          end
      end
  | EVal v :: r =>
      match set_elem a index v with
      | Ok a' => assign_loop r a' (index + 1)
      | Err c => Err c | Panic => Panic
      end
  end.

Definition assign_arr (base : arr) (es : list aelem) : stepres :=
  match assign_loop es base (indexed_max (a_list base) (a_idx base) + 1) with
  | Ok (a, e) => Ok (VArr a, e)
  | Err c => Err c
  | Panic => Panic
  end.

(* setVarWithIndex with a non-nil index *)
Definition set_with_index (v : var) (k : Z) (s : str) (append : bool) : stepres :=
  let a := base_arr v in
  match resolve_neg (a_list a) (a_idx a) k with
  | None => Ok (v, true)
  | Some k' =>
      if append then
        match cur_elem a k' with
        | Ok c => ret_arr (set_elem a k' (c ++ s))
        | Err c => Err c | Panic => Panic
        end
      else ret_arr (set_elem a k' s)
  end.

(* varInd for ${a[k]}: (value, set); Err 1 = "negative array index" *)
Definition var_index (v : var) (k : Z) : res (str * bool) :=
  match v with
  | VUnset => Ok ([], false)
  | VStr s => if k =? 0 then Ok (s, true) else Ok ([], false)
  | VArr a =>
      match resolve_neg (a_list a) (a_idx a) k with
      | None => Err 1
      | Some i => match indexed_val a i with
                  | Ok (Some s) => Ok (s, true)
                  | Ok None => Ok ([], false)
                  | Err c => Err c
                  | Panic => Panic
                  end
      end
  end.

(* assignElem with a non-nil, non-@ index, kinds Unknown/String/Indexed *)
Definition assign_elem (v : var) (k : Z) (s : str) : stepres :=
  let a0 := match v with VArr a => a | _ => mkArr [] None end in    (* vr.List, vr.Indexes *)
  match resolve_neg (a_list a0) (a_idx a0) k with
  | None => Ok (v, true)
  | Some i => ret_arr (set_elem (base_arr v) i s)
  end.

Definition step (v : var) (o : op) : stepres :=
  match o with
  | OSetElem k s => set_with_index v k s false
  | OAppElem k s => set_with_index v k s true
  | OUnsetElem k =>
      match v with
      | VUnset => Ok (v, false)
      | VStr _ => if k =? 0 then Ok (VUnset, false) else Ok (v, true)      (* "not an array variable" *)
      | VArr a =>
          match resolve_neg (a_list a) (a_idx a) k with
          | None => Ok (v, true)
          | Some k' => ret_arr (delete_elem a k')
          end
      end
  | OAssignArr es => assign_arr (mkArr [] None) es
  | OAppendArr es => assign_arr (base_arr v) es
  | OAssignStr s =>
      match v with
      | VArr a => ret_arr (set_elem a 0 s)            (* index falls back to 0 *)
      | _ => Ok (VStr s, false)
      end
  | OAppendStr s =>
      match v with
      | VUnset => Ok (VStr s, false)
      | VStr p => Ok (VStr (p ++ s), false)
      | VArr a =>
          match a_list a with
          | x :: r =>
              match a_idx a with
              | None => Ok (VArr (mkArr ((x ++ s) :: r) None), false)
              | Some [] => Panic                                        (* prev.Indexes[0] *)
              | Some (i0 :: ir) =>
                  if i0 =? 0 then Ok (VArr (mkArr ((x ++ s) :: r) (Some (i0 :: ir))), false)
                  else ret_arr (set_elem a 0 s)
              end
          | [] => ret_arr (set_elem a 0 s)
          end
      end
  | OUnsetAll => Ok (VUnset, false)
  | ODefault colon k s =>
      match var_index v k with
      | Ok (cur, set) =>
          if negb set || (colon && match cur with [] => true | _ => false end)
          then assign_elem v k s
          else Ok (v, false)
      | Err _ => Ok (v, true)                         (* expansion error, nothing assigned *)
      | Panic => Panic
      end
  end.

Definition step_var (r : res var) (o : op) : res var :=
  match r with
  | Ok v => match step v o with Ok (v', _) => Ok v' | Err c => Err c | Panic => Panic end
  | Err c => Err c
  | Panic => Panic
  end.

(* a whole history, from the unset variable *)
Definition run (ops : list op) : res var := fold_left step_var ops (Ok VUnset).
Definition run_from (v : var) (ops : list op) : res var := fold_left step_var ops (Ok v).

(* ------------------------------------------------------------------ Spec: finite map Z -> str *)

(* the reference model: an association list kept in increasing key order.  The laws that
   make it a finite map (get after set / del, keys = domain in increasing order, ...)
   are proved in Proofs/SparseProofs.v, independently of the implementation. *)
Definition smap := list (Z * str).

Fixpoint m_get (k : Z) (m : smap) : option str :=
  match m with
  | [] => None
  | (k', v') :: r => if k =? k' then Some v' else m_get k r
  end.

Fixpoint m_set (k : Z) (v : str) (m : smap) : smap :=
  match m with
  | [] => [(k, v)]
  | (k', v') :: r =>
      if k' <? k then (k', v') :: m_set k v r
      else if k' =? k then (k, v) :: r
      else (k, v) :: m
  end.

Fixpoint m_del (k : Z) (m : smap) : smap :=
  match m with
  | [] => []
  | (k', v') :: r =>
      if k' <? k then (k', v') :: m_del k r
      else if k' =? k then r
      else m
  end.

Definition m_keys (m : smap) : list Z := map fst m.
Definition m_vals (m : smap) : list str := map snd m.
Definition m_count (m : smap) : Z := len m.
(* bash: the maximum index, -1 for an empty array *)
Definition m_max (m : smap) : Z := match m with [] => -1 | x :: r => fst (last (x :: r) (0, [])) end.

(* bash: a negative subscript counts back from one past the maximum index *)
Definition m_resolve (m : smap) (k : Z) : option Z :=
  if k <? 0 then (if k + (m_max m + 1) <? 0 then None else Some (k + (m_max m + 1))) else Some k.

(* bash ${a[@]:off:len}: the elements whose index is >= off (a negative off is relative to
   one past the maximum index; still negative: nothing), then the first len of them.
   len < 0 is an error in bash ("substring expression < 0"): Err 2. *)
Definition m_slice (m : smap) (off len_ : option Z) : res (list str) :=
  let from :=
    match off with
    | None => Some 0
    | Some o => if o <? 0 then (if o + (m_max m + 1) <? 0 then None else Some (o + (m_max m + 1))) else Some o
    end in
  let sel := match from with
             | None => []
             | Some f => map snd (filter (fun kv => f <=? fst kv) m)
             end in
  match len_ with
  | None => Ok sel
  | Some n => if n <? 0 then Err 2 else Ok (firstn (Z.to_nat n) sel)
  end.

(* spec-level variable *)
Inductive sval : Type :=
| SUnset
| SStr (s : str)
| SArr (m : smap).

Definition s_base (v : sval) : smap :=
  match v with SUnset => [] | SStr s => [(0, s)] | SArr m => m end.

Fixpoint s_assign_loop (es : list aelem) (m : smap) (index : Z) : smap * bool :=
  match es with
  | [] => (m, false)
  | EIdx k v :: r =>
      match m_resolve m k with
      | None => (m, true)
      | Some k' => s_assign_loop r (m_set k' v m) (k' + 1)
      end
  | EVal v :: r => s_assign_loop r (m_set index v m) (index + 1)
  end.

Definition s_get_or_empty (k : Z) (m : smap) : str :=
  match m_get k m with Some s => s | None => [] end.

(* bash's rules for each operation, on the reference map *)
Definition s_step (v : sval) (o : op) : sval * bool :=
  match o with
  | OSetElem k s =>
      match m_resolve (s_base v) k with
      | None => (v, true)
      | Some k' => (SArr (m_set k' s (s_base v)), false)
      end
  | OAppElem k s =>
      match m_resolve (s_base v) k with
      | None => (v, true)
      | Some k' => (SArr (m_set k' (s_get_or_empty k' (s_base v) ++ s) (s_base v)), false)
      end
  | OUnsetElem k =>
      match v with
      | SUnset => (v, false)
      | SStr _ => if k =? 0 then (SUnset, false) else (v, true)
      | SArr m => match m_resolve m k with
                  | None => (v, true)
                  | Some k' => (SArr (m_del k' m), false)
                  end
      end
  | OAssignArr es => let '(m, e) := s_assign_loop es [] 0 in (SArr m, e)
  | OAppendArr es => let '(m, e) := s_assign_loop es (s_base v) (m_max (s_base v) + 1) in (SArr m, e)
  | OAssignStr s =>
      match v with
      | SArr m => (SArr (m_set 0 s m), false)
      | _ => (SStr s, false)
      end
  | OAppendStr s =>
      match v with
      | SUnset => (SStr s, false)
      | SStr p => (SStr (p ++ s), false)
      | SArr m => (SArr (m_set 0 (s_get_or_empty 0 m ++ s) m), false)
      end
  | OUnsetAll => (SUnset, false)
  | ODefault colon k s =>
      match m_resolve (match v with SArr m => m | _ => [] end) k with
      | None => (v, true)
      | Some k' =>
          let cur := match v with
                     | SArr m => m_get k' m
                     | SStr p => if k =? 0 then Some p else None
                     | SUnset => None
                     end in
          match cur with
          | Some (_ :: _) => (v, false)
          | Some [] => if colon then (SArr (m_set k' s (s_base v)), false) else (v, false)
          | None => (SArr (m_set k' s (s_base v)), false)
          end
      end
  end.

Definition s_run_from (v : sval) (ops : list op) : sval := fold_left (fun v o => fst (s_step v o)) ops v.
Definition s_run (ops : list op) : sval := s_run_from SUnset ops.

(* abstraction: the map an array value stands for *)
Definition abs (a : arr) : smap :=
  combine (match a_idx a with Some ix => ix | None => iota (length (a_list a)) end) (a_list a).

Definition abs_var (v : var) : sval :=
  match v with VUnset => SUnset | VStr s => SStr s | VArr a => SArr (abs a) end.

(* representation invariant, as Variable.Indexes documents it: as many indexes as elements,
   strictly increasing, non-negative; and nil exactly when the array is dense *)
Fixpoint sorted_from (lo : Z) (ix : list Z) : Prop :=
  match ix with
  | [] => True
  | x :: r => lo <= x /\ sorted_from (x + 1) r
  end.

Definition Inv (a : arr) : Prop :=
  match a_idx a with
  | None => True
  | Some ix => length ix = length (a_list a) /\ sorted_from 0 ix /\ is_iota_from 0 ix = false
  end.

Definition InvVar (v : var) : Prop := match v with VArr a => Inv a | _ => True end.

(* observable expansions of a variable, as one record for the code leg:
   values "${a[@]}", keys "${!a[@]}", count ${#a[@]} *)
Definition obs_vals (v : var) : list str :=
  match v with VUnset => [] | VStr s => [s] | VArr a => a_list a end.
