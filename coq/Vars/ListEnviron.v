(* Vars/ListEnviron.v — model of expand/environ.go: listEnviron_ (case-sensitive,
   i.e. every GOOS except windows), listEnviron.Get, listEnviron.Each, funcEnviron.Get.
   Transliteration; Go slice indexing that can go out of range yields Panic.
   NO PROOFS in this file (it must extract/evaluate even when a proof breaks). *)
From Verif Require Import Base.Str.

Definition EQ : N := 61. (* '=' *)

(* --- listEnviron_ ---------------------------------------------------- *)

(* sort key of the comparison closure: a[:isep] with isep = max(index of '=', 0),
   i.e. the name before '=' ("" when there is no '=') *)
Definition sort_key (a : str) : str :=
  match index_byte EQ a with
  | None => []
  | Some i => firstn i a
  end.

(* slices.SortStableFunc: any stable sort computes the same permutation;
   modelled as stable insertion sort (insert after equal keys). *)
Fixpoint insert_stable (x : str) (l : list str) : list str :=
  match l with
  | [] => [x]
  | y :: l' =>
      match cmp_str (sort_key x) (sort_key y) with
      | Lt => x :: l
      | _ => y :: insert_stable x l'
      end
  end.

Definition sort_stable (l : list str) : list str :=
  fold_left (fun acc x => insert_stable x acc) l [].

(* The dedup loop.  [acc] is list[:i] reversed, [l] is list[i:].
   slices.Delete(list, i-1, i) with i = 0 would panic: acc = [] there. *)
Fixpoint dedup_loop (l : list str) (acc : list str) (last : str) : res (list str) :=
  match l with
  | [] => Ok (rev acc)
  | p :: rest =>
      match cut_byte EQ p with
      | None => dedup_loop rest acc last                 (* !ok: delete i *)
      | Some (name, _) =>
          match name with
          | [] => dedup_loop rest acc last               (* name == "": delete i *)
          | _ =>
              match cmp_str last name with
              | Eq => match acc with
                      | [] => Panic                       (* Delete(list, -1, 0) *)
                      | _ :: acc' => dedup_loop rest (p :: acc') last
                      end
              | _ => dedup_loop rest (p :: acc) name
              end
          end
      end
  end.

Definition list_environ (pairs : list str) : res (list str) :=
  dedup_loop (sort_stable pairs) [] [].

(* --- listEnviron.Get --------------------------------------------------- *)

(* the comparison closure of Get: compare the pair's name (strings.Cut before '=',
   the whole pair when there is no '=') with the wanted name *)
Definition pair_name (pair : str) : str :=
  match cut_byte EQ pair with Some (n, _) => n | None => pair end.
Definition pair_value (pair : str) : str :=
  match cut_byte EQ pair with Some (_, v) => v | None => [] end.

Definition get_cmp (name pair : str) : res comparison :=
  Ok (cmp_str (pair_name pair) name).

(* slices.BinarySearchFunc's loop: for i < j { h := (i+j)/2; if cmp(x[h]) < 0 {i = h+1} else {j = h} } *)
Fixpoint bsearch_loop (fuel : nat) (cmpf : str -> res comparison) (x : list str) (i j : nat) : res nat :=
  match fuel with
  | O => Ok i
  | S fuel' =>
      if Nat.ltb i j then
        let h := Nat.div2 (i + j) in
        match nth_error x h with
        | None => Panic
        | Some e =>
            match cmpf e with
            | Ok Lt => bsearch_loop fuel' cmpf x (S h) j
            | Ok _ => bsearch_loop fuel' cmpf x i h
            | Err c => Err c
            | Panic => Panic
            end
        end
      else Ok i
  end.

(* returns (i, found) *)
Definition bsearch (cmpf : str -> res comparison) (x : list str) : res (nat * bool) :=
  match bsearch_loop (S (length x)) cmpf x 0 (length x) with
  | Ok i =>
      match nth_error x i with
      | None => Ok (i, false)            (* i < n fails *)
      | Some e => match cmpf e with
                  | Ok Eq => Ok (i, true)
                  | Ok _ => Ok (i, false)
                  | Err c => Err c
                  | Panic => Panic
                  end
      end
  | Err c => Err c
  | Panic => Panic
  end.

(* Get: Some v = set variable with value v, None = unset Variable{} *)
Definition get (l : list str) (name : str) : res (option str) :=
  match bsearch (get_cmp name) l with
  | Ok (i, true) =>
      match nth_error l i with
      | None => Panic                                  (* l.pairs[i] *)
      | Some p => Ok (Some (pair_value p))
      end
  | Ok (_, false) => Ok None
  | Err c => Err c
  | Panic => Panic
  end.

(* --- listEnviron.Each --------------------------------------------------- *)
(* yields (name, value) in list order; Panic on a pair without '=' *)
Fixpoint each (l : list str) : res (list (str * str)) :=
  match l with
  | [] => Ok []
  | p :: rest =>
      match cut_byte EQ p with
      | None => Panic
      | Some nv => match each rest with
                   | Ok r => Ok (nv :: r)
                   | e => e
                   end
      end
  end.

(* the whole API: ListEnviron(pairs...).Get(name) and .Each *)
Definition api_get (pairs : list str) (name : str) : res (option str) :=
  match list_environ pairs with
  | Ok l => get l name
  | Err c => Err c
  | Panic => Panic
  end.

Definition api_each (pairs : list str) : res (list (str * str)) :=
  match list_environ pairs with
  | Ok l => each l
  | Err c => Err c
  | Panic => Panic
  end.

(* --- funcEnviron.Get ----------------------------------------------------- *)
Definition func_get (f : str -> str) (name : str) : option str :=
  match f name with [] => None | v => Some v end.

(* --- Spec: a map built left to right ------------------------------------- *)
(* a pair is valid iff it contains '=' and the name before it is non-empty *)
Definition valid_pair (p : str) : option (str * str) :=
  match cut_byte EQ p with
  | Some (n :: name, v) => Some (n :: name, v)
  | _ => None
  end.

(* association list, last binding wins: the spec map as a lookup function *)
Fixpoint spec_get (pairs : list str) (name : str) : option str :=
  match pairs with
  | [] => None
  | p :: rest =>
      match spec_get rest name with
      | Some v => Some v                       (* a later pair wins *)
      | None => match valid_pair p with
                | Some (n, v) => if str_eqb n name then Some v else None
                | None => None
                end
      end
  end.

(* names that survive, each once *)
Fixpoint spec_names (pairs : list str) (seen : list str) : list str :=
  match pairs with
  | [] => []
  | p :: rest =>
      match valid_pair p with
      | Some (n, _) =>
          if existsb (str_eqb n) seen then spec_names rest seen
          else n :: spec_names rest (n :: seen)
      | None => spec_names rest seen
      end
  end.

(* sortedness of a name list in plain string order (what "sorted order" means) *)
Fixpoint sorted_names (l : list str) : bool :=
  match l with
  | [] => true
  | a :: rest =>
      match rest with
      | [] => true
      | b :: _ => match cmp_str a b with Lt => sorted_names rest | _ => false end
      end
  end.

