(* Expand/ShellSpec.v — Spec for shell.Fields and shell.Expand on the fragment of ShellApi.v,
   written independently of the Go code's control flow.

   Fields (argument words, POSIX 2.6): every parsed item expands to MARKED characters —
   a character that can no longer be split (literal, quoted, or a non-IFS character of an
   unquoted expansion), a delimiter (an IFS white-space character produced by an unquoted
   expansion, or the blanks between words), or a quoted-null marker (quotes were present).
   The fields are the maximal delimiter-free segments that contain a character or a marker
   (an empty segment is dropped unless something in it was quoted).  An empty variable is unset.

   Expand (here-document text, POSIX 2.7.4 / bash manual): recursive descent over the text:
   backslash quotes only $ \ `; $name and ${name} are replaced by the value; everything else,
   quotes included, is literal.   No proofs in this file. *)
From Verif Require Import Base.Str Expand.ShellApi.
Open Scope N_scope.

Inductive mch := MC (c : N) | MQ | MSplit.

Section Spec.
  Variable env : str -> str.

  Definition tag (c : N) : mch := if is_ifs c then MSplit else MC c.

  Definition expand_item (it : item) : list mch :=
    match it with
    | IChar c | IQChar c => [MC c]
    | IQMarkS | IQMarkD => [MQ]
    | IVar n => map tag (env n)                      (* unquoted: subject to field splitting *)
    | IQVar n => MQ :: map MC (env n)                (* quoted: never split, never dropped *)
    | ITilde => map MC (match env HOME with [] => [126] | h => h end)   (* HOME unset: the tilde stays *)
    | ISep => [MSplit]
    end.

  Definition cons_opt (h : option str) (t : list str) : list str :=
    match h with Some f => f :: t | None => t end.
  Definition opt_s (h : option str) : str := match h with Some f => f | None => [] end.

  (* (the segment the list starts in: None = empty and nothing quoted, the fields after it) *)
  Fixpoint fspec (l : list mch) : option str * list str :=
    match l with
    | [] => (None, [])
    | MC c :: r => let '(h, t) := fspec r in (Some (c :: opt_s h), t)
    | MQ :: r => let '(h, t) := fspec r in (Some (opt_s h), t)
    | MSplit :: r => let '(h, t) := fspec r in (None, cons_opt h t)
    end.

  Definition fields_of_marked (l : list mch) : list str :=
    let '(h, t) := fspec l in cons_opt h t.

  Definition shell_fields_spec (s : str) : sres :=
    match lex_fields s with
    | LOk its => SOk (fields_of_marked (flat_map expand_item its))
    | LErr => SErr
    | LOut => SOut
    end.

  (* ---------------------------------------------------------------- here-document text *)

  (* the longest prefix of name characters *)
  Fixpoint take_name (s : str) : str * str :=
    match s with
    | c :: r => if name_char c then let '(n, rest) := take_name r in (c :: n, rest) else ([], s)
    | [] => ([], [])
    end.

  Definition econs (pre : str) (r : eres) : eres :=
    match r with EOk o => EOk (pre ++ o) | x => x end.

  Definition dollar_out (d : N) : bool :=
    in_range 48 57 d || (d =? 40) || existsb (N.eqb d) [64; 42; 35; 63; 45; 36; 33; 39; 34].

  Fixpoint hd_spec (fuel : nat) (s : str) : eres :=
    match fuel with
    | O => EOut
    | S f =>
        match s with
        | [] => EOk []
        | c :: r =>
            if c =? 92 then
              (* backslash: quotes $ \ ` only; otherwise it is kept *)
              match r with
              | [] => EOk [92]
              | d :: r' =>
                  if (d =? 36) || (d =? 92) || (d =? 96) then econs [d] (hd_spec f r')
                  else if d =? 10 then EOut
                  else econs [92; d] (hd_spec f r')
              end
            else if c =? 36 then
              match r with
              | [] => EOk [36]
              | d :: r' =>
                  if name_start d then
                    let '(n, rest) := take_name r in econs (env n) (hd_spec f rest)
                  else if d =? 123 then
                    match r' with
                    | [] => EErr
                    | e :: _ =>
                        if (e =? 125) then EOut                     (* ${} *)
                        else if negb (name_start e) then EOut       (* ${1 ${# ${! ... *)
                        else
                          let '(n, rest) := take_name r' in
                          match rest with
                          | [] => EErr                               (* unterminated ${name *)
                          | g :: rest' => if g =? 125 then econs (env n) (hd_spec f rest') else EOut
                          end
                    end
                  else if dollar_out d then EOut
                  else econs [36] (hd_spec f r)                      (* a lone $ is literal *)
              end
            else if c =? 96 then EOut
            else econs [c] (hd_spec f r)
        end
    end.

  Definition shell_expand_spec (s : str) : eres := hd_spec (S (length s)) s.
End Spec.
