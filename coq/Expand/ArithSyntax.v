(* Expand/ArithSyntax.v — model of syntax/parser_arithm.go (LangBash, compact=false) and of the
   arithmetic part of the lexer (syntax/lexer.go arithmToken / advanceLitOther), plus the
   C/bash precedence+associativity table as Spec and a printer with minimal parentheses.
   NO PROOFS in this file.

   AST = syntax.ArithmExpr:  *Word with one Lit part (Word), *Word{ParamExp{Short,Param,Index}}
   (Index, the naked a[i]), *ParenArithm, *UnaryArithm{Op,Post,X}, *BinaryArithm{Op,X,Y}
   (the ternary is Bin TernQuest c (Bin TernColon a b) exactly as the Go parser builds it).

   Levels (the Go chain, looser = bigger):
     0 Value  1 Unary  2 Power  3 Multiplication  4 Addition  5 Shift  6 Comparison  7 Equality
     8 Band  9 Bxor  10 Bor  11 Land  12 Lor  13 Ternary  14 Assign  15 Comma.
   Fuel: the parser functions take the parser-with-one-less-fuel as arguments and call it only
   after consuming a token, so fuel = number of tokens + 1 always suffices. *)
From Verif Require Import Base.Str.

Inductive binop :=
| Add | Sub | Mul | Quo | Rem | Pow
| Eql | Gtr | Lss | Neq | Leq | Geq
| And | Or | Xor | Shr | Shl
| AndArit | OrArit | XorBool | Comma | TernQuest | TernColon
| Assgn | AddAssgn | SubAssgn | MulAssgn | QuoAssgn | RemAssgn
| AndAssgn | OrAssgn | XorAssgn | ShlAssgn | ShrAssgn.

Inductive unop := Not | BitNeg | Plus | Minus | Inc | Dec.

Inductive expr :=
| Word (s : str)
| Index (name : str) (i : expr)
| Paren (x : expr)
| Un (op : unop) (post : bool) (x : expr)
| Bin (op : binop) (x y : expr).

Inductive token :=
| TLit (s : str)          (* _LitWord *)
| TOp (o : binop)         (* every binary operator token; plus/minus double as unary *)
| TNot | TTilde | TInc | TDec
| TLParen | TRParen | TLBrack | TRBrack.

Definition binop_code (o : binop) : N :=
  match o with
  | Add => 1 | Sub => 2 | Mul => 3 | Quo => 4 | Rem => 5 | Pow => 6
  | Eql => 7 | Gtr => 8 | Lss => 9 | Neq => 10 | Leq => 11 | Geq => 12
  | And => 13 | Or => 14 | Xor => 15 | Shr => 16 | Shl => 17
  | AndArit => 18 | OrArit => 19 | XorBool => 20 | Comma => 21 | TernQuest => 22 | TernColon => 23
  | Assgn => 24 | AddAssgn => 25 | SubAssgn => 26 | MulAssgn => 27 | QuoAssgn => 28 | RemAssgn => 29
  | AndAssgn => 30 | OrAssgn => 31 | XorAssgn => 32 | ShlAssgn => 33 | ShrAssgn => 34
  end%N.

Definition binop_eqb (a b : binop) : bool := N.eqb (binop_code a) (binop_code b).

Definition is_assign (o : binop) : bool :=
  match o with
  | Assgn | AddAssgn | SubAssgn | MulAssgn | QuoAssgn | RemAssgn
  | AndAssgn | OrAssgn | XorAssgn | ShlAssgn | ShrAssgn => true
  | _ => false
  end.

(* ---------------------------------------------------------------- Spec: the C / bash table *)
(* precedence level of each infix operator (bash(1) ARITHMETIC EVALUATION, C's table with `**`
   above the multiplicative operators and below the unary ones); TernColon is no infix operator *)
Definition prec (o : binop) : nat :=
  match o with
  | Pow => 2
  | Mul | Quo | Rem => 3
  | Add | Sub => 4
  | Shl | Shr => 5
  | Lss | Gtr | Leq | Geq => 6
  | Eql | Neq => 7
  | And => 8
  | Xor => 9
  | Or => 10
  | AndArit => 11
  | OrArit | XorBool => 12
  | TernQuest => 13
  | Assgn | AddAssgn | SubAssgn | MulAssgn | QuoAssgn | RemAssgn
  | AndAssgn | OrAssgn | XorAssgn | ShlAssgn | ShrAssgn => 14
  | Comma => 15
  | TernColon => 16
  end.

(* true = right associative *)
Definition rassoc (o : binop) : bool :=
  match o with
  | Pow | TernQuest => true
  | _ => is_assign o
  end.

Definition level_of (e : expr) : nat :=
  match e with
  | Word _ | Index _ _ | Paren _ => 0
  | Un Inc _ _ | Un Dec _ _ => 0
  | Un _ _ _ => 1
  | Bin o _ _ => prec o
  end.

(* ---------------------------------------------------------------- names *)
Definition ascii_letter (c : N) : bool :=
  ((65 <=? c) && (c <=? 90) || (97 <=? c) && (c <=? 122))%N.
Definition ascii_digit (c : N) : bool := ((48 <=? c) && (c <=? 57))%N.

(* syntax.ValidName *)
Fixpoint valid_name_rest (s : str) : bool :=
  match s with
  | [] => true
  | c :: r => (ascii_letter c || N.eqb c 95 || ascii_digit c) && valid_name_rest r
  end.
Definition valid_name (s : str) : bool :=
  match s with
  | [] => false
  | c :: r => (ascii_letter c || N.eqb c 95) && valid_name_rest r
  end.

(* isArithName *)
Definition is_name_expr (e : option expr) : bool :=
  match e with
  | Some (Word s) => valid_name s
  | Some (Index _ _) => true
  | _ => false
  end.

(* ---------------------------------------------------------------- the parser *)
Inductive pres :=
| POk (v : option expr) (rest : list token)   (* v = None is Go's nil expression *)
| PErr
| PFuel.

(* operators of the left-associative levels, as passed to arithmExprBinary by each level *)
Definition level_ops (k : nat) : list binop :=
  match k with
  | 3 => [Mul; Quo; Rem]
  | 4 => [Add; Sub]
  | 5 => [Shl; Shr]
  | 6 => [Lss; Gtr; Leq; Geq]
  | 7 => [Eql; Neq]
  | 8 => [And]
  | 9 => [Xor]
  | 10 => [Or]
  | 11 => [AndArit]
  | 12 => [OrArit; XorBool]
  | 15 => [Comma]
  | _ => []
  end.

Definition op_in (o : binop) (l : list binop) : bool := existsb (binop_eqb o) l.

Definition untok (o : unop) : token :=
  match o with
  | Not => TNot | BitNeg => TTilde | Plus => TOp Add | Minus => TOp Sub | Inc => TInc | Dec => TDec
  end.

(* eitherIndex: a leading `*` token is turned into the literal word "*" *)
Definition star_fix (ts : list token) : list token :=
  match ts with TOp Mul :: r => TLit [42%N] :: r | _ => ts end.

Definition starts_colon (ts : list token) : bool :=
  match ts with TOp TernColon :: _ => true | _ => false end.

Section Step.
  (* R k ts = the level-k parser with one less fuel; L = the binary loop with one less fuel *)
  Variable R : nat -> list token -> pres.
  Variable L : nat -> option expr -> list token -> pres.

  (* tail of arithmExprValue: a postfix ++/-- after a value *)
  Definition post_step (x : expr) (ts : list token) : pres :=
    match ts with
    | TInc :: ts' => if is_name_expr (Some x) then POk (Some (Un Inc true x)) ts' else PErr
    | TDec :: ts' => if is_name_expr (Some x) then POk (Some (Un Dec true x)) ts' else PErr
    | _ => POk (Some x) ts
    end.

  Definition pre_incdec (o : unop) (ts' : list token) : pres :=
    match ts' with
    | TLit _ :: _ =>
        match R 0 ts' with
        | POk (Some x) r => POk (Some (Un o false x)) r
        | POk None _ => PErr            (* unreachable: a literal always yields a value *)
        | e => e
        end
    | _ => PErr                          (* "++ must be followed by a literal" *)
    end.

  (* arithmExprValue *)
  Definition value_step (ts : list token) : pres :=
    match ts with
    | TInc :: ts' => pre_incdec Inc ts'
    | TDec :: ts' => pre_incdec Dec ts'
    | TLParen :: ts' =>
        match R 15 ts' with
        | POk (Some x) (TRParen :: r) => post_step (Paren x) r
        | POk _ _ => PErr
        | e => e
        end
    | TLBrack :: _ => PErr
    | TOp TernColon :: _ => PErr
    | TLit l :: TLBrack :: ts' =>
        match R 15 (star_fix ts') with
        | POk (Some i) (TRBrack :: r) => post_step (Index l i) r
        | POk _ _ => PErr
        | e => e
        end
    | TLit l :: ts' => post_step (Word l) ts'
    | _ => POk None ts
    end.

  Definition un_step (o : unop) (ts' : list token) : pres :=
    match R 1 ts' with
    | POk (Some x) r => POk (Some (Un o false x)) r
    | POk None _ => PErr
    | e => e
    end.

  (* arithmExprUnary *)
  Definition unary_step (ts : list token) : pres :=
    match ts with
    | TNot :: ts' => un_step Not ts'
    | TTilde :: ts' => un_step BitNeg ts'
    | TOp Add :: ts' => un_step Plus ts'
    | TOp Sub :: ts' => un_step Minus ts'
    | _ => value_step ts
    end.

  (* what each level does after its first operand [v] has been parsed *)
  Definition tail_pow (v : option expr) (o : binop) (ts ts' : list token) : pres :=
    if binop_eqb o Pow then                   (* arithmExprPower, right associative *)
      match v with
      | None => PErr
      | Some x =>
          match R 2 ts' with
          | POk (Some y) r => POk (Some (Bin Pow x y)) r
          | POk None _ => PErr
          | e => e
          end
      end
    else POk v ts.

  Definition tail_tern (v : option expr) (o : binop) (ts ts' : list token) : pres :=
    if binop_eqb o TernQuest then             (* arithmExprTernary *)
      match v with
      | None => PErr
      | Some c =>
          if starts_colon ts' then PErr
          else
            match R 15 ts' with
            | POk (Some a) (TOp TernColon :: r) =>
                match R 13 r with
                | POk (Some b) r' => POk (Some (Bin TernQuest c (Bin TernColon a b))) r'
                | POk None _ => PErr
                | e => e
                end
            | POk _ _ => PErr
            | e => e
            end
      end
    else POk v ts.

  Definition tail_assign (v : option expr) (o : binop) (ts ts' : list token) : pres :=
    if is_assign o then                       (* arithmExprAssign, right associative *)
      match v with
      | Some x =>
          if is_name_expr v then
            match R 14 ts' with
            | POk (Some y) r => POk (Some (Bin o x y)) r
            | POk None _ => PErr
            | e => e
            end
          else PErr
      | None => PErr
      end
    else POk v ts.

  Definition tail_left (k : nat) (v : option expr) (o : binop) (ts ts' : list token) : pres :=
    if op_in o (level_ops k) then             (* arithmExprBinary *)
      match v with
      | None => PErr
      | Some x =>
          match R (pred k) ts' with
          | POk (Some y) r => L k (Some (Bin o x y)) r
          | POk None _ => PErr
          | e => e
          end
      end
    else POk v ts.

  Definition tail_step (k : nat) (v : option expr) (ts : list token) : pres :=
    match ts with
    | TOp o :: ts' =>
        if Nat.eqb k 2 then tail_pow v o ts ts'
        else if Nat.eqb k 13 then tail_tern v o ts ts'
        else if Nat.eqb k 14 then tail_assign v o ts ts'
        else tail_left k v o ts ts'
    | _ => POk v ts
    end.

  Fixpoint level_step (k : nat) (ts : list token) : pres :=
    match k with
    | O => value_step ts
    | S k' =>
        match k' with
        | O => unary_step ts
        | S _ =>
            match level_step k' ts with
            | POk v r => tail_step k v r
            | e => e
            end
        end
    end.
End Step.

Fixpoint pa (f : nat) (k : nat) (ts : list token) : pres :=
  match f with
  | O => PFuel
  | S f' => level_step (pa f') (lp f') k ts
  end
with lp (f : nat) (k : nat) (v : option expr) (ts : list token) : pres :=
  match f with
  | O => PFuel
  | S f' => tail_step (pa f') (lp f') k v ts
  end.

(* Parser.Arithmetic: returns the expression (possibly nil) and does NOT check that the input
   is exhausted; None = p.err != nil. *)
Definition parse_tokens (ts : list token) : option (option expr * list token) :=
  match pa (S (length ts)) 15 ts with
  | POk v r => Some (v, r)
  | _ => None
  end.

(* ---------------------------------------------------------------- the printer *)
Fixpoint print (e : expr) : list token :=
  match e with
  | Word s => [TLit s]
  | Index n i => TLit n :: TLBrack :: print i ++ [TRBrack]
  | Paren x => TLParen :: print x ++ [TRParen]
  | Un o false x => untok o :: print x
  | Un o true x => print x ++ [untok o]
  | Bin o x y => print x ++ TOp o :: print y
  end.

(* parenthesise [e] iff its level is looser than the position admits *)
Definition par (k : nat) (e : expr) : expr :=
  if Nat.leb (level_of e) k then e else Paren e.

(* insert exactly the parentheses the table requires *)
Fixpoint min_paren (e : expr) : expr :=
  match e with
  | Word s => Word s
  | Index n i => Index n (min_paren i)
  | Paren x => Paren (min_paren x)
  | Un o post x =>
      match o with
      | Inc | Dec => Un o post (min_paren x)
      | _ => Un o post (par 1 (min_paren x))
      end
  | Bin o x y =>
      match o with
      | TernQuest =>
          match y with
          | Bin TernColon a b =>
              Bin TernQuest (par 12 (min_paren x)) (Bin TernColon (min_paren a) (par 13 (min_paren b)))
          | _ => Bin o (min_paren x) (min_paren y)
          end
      | _ =>
          if is_assign o then Bin o (min_paren x) (par 14 (min_paren y))
          else if rassoc o then Bin o (par (pred (prec o)) (min_paren x)) (par (prec o) (min_paren y))
          else Bin o (par (prec o) (min_paren x)) (par (pred (prec o)) (min_paren y))
      end
  end.

Definition print_min (e : expr) : list token := print (min_paren e).

(* remove every ParenArithm (they do not change the value: Arithm recurses through them) *)
Fixpoint strip (e : expr) : expr :=
  match e with
  | Word s => Word s
  | Index n i => Index n (strip i)
  | Paren x => strip x
  | Un o p x => Un o p (strip x)
  | Bin o x y => Bin o (strip x) (strip y)
  end.

(* the trees the parser can produce at all ("every expression tree"): operands of ++/-- and of
   assignments are names, only prefix forms of ! ~ + -, ternaries have their `:` node *)
Definition name_shape (e : expr) : bool :=
  match e with
  | Word s => valid_name s
  | Index _ _ => true
  | _ => false
  end.

Fixpoint wf (e : expr) : bool :=
  match e with
  | Word _ => true
  | Index _ i => wf i
  | Paren x => wf x
  | Un o post x =>
      match o with
      | Inc | Dec => name_shape x && wf x
      | _ => negb post && wf x
      end
  | Bin o x y =>
      match o with
      | TernQuest => match y with Bin TernColon a b => wf x && wf a && wf b | _ => false end
      | TernColon => false
      | _ => if is_assign o then name_shape x && wf x && wf y else wf x && wf y
      end
  end.

(* well-parenthesised with respect to the table: every operand sits at a level its position
   admits (left operand of a left-associative operator: same level or tighter; right operand:
   strictly tighter; mirrored for the right-associative ones), and the tree is [wf] *)
Fixpoint wp (e : expr) : bool :=
  match e with
  | Word _ => true
  | Index _ i => wp i
  | Paren x => wp x
  | Un o post x =>
      match o with
      | Inc | Dec => name_shape x && wp x
      | _ => negb post && Nat.leb (level_of x) 1 && wp x
      end
  | Bin o x y =>
      match o with
      | TernQuest =>
          match y with
          | Bin TernColon a b =>
              Nat.leb (level_of x) 12 && wp x && wp a && Nat.leb (level_of b) 13 && wp b
          | _ => false
          end
      | TernColon => false
      | _ =>
          if is_assign o then name_shape x && wp x && Nat.leb (level_of y) 14 && wp y
          else if rassoc o then
            Nat.leb (level_of x) (pred (prec o)) && Nat.leb (level_of y) (prec o) && wp x && wp y
          else Nat.leb (level_of x) (prec o) && Nat.leb (level_of y) (pred (prec o)) && wp x && wp y
      end
  end.

(* ---------------------------------------------------------------- the lexer *)
(* bytes that continue a literal word in arithmetic mode (advanceLitOther does not break on them);
   the model alphabet is [A-Za-z0-9_#@]; any other non-operator byte is outside the model (None) *)
Definition word_start (c : N) : bool := ascii_letter c || ascii_digit c || N.eqb c 95.
Definition word_char (c : N) : bool := word_start c || N.eqb c 35 || N.eqb c 64.
Definition is_space (c : N) : bool := N.eqb c 32 || N.eqb c 9 || N.eqb c 10 || N.eqb c 13.

(* arithmToken: token and number of EXTRA bytes consumed after the first *)
Definition op_token (c : N) (c2 c3 : option N) : option (token * nat) :=
  let is (o : option N) (x : N) := match o with Some y => N.eqb x y | None => false end in
  let c_is (x : N) := N.eqb c x in
  if c_is 33%N then (if is c2 61%N then Some (TOp Neq, 1) else Some (TNot, 0))             (* ! *)
  else if c_is 61%N then (if is c2 61%N then Some (TOp Eql, 1) else Some (TOp Assgn, 0))  (* = *)
  else if c_is 126%N then Some (TTilde, 0)
  else if c_is 40%N then Some (TLParen, 0)
  else if c_is 41%N then Some (TRParen, 0)
  else if c_is 38%N then (if is c2 38%N then Some (TOp AndArit, 1)                        (* & *)
          else if is c2 61%N then Some (TOp AndAssgn, 1) else Some (TOp And, 0))
  else if c_is 124%N then (if is c2 124%N then Some (TOp OrArit, 1)                       (* | *)
           else if is c2 61%N then Some (TOp OrAssgn, 1) else Some (TOp Or, 0))
  else if c_is 60%N then (if is c2 60%N then (if is c3 61%N then Some (TOp ShlAssgn, 2) else Some (TOp Shl, 1))
          else if is c2 61%N then Some (TOp Leq, 1) else Some (TOp Lss, 0))
  else if c_is 62%N then (if is c2 62%N then (if is c3 61%N then Some (TOp ShrAssgn, 2) else Some (TOp Shr, 1))
          else if is c2 61%N then Some (TOp Geq, 1) else Some (TOp Gtr, 0))
  else if c_is 43%N then (if is c2 43%N then Some (TInc, 1)
          else if is c2 61%N then Some (TOp AddAssgn, 1) else Some (TOp Add, 0))
  else if c_is 45%N then (if is c2 45%N then Some (TDec, 1)
          else if is c2 61%N then Some (TOp SubAssgn, 1) else Some (TOp Sub, 0))
  else if c_is 37%N then (if is c2 61%N then Some (TOp RemAssgn, 1) else Some (TOp Rem, 0))
  else if c_is 42%N then (if is c2 42%N then Some (TOp Pow, 1)
          else if is c2 61%N then Some (TOp MulAssgn, 1) else Some (TOp Mul, 0))
  else if c_is 47%N then (if is c2 61%N then Some (TOp QuoAssgn, 1) else Some (TOp Quo, 0))
  else if c_is 94%N then (if is c2 94%N then Some (TOp XorBool, 1)
          else if is c2 61%N then Some (TOp XorAssgn, 1) else Some (TOp Xor, 0))
  else if c_is 91%N then Some (TLBrack, 0)
  else if c_is 93%N then Some (TRBrack, 0)
  else if c_is 44%N then Some (TOp Comma, 0)
  else if c_is 63%N then Some (TOp TernQuest, 0)
  else if c_is 58%N then Some (TOp TernColon, 0)
  else None.

(* [cur] = pending word bytes, reversed *)
Fixpoint lex_go (fuel : nat) (cur : str) (s : str) : option (list token) :=
  let flush (k : list token) := match cur with [] => k | _ => TLit (rev cur) :: k end in
  match fuel with
  | O => None
  | S fuel' =>
      match s with
      | [] => Some (flush [])
      | c :: s1 =>
          if word_char c then
            match cur with
            | [] => if word_start c then lex_go fuel' [c] s1 else None
            | _ => lex_go fuel' (c :: cur) s1
            end
          else if is_space c then option_map flush (lex_go fuel' [] s1)
          else
            match op_token c (nth_error s1 0) (nth_error s1 1) with
            | Some (t, n) => option_map (fun k => flush (t :: k)) (lex_go fuel' [] (skipn n s1))
            | None => None
            end
      end
  end.

Definition lex (s : str) : option (list token) := lex_go (S (length s)) [] s.

(* text -> tree, as Parser.Arithmetic; None = outside the model alphabet or parse error *)
Inductive ptext :=
| TUnsupported                       (* bytes outside the model's alphabet *)
| TError                             (* the parser reports an error *)
| TTree (v : option expr) (rest : list token).

Definition parse_text (s : str) : ptext :=
  match lex s with
  | None => TUnsupported
  | Some ts => match parse_tokens ts with
               | Some (v, r) => TTree v r
               | None => TError
               end
  end.

(* tokens -> text, one space between tokens *)
Definition binop_text (o : binop) : str :=
  match o with
  | Add => [43] | Sub => [45] | Mul => [42] | Quo => [47] | Rem => [37] | Pow => [42;42]
  | Eql => [61;61] | Gtr => [62] | Lss => [60] | Neq => [33;61] | Leq => [60;61] | Geq => [62;61]
  | And => [38] | Or => [124] | Xor => [94] | Shr => [62;62] | Shl => [60;60]
  | AndArit => [38;38] | OrArit => [124;124] | XorBool => [94;94] | Comma => [44]
  | TernQuest => [63] | TernColon => [58]
  | Assgn => [61] | AddAssgn => [43;61] | SubAssgn => [45;61] | MulAssgn => [42;61]
  | QuoAssgn => [47;61] | RemAssgn => [37;61] | AndAssgn => [38;61] | OrAssgn => [124;61]
  | XorAssgn => [94;61] | ShlAssgn => [60;60;61] | ShrAssgn => [62;62;61]
  end%N.

Definition token_text (t : token) : str :=
  match t with
  | TLit s => s
  | TOp o => binop_text o
  | TNot => [33] | TTilde => [126] | TInc => [43;43] | TDec => [45;45]
  | TLParen => [40] | TRParen => [41] | TLBrack => [91] | TRBrack => [93]
  end%N.

Fixpoint render (ts : list token) : str :=
  match ts with
  | [] => []
  | t :: r => token_text t ++ 32%N :: render r
  end.

(* ---------------------------------------------------------------- decidable equality (for the legs) *)
Definition unop_code (o : unop) : N :=
  match o with Not => 1 | BitNeg => 2 | Plus => 3 | Minus => 4 | Inc => 5 | Dec => 6 end%N.

Fixpoint expr_eqb (a b : expr) : bool :=
  match a, b with
  | Word s, Word t => str_eqb s t
  | Index n i, Index m j => str_eqb n m && expr_eqb i j
  | Paren x, Paren y => expr_eqb x y
  | Un o p x, Un o' p' y => N.eqb (unop_code o) (unop_code o') && Bool.eqb p p' && expr_eqb x y
  | Bin o x1 y1, Bin o' x2 y2 => binop_eqb o o' && expr_eqb x1 x2 && expr_eqb y1 y2
  | _, _ => false
  end.
