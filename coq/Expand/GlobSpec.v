(* Expand/GlobSpec.v — Spec of pathname expansion for words without an active "**":
   the paths of the file system whose components match the components of the word.
   A path is built component by component from the prefix reached so far:
   "" "." ".." are appended as they are; a component without wildcards must exist (and be a
   directory, possibly through a symlink, when more components follow); a component with
   wildcards ranges over the entries of the directory reached so far (symlinks followed) whose
   NAME matches it like bash says (bash_name_matches: pattern match + explicit leading dot),
   restricted to directories when more components follow.   No proofs here. *)
From Verif Require Import Base.Str Expand.Param Expand.ParamSpec Expand.Glob.
Open Scope N_scope.

(* what the manual calls matching a file name against a pattern component *)
Definition spec_comp_toks (s : str) : list ptok :=
  map (fun c => if c =? 42 then TStar else if c =? 63 then TAny else TLit c) s.

Definition bash_name_matches (dotglob : bool) (part name : str) : Prop :=
  (* a leading dot must be matched explicitly unless dotglob is set *)
  (dotglob = true \/ starts_with_dot part = true \/ starts_with_dot name = false) /\
  pmatch (spec_comp_toks part) name.

(* is the entry a directory, following a symlink *)
Definition entry_is_dir (fs : fsys) (dir : str) (e : str * kind) : Prop :=
  match snd e with
  | KDir => True
  | KFile => False
  | KLink _ => exists ents, read_dir fs (path_join2 dir (fst e)) = inr ents
  end.

Definition step_rel (fs : fsys) (dotglob : bool) (part : str) (want_dir : bool) (m m' : str) : Prop :=
  if is_special_part part then m' = path_join2 m part
  else if negb (has_meta part) then
    m' = path_join2 m part /\
    match read_dir fs m' with
    | inl NotExist => False
    | inl NotDir => want_dir = false       (* exists, but is not a directory *)
    | inr _ => True
    end
  else
    exists ents e, read_dir fs m = inr ents /\ In e ents /\
      (want_dir = true -> entry_is_dir fs m e) /\
      bash_name_matches dotglob part (fst e) /\ m' = path_join2 m (fst e).

Fixpoint path_rel (fs : fsys) (dotglob : bool) (parts : list str) (m p : str) : Prop :=
  match parts with
  | [] => p = m
  | part :: rest =>
      exists m', step_rel fs dotglob part (match rest with [] => false | _ => true end) m m' /\
                 path_rel fs dotglob rest m' p
  end.

(* ------------------------------------------------------------------ "**" (globstar) *)

(* names "**" descends through / yields: not starting with a dot unless dotglob *)
Definition star_ok (dotglob : bool) (n : str) : Prop :=
  dotglob = true \/ exists c r, n = c :: r /\ c <> DOT.

(* c is an entry of directory d that "**" may yield (a directory when more components follow) *)
Definition gs_child (fs : fsys) (dotglob want_dir : bool) (d c : str) : Prop :=
  exists ents e, read_dir fs d = inr ents /\ In e ents /\
    (want_dir = true -> entry_is_dir fs d e) /\ star_ok dotglob (fst e) /\ c = path_join2 d (fst e).

(* zero or more levels below d *)
Inductive gs_desc (fs : fsys) (dotglob want_dir : bool) : str -> str -> Prop :=
| gd_refl : forall d, gs_desc fs dotglob want_dir d d
| gd_step : forall d c p, gs_child fs dotglob want_dir d c -> gs_desc fs dotglob want_dir c p ->
            gs_desc fs dotglob want_dir d p.

Definition step_rel_gs (fs : fsys) (o : gopts) (part : str) (want_dir : bool) (m m' : str) : Prop :=
  if str_eqb part [42; 42] && o_star o
  then gs_desc fs (o_dot o) want_dir (path_join2 m []) m'       (* "a/**" starts at "a/" *)
  else step_rel fs (o_dot o) part want_dir m m'.

Fixpoint path_rel_gs (fs : fsys) (o : gopts) (parts : list str) (m p : str) : Prop :=
  match parts with
  | [] => p = m
  | part :: rest =>
      exists m', step_rel_gs fs o part (match rest with [] => false | _ => true end) m m' /\
                 path_rel_gs fs o rest m' p
  end.

(* a file system on which ReadDir2 never reports a symbolic link *)
Definition no_symlinks (fs : fsys) : Prop :=
  forall d ents e, read_dir fs d = inr ents -> In e ents -> match snd e with KLink _ => False | _ => True end.
