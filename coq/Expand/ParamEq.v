(* Expand/ParamEq.v — boolean equalities and the table-driven instantiation of the
   function arguments of Expand/Param.v, used by the code leg (checks/c21.py) to compare the
   model with the Go observations inside the kernel.  No proofs. *)
From Verif Require Import Base.Str Expand.Param.
Open Scope N_scope.

Fixpoint strs_eqb (a b : list str) : bool :=
  match a, b with
  | [], [] => true
  | x :: a', y :: b' => str_eqb x y && strs_eqb a' b'
  | _, _ => false
  end.

Fixpoint zs_eqb (a b : list Z) : bool :=
  match a, b with
  | [], [] => true
  | x :: a', y :: b' => Z.eqb x y && zs_eqb a' b'
  | _, _ => false
  end.

Fixpoint pairs_eqb (a b : list (str * str)) : bool :=
  match a, b with
  | [], [] => true
  | (k1, v1) :: a', (k2, v2) :: b' => str_eqb k1 k2 && str_eqb v1 v2 && pairs_eqb a' b'
  | _, _ => false
  end.

Definition var_eqb (a b : var) : bool :=
  match a, b with
  | VUnset, VUnset => true
  | VStr x, VStr y => str_eqb x y
  | VIdx l1 None, VIdx l2 None => strs_eqb l1 l2
  | VIdx l1 (Some i1), VIdx l2 (Some i2) => strs_eqb l1 l2 && zs_eqb i1 i2
  | VAssoc m1, VAssoc m2 => pairs_eqb m1 m2
  | _, _ => false
  end.

Definition upd_eqb (a b : option (str * var)) : bool :=
  match a, b with
  | None, None => true
  | Some (n1, v1), Some (n2, v2) => str_eqb n1 n2 && var_eqb v1 v2
  | _, _ => false
  end.

Definition fields_outcome := outcome (list str * option (str * var)).

Definition outcome_eqb (a b : fields_outcome) : bool :=
  match a, b with
  | OOk (f1, u1), OOk (f2, u2) => strs_eqb f1 f2 && upd_eqb u1 u2
  | OErrUnset m1, OErrUnset m2 => str_eqb m1 m2
  | OErr c1, OErr c2 => c1 =? c2
  | OPanic, OPanic => true
  | _, _ => false
  end.

(* tables dumped from the Go runtime by the harness *)
Definition tab_fn (tab : list (N * N)) (c : N) : N :=
  match find (fun p => fst p =? c) tab with Some (_, d) => d | None => c end.

Definition quote_fn (tab : list (str * str)) (s : str) : str :=
  match find (fun p => str_eqb (fst p) s) tab with Some (_, q) => q | None => s end.

Definition case_t := (env * pexp * bool * fields_outcome)%type.

Fixpoint mismatches (up lo : list (N * N)) (qt : list (str * str)) (i : nat) (cs : list case_t) : list nat :=
  match cs with
  | [] => []
  | (e, pe, q, obs) :: rest =>
      if outcome_eqb (expand_word (tab_fn up) (tab_fn lo) (quote_fn qt) e pe q) obs
      then mismatches up lo qt (S i) rest
      else i :: mismatches up lo qt (S i) rest
  end.
