(* Expand/Arith.v — model of expand/arith.go (Arithm, atoi, atoiLargeBase, assgnArit, intPow,
   binArit) over a string environment, and the Spec [bash_arith]: bash's rule, where the value
   of a variable is itself evaluated as an expression, over unbounded integers with explicit
   "platform-defined" results (signed overflow, shift counts outside 0..63).
   NO PROOFS in this file.

   Go's int/int64 are 64-bit two's complement: every arithmetic result goes through [wrap64].
   Environment: cfg.Env as a WriteEnviron whose Set always succeeds (sorted association list);
   envGet of an unset name is "".
   Not modelled: evaluation of a[i] reads (ParamExp machinery): [Err EUnmodelled], excluded from
   every theorem and from the code leg; strings.TrimSpace is modelled for ASCII white space only;
   non-Lit word parts ($x, quotes) are outside the token alphabet of ArithSyntax. *)
From Verif Require Import Base.Str Expand.ArithSyntax.
Open Scope Z_scope.

Definition two63 : Z := 9223372036854775808.
Definition two64 : Z := 18446744073709551616.
Definition wrap64 (z : Z) : Z := (z + two63) mod two64 - two63.
Definition in64 (z : Z) : bool := (- two63 <=? z) && (z <? two63).

(* ---------------------------------------------------------------- environment *)
Definition env := list (str * str).

Fixpoint env_get (e : env) (n : str) : str :=
  match e with
  | [] => []
  | (k, v) :: r => if str_eqb k n then v else env_get r n
  end.

Fixpoint env_set (e : env) (n v : str) : env :=
  match e with
  | [] => [(n, v)]
  | (k, v0) :: r =>
      match cmp_str n k with
      | Eq => (n, v) :: r
      | Lt => (n, v) :: (k, v0) :: r
      | Gt => (k, v0) :: env_set r n v
      end
  end.

(* ---------------------------------------------------------------- strconv *)
Definition nz (c : N) : Z := Z.of_N c.

(* strings.TrimSpace, ASCII part: \t \n \v \f \r and space *)
Definition is_ws (c : N) : bool := ((9 <=? c) && (c <=? 13) || (c =? 32))%N.
Fixpoint trim_left (s : str) : str :=
  match s with
  | c :: r => if is_ws c then trim_left r else s
  | [] => []
  end.
Definition trim (s : str) : str := rev (trim_left (rev (trim_left s))).

(* digit value in strconv.ParseUint: 0-9, then letters of either case from 10 *)
Definition digit_val (c : N) : option Z :=
  if ((48 <=? c) && (c <=? 57))%N then Some (nz c - 48)
  else if ((97 <=? c) && (c <=? 122))%N then Some (nz c - 97 + 10)
  else if ((65 <=? c) && (c <=? 90))%N then Some (nz c - 65 + 10)
  else None.

Inductive pu := PUVal (n : Z) | PUSyntax | PURange.

(* the loop of strconv.ParseUint (no base prefix, no underscores: base != 0) *)
Fixpoint parse_uint_loop (base maxval : Z) (s : str) (n : Z) : pu :=
  match s with
  | [] => PUVal n
  | c :: r =>
      match digit_val c with
      | None => PUSyntax
      | Some d =>
          if d >=? base then PUSyntax
          else if n >=? (two64 - 1) / base + 1 then PURange
          else let n1 := n * base + d in
               if n1 >? maxval then PURange else parse_uint_loop base maxval r n1
      end
  end.

(* strconv.ParseInt(s, base, bits): (value, err != nil) *)
Definition parse_int (s : str) (base bits : Z) : Z * bool :=
  let '(neg, s1) :=
    match s with
    | c :: r => if (c =? 43)%N then (false, r) else if (c =? 45)%N then (true, r) else (false, s)
    | [] => (false, s)
    end in
  match s1 with
  | [] => (0, true)
  | _ =>
      let maxval := 2 ^ bits - 1 in
      let cut := 2 ^ (bits - 1) in
      match parse_uint_loop base maxval s1 0 with
      | PUSyntax => (0, true)
      | r =>
          let un := match r with PUVal n => n | _ => maxval end in
          let rerr := match r with PUVal _ => false | _ => true end in
          if negb neg && (un >=? cut) then (cut - 1, true)
          else if neg && (un >? cut) then (- cut, true)
          else ((if neg then - un else un), rerr)
      end
  end.

(* strconv.FormatInt(v, 10) *)
Fixpoint digits_fuel (fuel : nat) (n : Z) (acc : str) : str :=
  let acc' := Z.to_N (48 + n mod 10) :: acc in
  match fuel with
  | O => acc'
  | S f => if n <? 10 then acc' else digits_fuel f (n / 10) acc'
  end.
Definition fmt_nat (n : Z) : str := digits_fuel (Z.to_nat (Z.log2 n)) n [].
Definition fmt_int (z : Z) : str := if z <? 0 then 45%N :: fmt_nat (- z) else fmt_nat z.

(* ---------------------------------------------------------------- atoi *)
(* atoiLargeBase: bases 37..64, digits 0-9 a-z A-Z @ _ ; any bad digit gives 0; int64 wraps *)
Definition large_digit (c : N) : option Z :=
  if ((48 <=? c) && (c <=? 57))%N then Some (nz c - 48)
  else if ((97 <=? c) && (c <=? 122))%N then Some (nz c - 97 + 10)
  else if ((65 <=? c) && (c <=? 90))%N then Some (nz c - 65 + 36)
  else if (c =? 64)%N then Some 62
  else if (c =? 95)%N then Some 63
  else None.

Fixpoint atoi_large (base : Z) (s : str) (n : Z) : Z :=
  match s with
  | [] => n
  | c :: r =>
      match large_digit c with
      | None => 0
      | Some d => if d >=? base then 0 else atoi_large base r (wrap64 (n * base + d))
      end
  end.

Definition strip_sign (s : str) : bool * str :=
  match s with
  | c :: r => if (c =? 43)%N then (false, r) else if (c =? 45)%N then (true, r) else (false, s)
  | [] => (false, s)
  end.

(* atoi after TrimSpace and the sign have been taken off *)
Definition atoi_body (neg : bool) (s : str) : Z :=
  let fin (n : Z) := if neg then wrap64 (- n) else n in
  let dflt :=
    match cut_byte 35 s with
    | Some (bs, ds) =>
        let '(b, err) := parse_int bs 10 8 in
        if err || (b <? 2) || (b >? 64) then 0
        else fin (if b >? 36 then atoi_large b ds 0 else fst (parse_int ds b 64))
    | None => fin (fst (parse_int s 10 64))
    end in
  match s with
  | c :: r =>
      if (c =? 48)%N then
        match r with
        | c2 :: r2 => if ((c2 =? 120) || (c2 =? 88))%N then fin (fst (parse_int r2 16 64))
                      else fin (fst (parse_int r 8 64))
        | [] => fin (fst (parse_int r 8 64))
        end
      else dflt
  | [] => dflt
  end.

Definition atoi (s0 : str) : Z :=
  let '(neg, s) := strip_sign (trim s0) in atoi_body neg s.

(* ---------------------------------------------------------------- Arithm *)
Definition EDivZero : N := 1%N.
Definition ENegExp : N := 2%N.
Definition EUnsupOp : N := 3%N.
Definition ELvalue : N := 4%N.
Definition ESyntax : N := 5%N.
Definition ERecursion : N := 6%N.
Definition EUnmodelled : N := 99%N.

Definition one_if (b : bool) : Z := if b then 1 else 0.

(* the name-following loop of the *Word case: at most 99 hops *)
Fixpoint lookup (fuel : nat) (e : env) (s : str) : str :=
  if valid_name s then
    match env_get e s with
    | [] => s
    | v => match fuel with O => s | S f => lookup f e v end
    end
  else s.

(* intPow: the loop over the bits of b, low to high *)
Fixpoint pow_loop (b : positive) (a p : Z) : Z :=
  match b with
  | xH => wrap64 (p * a)
  | xO b' => pow_loop b' (wrap64 (a * a)) p
  | xI b' => pow_loop b' (wrap64 (a * a)) (wrap64 (p * a))
  end.
Definition int_pow (a b : Z) : Z :=
  match b with Zpos p => pow_loop p a 1 | _ => 1 end.

(* x << uint(y), x >> uint(y) on int: counts >= 64 (incl. negative y) shift everything out *)
Definition go_shl (x y : Z) : Z :=
  if (0 <=? y) && (y <? 64) then wrap64 (x * 2 ^ y) else 0.
Definition go_shr (x y : Z) : Z :=
  if (0 <=? y) && (y <? 64) then Z.shiftr x y else if x <? 0 then -1 else 0.

Definition bin_arit (o : binop) (x y : Z) : res Z :=
  match o with
  | Add => Ok (wrap64 (x + y))
  | Sub => Ok (wrap64 (x - y))
  | Mul => Ok (wrap64 (x * y))
  | Quo => if y =? 0 then Err EDivZero else Ok (wrap64 (Z.quot x y))
  | Rem => if y =? 0 then Err EDivZero else Ok (Z.rem x y)
  | Pow => if y <? 0 then Err ENegExp else Ok (int_pow x y)
  | Eql => Ok (one_if (x =? y))
  | Gtr => Ok (one_if (x >? y))
  | Lss => Ok (one_if (x <? y))
  | Neq => Ok (one_if (negb (x =? y)))
  | Leq => Ok (one_if (x <=? y))
  | Geq => Ok (one_if (x >=? y))
  | And => Ok (Z.land x y)
  | Or => Ok (Z.lor x y)
  | Xor => Ok (Z.lxor x y)
  | Shr => Ok (go_shr x y)
  | Shl => Ok (go_shl x y)
  | Comma => Ok y
  | _ => Err EUnsupOp
  end.

(* the switch of assgnArit *)
Definition assgn_op (o : binop) (val arg : Z) : res Z :=
  match o with
  | Assgn => Ok arg
  | AddAssgn => Ok (wrap64 (val + arg))
  | SubAssgn => Ok (wrap64 (val - arg))
  | MulAssgn => Ok (wrap64 (val * arg))
  | QuoAssgn => if arg =? 0 then Err EDivZero else Ok (wrap64 (Z.quot val arg))
  | RemAssgn => if arg =? 0 then Err EDivZero else Ok (Z.rem val arg)
  | AndAssgn => Ok (Z.land val arg)
  | OrAssgn => Ok (Z.lor val arg)
  | XorAssgn => Ok (Z.lxor val arg)
  | ShlAssgn => Ok (go_shl val arg)
  | ShrAssgn => Ok (go_shr val arg)
  | _ => Ok val
  end.

(* the type assertion of X to a Word, then Lit(): None = X is no Word *)
Definition word_lit (x : expr) : option str :=
  match x with
  | Word s => Some s
  | Index _ _ => Some []        (* a word with a ParamExp part has Lit() == "" *)
  | _ => None
  end.

Definition ares := (env * res Z)%type.

Fixpoint arithm (e : expr) (en : env) : ares :=
  match e with
  | Word s => (en, Ok (atoi (lookup 99 en s)))
  | Index _ _ => (en, Err EUnmodelled)
  | Paren x => arithm x en
  | Un o post x =>
      match o with
      | Inc | Dec =>
          match word_lit x with
          | None => (en, Err ELvalue)      (* operand is no *Word, e.g. ++x++ *)
          | Some name =>
              let old := atoi (env_get en name) in
              let val := wrap64 (match o with Inc => old + 1 | _ => old - 1 end) in
              (env_set en name (fmt_int val), Ok (if post then old else val))
          end
      | _ =>
          match arithm x en with
          | (en1, Ok v) =>
              (en1, match o with
                    | Not => Ok (one_if (v =? 0))
                    | BitNeg => Ok (Z.lnot v)
                    | Plus => Ok v
                    | _ => Ok (wrap64 (- v))
                    end)
          | r => r
          end
      end
  | Bin o x y =>
      if is_assign o then
        match word_lit x with
        | None => (en, Panic)
        | Some name =>
            let val := atoi (env_get en name) in
            match arithm y en with
            | (en1, Ok arg) =>
                match assgn_op o val arg with
                | Ok v => (env_set en1 name (fmt_int v), Ok v)
                | Err c => (en1, Err c)
                | Panic => (en1, Panic)
                end
            | r => r
            end
        end
      else
        match o with
        | TernQuest =>
            match arithm x en with
            | (en1, Ok c) =>
                match y with
                | Bin _ a b => if c =? 0 then arithm b en1 else arithm a en1
                | _ => (en1, Panic)
                end
            | r => r
            end
        | AndArit =>
            match arithm x en with
            | (en1, Ok l) =>
                if l =? 0 then (en1, Ok 0)
                else match arithm y en1 with
                     | (en2, Ok r) => (en2, Ok (one_if (negb (r =? 0))))
                     | r => r
                     end
            | r => r
            end
        | OrArit =>
            match arithm x en with
            | (en1, Ok l) =>
                if l =? 0 then
                  match arithm y en1 with
                  | (en2, Ok r) => (en2, Ok (one_if (negb (r =? 0))))
                  | r => r
                  end
                else (en1, Ok 1)
            | r => r
            end
        | _ =>
            match arithm x en with
            | (en1, Ok l) =>
                match arithm y en1 with
                | (en2, Ok r) => (en2, bin_arit o l r)
                | r => r
                end
            | r => r
            end
        end
  end.

(* ---------------------------------------------------------------- Spec: literal grammar *)
(* value of a digit string; None = a byte that is not a digit of the base *)
Fixpoint digits_val (dv : N -> option Z) (b : Z) (s : str) (acc : Z) : option Z :=
  match s with
  | [] => Some acc
  | c :: r =>
      match dv c with
      | Some d => if d <? b then digits_val dv b r (acc * b + d) else None
      | None => None
      end
  end.

Definition dec_digit (c : N) : option Z :=
  if ((48 <=? c) && (c <=? 57))%N then Some (nz c - 48) else None.
(* bases 2..36: letters of either case are the digits 10..35 *)
Definition small_digit (c : N) : option Z := digit_val c.

Definition nonempty (s : str) : bool := match s with [] => false | _ => true end.

(* bash's integer constants: 0, decimal, 0octal, 0xhex / 0Xhex, base#digits with base 2..64
   written as a canonical decimal; None = not a valid constant (bash reports an error) *)
Definition lit_value (s : str) : option Z :=
  match s with
  | [] => None
  | c :: r =>
      if (c =? 48)%N then
        match r with
        | [] => Some 0
        | c2 :: r2 =>
            if ((c2 =? 120) || (c2 =? 88))%N then
              (if nonempty r2 then digits_val small_digit 16 r2 0 else None)
            else digits_val dec_digit 8 r 0
        end
      else
        match cut_byte 35 s with
        | None => digits_val dec_digit 10 s 0
        | Some (bs, ds) =>
            match digits_val dec_digit 10 bs 0 with
            | Some b =>
                if nonempty bs && (2 <=? b) && (b <=? 64) && nonempty ds then
                  (if b <=? 36 then digits_val small_digit b ds 0 else digits_val large_digit b ds 0)
                else None
            | None => None
            end
        end
  end.

(* ---------------------------------------------------------------- Spec: bash evaluation *)
Inductive bval :=
| BV (z : Z)           (* value *)
| BE (c : N)           (* bash reports an error *)
| BU.                  (* platform-defined: signed overflow or shift count outside 0..63 *)

Definition chk (z : Z) : bval := if in64 z then BV z else BU.

Definition bash_bin (o : binop) (x y : Z) : bval :=
  match o with
  | Add => chk (x + y)
  | Sub => chk (x - y)
  | Mul => chk (x * y)
  | Quo => if y =? 0 then BE EDivZero else chk (Z.quot x y)
  | Rem => if y =? 0 then BE EDivZero else BV (Z.rem x y)
  | Pow => if y <? 0 then BE ENegExp else chk (x ^ y)
  | Eql => BV (one_if (x =? y))
  | Gtr => BV (one_if (x >? y))
  | Lss => BV (one_if (x <? y))
  | Neq => BV (one_if (negb (x =? y)))
  | Leq => BV (one_if (x <=? y))
  | Geq => BV (one_if (x >=? y))
  | And => BV (Z.land x y)
  | Or => BV (Z.lor x y)
  | Xor => BV (Z.lxor x y)
  | Shl => if (0 <=? y) && (y <? 64) then BV (wrap64 (x * 2 ^ y)) else BU
  | Shr => if (0 <=? y) && (y <? 64) then BV (Z.shiftr x y) else BU
  | Comma => BV y
  | _ => BE EUnsupOp           (* `^^` is no bash operator: syntax error *)
  end.

Definition bash_assgn_op (o : binop) (val arg : Z) : bval :=
  match o with
  | Assgn => BV arg
  | AddAssgn => bash_bin Add val arg
  | SubAssgn => bash_bin Sub val arg
  | MulAssgn => bash_bin Mul val arg
  | QuoAssgn => bash_bin Quo val arg
  | RemAssgn => bash_bin Rem val arg
  | AndAssgn => bash_bin And val arg
  | OrAssgn => bash_bin Or val arg
  | XorAssgn => bash_bin Xor val arg
  | ShlAssgn => bash_bin Shl val arg
  | ShrAssgn => bash_bin Shr val arg
  | _ => BV val
  end.

Definition name_of (x : expr) : option str :=
  match x with
  | Word s => if valid_name s then Some s else None
  | _ => None
  end.

Section BashStep.
  (* value of the variable [s]: supplied by [bash_arith] (recursive evaluation of its text) *)
  Variable var : str -> env -> env * bval.

  Fixpoint bash_step (e : expr) (en : env) : env * bval :=
    match e with
    | Word s =>
        if valid_name s then var s en
        else match lit_value s with
             | Some z => (en, chk z)
             | None => (en, BE ESyntax)
             end
    | Index _ _ => (en, BE EUnmodelled)
    | Paren x => bash_step x en
    | Un o post x =>
        match o with
        | Inc | Dec =>
            match name_of x with
            | None => (en, BE (match x with Index _ _ => EUnmodelled | _ => ESyntax end))
            | Some name =>
                match var name en with
                | (en1, BV old) =>
                    match chk (match o with Inc => old + 1 | _ => old - 1 end) with
                    | BV val => (env_set en1 name (fmt_int val), BV (if post then old else val))
                    | r => (en1, r)
                    end
                | r => r
                end
            end
        | _ =>
            match bash_step x en with
            | (en1, BV v) =>
                (en1, match o with
                      | Not => BV (one_if (v =? 0))
                      | BitNeg => BV (Z.lnot v)
                      | Plus => BV v
                      | _ => chk (- v)
                      end)
            | r => r
            end
        end
    | Bin o x y =>
        if is_assign o then
          match name_of x with
          | None => (en, BE (match x with Index _ _ => EUnmodelled | _ => ESyntax end))
          | Some name =>
              (* `=` does not read the variable; every `op=` evaluates it first *)
              match (match o with Assgn => (en, BV 0) | _ => var name en end) with
              | (en0, BV val) =>
                  match bash_step y en0 with
                  | (en1, BV arg) =>
                      match bash_assgn_op o val arg with
                      | BV v => (env_set en1 name (fmt_int v), BV v)
                      | r => (en1, r)
                      end
                  | r => r
                  end
              | r => r
              end
          end
        else
          match o with
          | TernQuest =>
              match bash_step x en with
              | (en1, BV c) =>
                  match y with
                  | Bin TernColon a b => if c =? 0 then bash_step b en1 else bash_step a en1
                  | _ => (en1, BE ESyntax)
                  end
              | r => r
              end
          | AndArit =>
              match bash_step x en with
              | (en1, BV l) =>
                  if l =? 0 then (en1, BV 0)
                  else match bash_step y en1 with
                       | (en2, BV r) => (en2, BV (one_if (negb (r =? 0))))
                       | r => r
                       end
              | r => r
              end
          | OrArit =>
              match bash_step x en with
              | (en1, BV l) =>
                  if l =? 0 then
                    match bash_step y en1 with
                    | (en2, BV r) => (en2, BV (one_if (negb (r =? 0))))
                    | r => r
                    end
                  else (en1, BV 1)
              | r => r
              end
          | _ =>
              match bash_step x en with
              | (en1, BV l) =>
                  match bash_step y en1 with
                  | (en2, BV r) => (en2, bash_bin o l r)
                  | r => r
                  end
              | r => r
              end
          end
    end.
End BashStep.

(* d = remaining expression-recursion depth (bash: 1024) *)
(* the value of variable [s]: its text evaluated as an expression by [rec] (None = depth exhausted) *)
Definition bash_var (rec : option (expr -> env -> env * bval)) (s : str) (en' : env) : env * bval :=
  match env_get en' s with
  | [] => (en', BV 0)                       (* unset or null: 0 *)
  | v =>
      match rec with
      | None => (en', BE ERecursion)
      | Some f =>
          match parse_text v with
          | TTree (Some e') [] => f e' en'
          | TTree None [] => (en', BV 0)
          | _ => (en', BE ESyntax)
          end
      end
  end.

Fixpoint bash_arith (d : nat) (e : expr) (en : env) : env * bval :=
  bash_step (bash_var (match d with O => None | S d' => Some (bash_arith d') end)) e en.

Definition bash_eval (e : expr) (en : env) : env * bval := bash_arith 1024 e en.

(* how a bash outcome reads as a Go outcome *)
Definition to_res (b : bval) : res Z :=
  match b with
  | BV z => Ok z
  | BE c => Err c
  | BU => Panic          (* never compared: excluded by every statement *)
  end.

(* ---------------------------------------------------------------- scope predicates *)
Fixpoint no_index (e : expr) : bool :=
  match e with
  | Word _ => true
  | Index _ _ => false
  | Paren x => no_index x
  | Un _ _ x => no_index x
  | Bin _ x y => no_index x && no_index y
  end.

(* every literal word of the tree is a name or a valid constant *)
Fixpoint lits_ok (e : expr) : bool :=
  match e with
  | Word s => valid_name s || match lit_value s with Some z => in64 z | None => false end
  | Index _ i => lits_ok i
  | Paren x => lits_ok x
  | Un _ _ x => lits_ok x
  | Bin _ x y => lits_ok x && lits_ok y
  end.

(* ---------------------------------------------------------------- Spec: integer-literal texts, scope *)
(* the declarative grammar of "a variable holds an integer literal":
   blanks (space, tab), optional sign, a constant of [lit_value], blanks *)
Definition blank (c : N) : bool := ((c =? 32) || (c =? 9))%N.

Inductive sign := SNone | SPlus | SMinus.
Definition sign_text (s : sign) : str :=
  match s with SNone => [] | SPlus => [43%N] | SMinus => [45%N] end.
Definition sign_val (s : sign) (n : Z) : Z := match s with SMinus => - n | _ => n end.

Definition int_text (v : str) (sg : sign) (w : str) : Prop :=
  exists ws1 ws2, v = ws1 ++ sign_text sg ++ w ++ ws2 /\ forallb blank ws1 = true /\ forallb blank ws2 = true.


Definition lit_text (v : str) : Prop :=
  v = [] \/ exists sg w n, int_text v sg w /\ lit_value w = Some n.


Fixpoint drop_blanks (s : str) : str :=
  match s with c :: r => if blank c then drop_blanks r else s | [] => [] end.
Fixpoint span_word (s : str) : str * str :=
  match s with
  | c :: r => if blank c then ([], s) else let '(w, t) := span_word r in (c :: w, t)
  | [] => ([], [])
  end.

(* recognises: blanks, optional sign, constant, blanks — or the empty string *)
Definition int_text_b (v : str) : bool :=
  match v with
  | [] => true
  | _ =>
      let s1 := drop_blanks v in
      let s2 := match s1 with c :: r => if ((c =? 43) || (c =? 45))%N then r else s1 | [] => s1 end in
      let '(w, t) := span_word s2 in
      forallb blank t && match lit_value w with Some _ => true | None => false end
  end.


Definition env_lits_b (en : env) : bool := forallb (fun kv => int_text_b (snd kv)) en.


Definition is_BU (b : bval) : bool := match b with BU => true | _ => false end.

(* scope: parser-producible tree, no a[i], valid constants (known class arith_invalid_literal_is_zero
   excluded), variables hold integer literals (known class arith_var_holds_expression excluded),
   and bash's evaluation is defined (no signed overflow, shift counts 0..63) *)
Definition in_scope (e : expr) (en : env) : bool :=
  wf e && no_index e && lits_ok e && env_lits_b en && negb (is_BU (snd (bash_eval e en))).

