(* Expand/ShellEq.v — comparison helpers for the C25 code leg. No proofs. *)
From Verif Require Import Base.Str Expand.ShellApi.
Open Scope N_scope.

Fixpoint strs_eqb (a b : list str) : bool :=
  match a, b with
  | [], [] => true
  | x :: a', y :: b' => str_eqb x y && strs_eqb a' b'
  | _, _ => false
  end.

Definition env_of (l : list (str * str)) (n : str) : str :=
  match find (fun p => str_eqb (fst p) n) l with Some (_, v) => v | None => [] end.

(* SOut / EOut (outside the fragment) never count as a mismatch: reported separately *)
Definition sres_cmp (a b : sres) : N :=
  match a, b with
  | SOk x, SOk y => if strs_eqb x y then 0 else 1
  | SErr, SErr => 0
  | SOut, _ => 2
  | _, _ => 1
  end.

Definition eres_cmp (a b : eres) : N :=
  match a, b with
  | EOk x, EOk y => if str_eqb x y then 0 else 1
  | EErr, EErr => 0
  | EOut, _ => 2
  | _, _ => 1
  end.

Definition scase := (list (str * str) * str * sres * eres)%type.

(* per case: (fields verdict, expand verdict) with 0 = agrees, 1 = differs, 2 = outside the model *)
Definition verdicts (cs : list scase) : list (N * N) :=
  map (fun '(e, s, f, x) => (sres_cmp (shell_fields (env_of e) s) f, eres_cmp (shell_expand (env_of e) s) x)) cs.

Fixpoint idx_where (f : N * N -> bool) (i : nat) (l : list (N * N)) : list nat :=
  match l with
  | [] => []
  | v :: r => if f v then i :: idx_where f (S i) r else idx_where f (S i) r
  end.

(* (fields mismatches, expand mismatches, fields outside model, expand outside model) as index lists *)
Definition verdict_lists (cs : list scase) : list nat * list nat * list nat * list nat :=
  let v := verdicts cs in
  (idx_where (fun p => fst p =? 1) 0 v, idx_where (fun p => snd p =? 1) 0 v,
   idx_where (fun p => fst p =? 2) 0 v, idx_where (fun p => snd p =? 2) 0 v).
