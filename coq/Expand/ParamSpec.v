(* Expand/ParamSpec.v — Spec: what the bash manual says each parameter expansion form
   yields, written independently of the Go code's control flow.  A parameter's state
   is an [option str]: None = unset, Some [] = null, Some s = non-null.
   Patterns of the fragment ( * ? literal \x ) get a declarative matching relation.
   No proofs in this file. *)
From Verif Require Import Base.Str Expand.Param.
Open Scope N_scope.

(* ---------------------------------------------------------------- the parameter's value *)

Definition elem_of (l : list str) (ix : option (list Z)) (i : Z) : option str :=
  match ix with
  | Some ixs => match ix_pos ixs i with Some p => nth_error l p | None => None end
  | None => if Z.ltb i 0 then None else nth_error l (Z.to_nat i)
  end.

Definition max_index (l : list str) (ix : option (list Z)) : Z :=
  match ix with
  | Some (x :: r) => last r x
  | _ => Z.of_nat (length l) - 1
  end.

Inductive pvalue := PVal (v : option str) | PBadSubscript.

(* ${name}, ${name[n]}, ${name[key]}: a scalar is an array with the single element 0;
   a negative subscript counts back from one past the highest index *)
Definition bash_value (vr : var) (i : idx) : pvalue :=
  match vr, i with
  | VUnset, _ => PVal None
  | VStr s, INone => PVal (Some s)
  | VStr s, INum n => PVal (if Z.eqb n 0 then Some s else None)
  | VIdx l ix, INone => PVal (elem_of l ix 0)
  | VIdx l ix, INum n =>
      if Z.ltb n 0 then
        let n' := (n + max_index l ix + 1)%Z in
        if Z.ltb n' 0 then PBadSubscript else PVal (elem_of l ix n')
      else PVal (elem_of l ix n)
  | VAssoc m, INone => PVal (assoc_get m [48])
  | VAssoc m, IKey k => PVal (assoc_get m k)
  | VAssoc m, INum n => if Z.ltb n 0 then PBadSubscript else PVal (assoc_get m (itoa n))
  | _, _ => PBadSubscript
  end.

Definition is_unset (v : option str) : bool := match v with None => true | _ => false end.
Definition is_null (v : option str) : bool := match v with None | Some [] => true | _ => false end.
Definition cur (v : option str) : str := match v with Some s => s | None => [] end.

(* ---------------------------------------------------------------- ${p:-w} ${p-w} ${p:=w} ${p=w} ${p:?w} ${p?w} ${p:+w} ${p+w} *)
(* manual: "When not performing substring expansion, using the forms documented below
   (e.g., :-), Bash tests for a parameter that is unset or null. Omitting the colon
   results in a test only for a parameter that is unset." *)
Definition bash_default (op : expop) (name : str) (v : option str) (w : str)
  : outcome (str * option (str * var)) :=
  let test := match op with
              | DefUnsetOrNull | AsgUnsetOrNull | ErrUnsetOrNull | AltUnsetOrNull => is_null v
              | _ => is_unset v
              end in
  match op with
  | DefUnsetOrNull | DefUnset => OOk (if test then w else cur v, None)     (* the expansion of word is substituted *)
  | AsgUnsetOrNull | AsgUnset => if test then OOk (w, Some (name, VStr w))  (* word is assigned, then substituted *)
                                 else OOk (cur v, None)
  | ErrUnsetOrNull | ErrUnset => if test then OErrUnset w else OOk (cur v, None)
  | AltUnsetOrNull | AltUnset => OOk (if test then [] else w, None)         (* nothing is substituted, otherwise word *)
  | _ => OOut
  end.

(* ---------------------------------------------------------------- ${#p} *)
Definition bash_length (v : option str) : str := itoa (Z.of_nat (length (cur v))).

(* ---------------------------------------------------------------- ${p:offset:length} *)
(* manual: up to length characters starting at offset; negative offset counts from the
   end; negative length is an offset from the end, and "substring expression < 0" if it
   lies before the start; an offset outside the value gives nothing *)
Definition bash_substring (v : option str) (off len : option Z) : outcome str :=
  match v with
  | None => OOk []
  | Some s =>
      let n := Z.of_nat (length s) in
      let o := match off with Some o => o | None => 0%Z end in
      let o1 := if Z.ltb o 0 then (o + n)%Z else o in
      if Z.ltb o1 0 || Z.ltb n o1 then OOk []
      else match len with
           | None => OOk (skipn (Z.to_nat o1) s)
           | Some l =>
               if Z.ltb l 0 then
                 let e := (n + l)%Z in
                 if Z.ltb e o1 then OErr 4
                 else OOk (firstn (Z.to_nat (e - o1)) (skipn (Z.to_nat o1) s))
               else OOk (firstn (Z.to_nat l) (skipn (Z.to_nat o1) s))
           end
  end.

(* ---------------------------------------------------------------- pattern matching (fragment) *)

(* pattern tokens after quote removal *)
Inductive ptok := TLit (c : N) | TAny | TStar.

Inductive pmatch : list ptok -> str -> Prop :=
| pm_nil : pmatch [] []
| pm_lit : forall c p s, pmatch p s -> pmatch (TLit c :: p) (c :: s)
| pm_any : forall c p s, pmatch p s -> pmatch (TAny :: p) (c :: s)
| pm_star_0 : forall p s, pmatch p s -> pmatch (TStar :: p) s
| pm_star_S : forall c p s, pmatch (TStar :: p) s -> pmatch (TStar :: p) (c :: s).

(* a word's pattern: unquoted text is pattern syntax with backslash escapes,
   quoted text matches literally *)
Fixpoint toks_of_text (s : str) : option (list ptok) :=
  match s with
  | [] => Some []
  | c :: r =>
      if c =? 92 then
        match r with
        | [] => None
        | d :: r' => option_map (cons (TLit d)) (toks_of_text r')
        end
      else option_map (cons (if c =? 42 then TStar else if c =? 63 then TAny else TLit c)) (toks_of_text r)
  end.

(* ${p#w} ${p##w}: the value with the shortest / longest matching prefix deleted;
   ${p%w} ${p%%w}: same for suffixes.  Existential spec over splits. *)
Definition is_prefix_removal (longest : bool) (p : list ptok) (s r : str) : Prop :=
  (exists pre, s = pre ++ r /\ pmatch p pre /\
      forall pre' r', s = pre' ++ r' -> pmatch p pre' ->
        if longest then (length pre' <= length pre)%nat else (length pre <= length pre')%nat)
  \/ (r = s /\ forall pre' r', s = pre' ++ r' -> ~ pmatch p pre').

Definition is_suffix_removal (longest : bool) (p : list ptok) (s r : str) : Prop :=
  (exists suf, s = r ++ suf /\ pmatch p suf /\
      forall r' suf', s = r' ++ suf' -> pmatch p suf' ->
        if longest then (length suf' <= length suf)%nat else (length suf <= length suf')%nat)
  \/ (r = s /\ forall r' suf', s = r' ++ suf' -> ~ pmatch p suf').

(* ---------------------------------------------------------------- ${p^w} ${p^^w} ${p,w} ${p,,w} *)
(* each character (first only for ^ and ,) that matches the pattern is converted; an
   omitted pattern is `?` *)
Definition bash_case (conv : N -> N) (all : bool) (matches : N -> bool) (s : str) : str :=
  let cv := fun c => if matches c then conv c else c in
  match s with
  | [] => []
  | c :: r => cv c :: (if all then map cv r else r)
  end.

(* ---------------------------------------------------------------- ${p@U} ${p@u} ${p@L} ${p@Q} *)
Definition bash_transform (upper lower : N -> N) (quote : str -> str) (k : N) (v : option str) : str :=
  match v with
  | None => []
  | Some s =>
      if k =? 85 then map upper s
      else if k =? 117 then match s with [] => [] | c :: r => upper c :: r end
      else if k =? 76 then map lower s
      else if k =? 81 then quote s       (* documented difference: [quote] leaves plain words unquoted *)
      else s
  end.

(* ---------------------------------------------------------------- ${!p} *)
(* the value of p is taken as the name of the parameter to expand *)
Definition bash_indirect (e : env) (v : option str) : outcome str :=
  match v with
  | None => OErr 2
  | Some [] => OErr 5        (* "invalid variable name" *)
  | Some n => OOk (match bash_value (env_get e n) INone with PVal (Some s) => s | _ => [] end)
  end.
