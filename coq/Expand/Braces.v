(* Expand/Braces.v — model of brace expansion in mvdan/sh and of bash's algorithm.

   Impl (transliteration of the Go code, at the commits recorded in known_findings.jsonl):
     syntax/braces.go   SplitBraces on a word that is one literal      -> [split_braces]
     syntax/printer.go  how a word with Lit/BraceExp parts is printed  -> [render] (plain text),
                                                                          [print] (with the printer's
                                                                          trailing-backslash rule)
     expand/braces.go   bracesSeqRec / BracesSeq                       -> [braces_rec] / [expand]
   Spec: bash 5.2 braces.c (brace_expand, brace_gobbler, expand_amble, expand_seqterm, mkseq)
     for words without quotes, '$', '`', '<', '>', '(' or whitespace     -> [spec]
   NO PROOFS in this file. *)
From Verif Require Import Base.Str.
Open Scope N_scope.

Definition LB : N := 123.   (* { *)
Definition RB : N := 125.   (* } *)
Definition COMMA : N := 44.
Definition DOT : N := 46.
Definition BS : N := 92.
Definition MINUS : N := 45.
Definition PLUS : N := 43.
Definition ZERO : N := 48.

Definition E_LIMIT : N := 0.  (* "brace expansion would exceed 16384 elements" *)
Definition E_FUEL : N := 1.   (* the model ran out of fuel (excluded by the theorems) *)

Definition limit : nat := N.to_nat 16384.

Definition MAX64 : Z := 9223372036854775807%Z.
Definition MIN64 : Z := (-9223372036854775808)%Z.

(* ------------------------------------------------------------------ trees *)

Inductive part : Type :=
| PLit (s : str)
| PBrace (sq : bool) (elems : list (list part)).

Definition word := list part.

Definition sep (sq : bool) : str := if sq then [DOT; DOT] else [COMMA].

(* strings.Join *)
Fixpoint join (s : str) (l : list str) : str :=
  match l with
  | [] => []
  | [x] => x
  | x :: l' => x ++ s ++ join s l'
  end.

(* plain text of a part tree: what the Printer writes, apart from its trailing-backslash rule *)
Fixpoint render_part (p : part) : str :=
  match p with
  | PLit s => s
  | PBrace sq es => LB :: join (sep sq) (map (fun e => concat (map render_part e)) es) ++ [RB]
  end.
Definition render (w : word) : str := concat (map render_part w).

(* Printer.wordPart, case *Lit: an odd number of trailing backslashes gets one more *)
Fixpoint trailing_bs_odd_rev (r : str) : bool :=
  match r with
  | c :: r' => if c =? BS then negb (trailing_bs_odd_rev r') else false
  | [] => false
  end.
Definition print_lit (s : str) : str := if trailing_bs_odd_rev (rev s) then s ++ [BS] else s.
Fixpoint print_part (p : part) : str :=
  match p with
  | PLit s => print_lit s
  | PBrace sq es => LB :: join (sep sq) (map (fun e => concat (map print_part e)) es) ++ [RB]
  end.
Definition print (w : word) : str := concat (map print_part w).

Fixpoint has_brace (w : word) : bool :=
  match w with
  | [] => false
  | PLit _ :: w' => has_brace w'
  | PBrace _ _ :: _ => true
  end.

(* Word.Lit(): the concatenated literals, "" if any part is not a literal *)
Fixpoint lits_text (w : word) : str :=
  match w with
  | [] => []
  | PLit s :: w' => s ++ lits_text w'
  | PBrace _ _ :: w' => lits_text w'
  end.
Definition word_lit (w : word) : str := if has_brace w then [] else lits_text w.

(* ------------------------------------------------------------------ strconv.ParseInt(s, 10, 64) *)

Definition is_digit (c : N) : bool := (48 <=? c) && (c <=? 57).
Definition ascii_letter (c : N) : bool := ((97 <=? c) && (c <=? 122)) || ((65 <=? c) && (c <=? 90)).

Fixpoint digits_val (acc : N) (s : str) : option N :=
  match s with
  | [] => Some acc
  | c :: s' => if is_digit c then digits_val (acc * 10 + (c - 48)) s' else None
  end.

(* (value, ok): ok=false with value 0 on a syntax error, with the clamped value on a range error *)
Definition parse_int (s : str) : Z * bool :=
  let '(neg, body) :=
    match s with
    | c :: s' => if c =? MINUS then (true, s') else if c =? PLUS then (false, s') else (false, s)
    | [] => (false, [])
    end in
  match body with
  | [] => (0%Z, false)
  | _ =>
      match digits_val 0 body with
      | None => (0%Z, false)
      | Some u =>
          if neg then
            (if (Z.of_N u <=? 9223372036854775808)%Z then ((- Z.of_N u)%Z, true) else (MIN64, false))
          else
            (if (Z.of_N u <=? MAX64)%Z then (Z.of_N u, true) else (MAX64, false))
      end
  end.
Definition parse_ok (s : str) : bool := snd (parse_int s).

(* ------------------------------------------------------------------ SplitBraces *)

Record frame := mkFrame { fseq : bool; fdone : list word; facc : word }.
Definition felems (f : frame) : list word := fdone f ++ [facc f].

Record state := mkState { top : word; opn : list frame (* innermost first *); found : bool }.

(* acc.Parts = append(acc.Parts, ps...) : acc is the innermost open element, or top *)
Definition add_parts (ps : word) (st : state) : state :=
  match opn st with
  | [] => mkState (top st ++ ps) [] (found st)
  | f :: r => mkState (top st) (mkFrame (fseq f) (fdone f) (facc f ++ ps) :: r) (found st)
  end.

(* addlitidx: the literal text since the last split point, unless empty *)
Definition lit_of (pend : str) : word := match pend with [] => [] | _ => [PLit pend] end.
Definition flush (pend : str) (st : state) : state := add_parts (lit_of pend) st.
Definition flush_frame (pend : str) (f : frame) : frame :=
  mkFrame (fseq f) (fdone f) (facc f ++ lit_of pend).

Definition open_brace (st : state) : state :=
  mkState (top st) (mkFrame false [] [] :: opn st) (found st).

(* elements joined by a literal separator: the "return to a non-brace" loops *)
Fixpoint flat_elems (sp : str) (es : list word) : word :=
  match es with
  | [] => []
  | [e] => e
  | e :: es' => e ++ PLit sp :: flat_elems sp es'
  end.

(* case ',' with cur = f (already holding the pending literal), the rest of the stack r *)
Definition do_comma (f : frame) (r : list frame) (st : state) : state :=
  if fseq f then
    (* {1..2,3}: the ".." become literal; all elements so far are merged into the first *)
    mkState (top st) (mkFrame false [flat_elems [DOT; DOT] (felems f)] [] :: r) (found st)
  else
    mkState (top st) (mkFrame false (felems f) [] :: r) (found st).

Definition do_dots (f : frame) (r : list frame) (st : state) : state :=
  mkState (top st) (mkFrame true (felems f) [] :: r) (found st).

(* validation of a closed {x..y[..incr]} *)
Definition seq_elem_kind (e : word) : N :=   (* 0 number, 1 single letter, 2 broken *)
  let v := word_lit e in
  if parse_ok v then 0
  else match v with
       | [c] => if ascii_letter c then 1 else 2
       | _ => 2
       end.

Definition seq_broken (es : list word) : bool :=
  match es with
  | e0 :: e1 :: more =>
      let k0 := seq_elem_kind e0 in
      let k1 := seq_elem_kind e1 in
      (k0 =? 2) || (k1 =? 2)
      || match more with
         | [] => false
         | [e2] => negb (parse_ok (word_lit e2))
         | _ => true
         end
      || negb (k0 =? k1)
  | _ => true
  end.

(* what closing the brace f appends to the enclosing element (or top), and whether it is a BraceExp *)
Definition close_parts (f : frame) : word * bool :=
  let es := felems f in
  match es with
  | [e] => (PLit [LB] :: e ++ [PLit [RB]], false)
  | _ =>
      if negb (fseq f) then ([PBrace false es], true)
      else if seq_broken es then (PLit [LB] :: flat_elems [DOT; DOT] es ++ [PLit [RB]], false)
      else ([PBrace true es], true)
  end.

Definition do_close (f : frame) (r : list frame) (st : state) : state :=
  let '(ps, fnd) := close_parts f in
  let s2 := add_parts ps (mkState (top st) r (found st)) in   (* pop, then append to the new acc *)
  mkState (top s2) (opn s2) (found st || fnd).

(* the byte loop of SplitBraces over one literal; [pend] = lit.Value[last:j] *)
Fixpoint scan (w : str) (pend : str) (st : state) : state * str :=
  match w with
  | [] => (st, pend)
  | c :: rest =>
      if c =? BS then
        match rest with
        | [] => (st, pend ++ [c])
        | d :: rest' => scan rest' (pend ++ [c; d]) st
        end
      else if c =? LB then scan rest [] (open_brace (flush pend st))
      else
        match opn st with
        | [] => scan rest (pend ++ [c]) st               (* cur == nil: continue *)
        | f :: r =>
            if c =? COMMA then scan rest [] (do_comma (flush_frame pend f) r st)
            else if c =? DOT then
              match rest with
              | d :: rest' =>
                  if d =? DOT then
                    if negb (fseq f) && Nat.ltb 1 (length (felems f)) then scan rest (pend ++ [c]) st
                    else scan rest' [] (do_dots (flush_frame pend f) r st)
                  else scan rest (pend ++ [c]) st
              | [] => scan rest (pend ++ [c]) st
              end
            else if c =? RB then scan rest [] (do_close (flush_frame pend f) r st)
            else scan rest (pend ++ [c]) st
        end
  end.

(* open braces that were never closed fall back to non-braces, innermost first *)
Fixpoint unclosed (fs : list frame) (inner : word) (tp : word) : word :=
  match fs with
  | [] => tp ++ inner
  | f :: r => unclosed r (PLit [LB] :: flat_elems (sep (fseq f)) (fdone f ++ [facc f ++ inner])) tp
  end.

(* SplitBraces(word) for word.Parts = [Lit w]: (returned flag, resulting parts) *)
Definition split_braces (w : str) : bool * word :=
  if negb (contains_byte LB w) then (false, [PLit w])
  else
    let '(st, pend) := scan w [] (mkState [] [] false) in
    let st1 := flush pend st in
    let tp := unclosed (opn st1) [] (top st1) in
    if found st1 then (true, tp) else (false, [PLit w]).

(* ------------------------------------------------------------------ expand.Braces / BracesSeq *)

(* decimal digits of a natural number *)
Fixpoint uint_bytes (u : Decimal.uint) : str :=
  match u with
  | Decimal.Nil => []
  | Decimal.D0 u' => 48 :: uint_bytes u'
  | Decimal.D1 u' => 49 :: uint_bytes u'
  | Decimal.D2 u' => 50 :: uint_bytes u'
  | Decimal.D3 u' => 51 :: uint_bytes u'
  | Decimal.D4 u' => 52 :: uint_bytes u'
  | Decimal.D5 u' => 53 :: uint_bytes u'
  | Decimal.D6 u' => 54 :: uint_bytes u'
  | Decimal.D7 u' => 55 :: uint_bytes u'
  | Decimal.D8 u' => 56 :: uint_bytes u'
  | Decimal.D9 u' => 57 :: uint_bytes u'
  end.
Definition nat_digits (n : N) : str := uint_bytes (N.to_uint n).

(* strconv.FormatInt(n, 10) *)
Definition fmt_int (z : Z) : str :=
  if (z <? 0)%Z then MINUS :: nat_digits (Z.abs_N z) else nat_digits (Z.abs_N z).
(* fmt.Sprintf("%0*d", width, n) *)
Definition fmt_pad (width : nat) (z : Z) : str :=
  let d := nat_digits (Z.abs_N z) in
  if (z <? 0)%Z then MINUS :: repeat ZERO (width - 1 - length d) ++ d
  else repeat ZERO (width - length d) ++ d.
(* string(rune(n)) for 0 <= n < 2048 (n is between two bytes) *)
Definition rune_str (z : Z) : str :=
  let n := Z.to_N z in
  if n <? 128 then [n] else [192 + n / 64; 128 + n mod 64].

Definition has_leading_zeros (s : str) : bool :=
  let t := match s with c :: s' => if c =? MINUS then s' else s | [] => [] end in
  match t with
  | c :: _ :: _ => c =? ZERO
  | _ => false
  end.

(* the sequence loop, after the overflow fix: at most [fuel] values *)
Fixpoint seq_loop (fuel : nat) (up : bool) (n to incr : Z) : list Z :=
  match fuel with
  | O => []
  | S f =>
      if (if up then (n <=? to)%Z else (n >=? to)%Z) then
        n :: (if ((0 <? incr)%Z && (n >? MAX64 - incr)%Z) || ((incr <? 0)%Z && (n <? MIN64 - incr)%Z)
              then [] else seq_loop f up (n + incr)%Z to incr)
      else []
  end.

Definition wrap64 (z : Z) : Z := ((z + 9223372036854775808) mod 18446744073709551616 - 9223372036854775808)%Z.

(* the literals a sequence BraceExp produces; Panic where the Go code would index out of range *)
(* the step of {x..y..n}: |n|, with the int64 corner made explicit, 1 for 0 or no step *)
Definition seq_step (more : list word) : Z :=
  match more with
  | [] => 1%Z
  | e2 :: _ =>
      let n := fst (parse_int (word_lit e2)) in
      let n1 := if (n <? 0)%Z then wrap64 (- n) else n in
      let n2 := if (n1 <? 0)%Z then MAX64 else n1 in
      if (n2 =? 0)%Z then 1%Z else n2
  end.
Definition seq_fmt (chars : bool) (width : nat) (n : Z) : str :=
  if chars then rune_str n else if Nat.ltb 0 width then fmt_pad width n else fmt_int n.
Definition seq_mk (fromLit toLit : str) (more : list word) (chars : bool) (from to : Z) : list str :=
  let width := if negb chars && (has_leading_zeros fromLit || has_leading_zeros toLit)
               then Nat.max (length fromLit) (length toLit) else O in
  let upward := (from <=? to)%Z in
  let step := seq_step more in
  let incr := if upward then step else (- step)%Z in
  map (seq_fmt chars width) (seq_loop (S limit) upward from to incr).

Definition seq_values (es : list word) : res (list str) :=
  match es with
  | e0 :: e1 :: more =>
      let fromLit := word_lit e0 in
      let toLit := word_lit e1 in
      let '(v1, ok1) := parse_int fromLit in
      let '(v2, ok2) := parse_int toLit in
      if ok1 && ok2 then Ok (seq_mk fromLit toLit more false v1 v2)
      else match fromLit, toLit with
           | c1 :: _, c2 :: _ => Ok (seq_mk fromLit toLit more true (Z.of_N c1) (Z.of_N c2))
           | _, _ => Panic
           end
  | _ => Panic
  end.

Fixpoint flat_res {A B : Type} (f : A -> res (list B)) (l : list A) : res (list B) :=
  match l with
  | [] => Ok []
  | x :: l' =>
      match f x with
      | Ok a => match flat_res f l' with Ok b => Ok (a ++ b) | e => e end
      | Err c => Err c
      | Panic => Panic
      end
  end.

(* bracesSeqRec: each resulting word as the list of its literal values *)
Fixpoint braces_rec (fuel : nat) (w : word) : res (list (list str)) :=
  match fuel with
  | O => Err E_FUEL
  | S fuel' =>
      match w with
      | [] => Ok [[]]
      | PLit s :: rest =>
          match braces_rec fuel' rest with
          | Ok l => Ok (map (cons s) l)
          | e => e
          end
      | PBrace sq es :: rest =>
          if sq then
            match seq_values es with
            | Ok vals => flat_res (fun v => braces_rec fuel' (PLit v :: rest)) vals
            | Err c => Err c
            | Panic => Panic
            end
          else flat_res (fun e => braces_rec fuel' (e ++ rest)) es
      end
  end.

Fixpoint part_size (p : part) : nat :=
  match p with
  | PLit _ => 1
  | PBrace _ es => 3 + fold_right (fun e a => fold_right (fun q b => part_size q + b) 0 e + a)%nat 0%nat es
  end.
Definition word_size (w : word) : nat := fold_right (fun q b => part_size q + b)%nat 0%nat w.

(* BracesSeq collected: the words, or the limit error *)
Definition expand (w : word) : res (list (list str)) :=
  match braces_rec (S (word_size w)) w with
  | Ok l => if Nat.ltb limit (length l) then Err E_LIMIT else Ok l
  | e => e
  end.

(* the whole pipeline on one literal word: texts of the expanded words *)
Definition expand_word (w : str) : res (list str) :=
  let '(flag, parts) := split_braces w in
  if flag then
    match expand parts with
    | Ok l => Ok (map (@concat N) l)
    | Err c => Err c
    | Panic => Panic
    end
  else Ok [w].

(* ================================================================== Spec: bash *)

Inductive sres : Type :=
| Many                       (* more than [limit] words *)
| Words (l : list str).

Definition starts_dotdot (t : str) : bool :=
  match t with a :: b :: _ => (a =? DOT) && (b =? DOT) | _ => false end.
Definition third_is (c : N) (t : str) : bool :=
  match t with _ :: _ :: d :: _ => d =? c | _ => false end.

Definition pre_opt (p : str) (o : option (str * str)) : option (str * str) :=
  match o with Some (a, b) => Some (p ++ a, b) | None => None end.

(* brace_gobbler: find the first unescaped [sat] at brace level 0 (for '}' only after a
   level-0 comma or ".."); Some (text before it, text after it) *)
Fixpoint gobble (sat : N) (level commas : nat) (at0 : bool) (t : str) : option (str * str) :=
  match t with
  | [] => None
  | c :: rest =>
      if c =? BS then
        match rest with
        | [] => None
        | d :: rest' => pre_opt [c; d] (gobble sat level commas false rest')
        end
      else if (c =? sat) && Nat.eqb level 0 && Nat.ltb 0 commas then
        if (c =? LB) && at0 && (match rest with [] => true | d :: _ => d =? RB end)
        then pre_opt [c] (gobble sat level commas false rest)
        else Some ([], rest)
      else
        let lc :=
          if c =? LB then (S level, commas)
          else if (c =? RB) && Nat.ltb 0 level then (Nat.pred level, commas)
          else if (sat =? RB) && (c =? COMMA) && Nat.eqb level 0 then (level, S commas)
          else if (sat =? RB) && Nat.eqb level 0 && starts_dotdot t && negb (third_is RB t) then (level, S commas)
          else (level, commas) in
        pre_opt [c] (gobble sat (fst lc) (snd lc) false rest)
  end.

Definition find_close (t : str) : option (str * str) := gobble RB 0 0 false t.

(* the leftmost '{' that has a matching '}' : Some (preamble, amble, postamble) *)
Fixpoint find_brace (fuel : nat) (at0 : bool) (pre t : str) : option (str * str * str) :=
  match fuel with
  | O => None
  | S f =>
      match gobble LB 0 1 at0 t with
      | None => None
      | Some (before, after) =>
          match find_close after with
          | Some (amble, post) => Some (pre ++ before, amble, post)
          | None => find_brace f false (pre ++ before ++ [LB]) after
          end
      end
  end.

Fixpoint flat_comma (t : str) : bool :=
  match t with
  | [] => false
  | c :: rest =>
      if c =? BS then match rest with [] => false | _ :: rest' => flat_comma rest' end
      else if c =? COMMA then true
      else flat_comma rest
  end.

(* strtoimax: optional sign, maximal digit run: Some (value, rest) *)
Fixpoint span_digits (s : str) : str * str :=
  match s with
  | c :: s' => if is_digit c then let '(d, r) := span_digits s' in (c :: d, r) else ([], s)
  | [] => ([], [])
  end.
Definition strtoimax (s : str) : option (Z * str) :=
  let '(neg, body) :=
    match s with
    | c :: s' => if c =? MINUS then (true, s') else if c =? PLUS then (false, s') else (false, s)
    | [] => (false, [])
    end in
  let '(d, r) := span_digits body in
  match d with
  | [] => None
  | _ => match digits_val 0 d with
         | Some u => Some (if neg then (- Z.of_N u)%Z else Z.of_N u, r)
         | None => None
         end
  end.
Definition in64 (z : Z) : bool := (MIN64 <=? z)%Z && (z <=? MAX64)%Z.

(* split at the first ".." (strstr) *)
Fixpoint cut_dotdot (t : str) : option (str * str) :=
  match t with
  | [] => None
  | c :: rest =>
      if starts_dotdot t then Some ([], tl rest)
      else match cut_dotdot rest with Some (a, b) => Some (c :: a, b) | None => None end
  end.

Inductive seqres := NotSeq | SeqGuard (* valid syntax, rejected by one of mkseq's overflow guards *) | SeqMany | SeqList (l : list str).

Fixpoint count_up (k : nat) (start step : Z) : list Z :=
  match k with O => [] | S k' => start :: count_up k' (start + step)%Z step end.

(* expand_seqterm + mkseq, ideal integers, bash's guards explicit *)

(* lhs: a legal number, or one letter : (is_char, value) *)
Definition lhs_kind (lhs : str) : option (bool * Z) :=
  let letter := match lhs with [l0] => if ascii_letter l0 then Some (true, Z.of_N l0) else None | _ => None end in
  match strtoimax lhs with
  | Some (v, []) => if in64 v then Some (false, v) else letter
  | _ => letter
  end.

(* rhs: number or letter, then the rest : (is_char, value, rest, length of the rhs term) *)
Definition rhs_kind (rhs : str) : option (bool * Z * str * nat) :=
  match rhs with
  | [] => None
  | r0 :: rtl =>
      if is_digit r0 || (((r0 =? PLUS) || (r0 =? MINUS)) && match rtl with d :: _ => is_digit d | [] => false end) then
        match strtoimax rhs with
        | Some (v, ep) =>
            if in64 v && (match ep with [] => true | e0 :: _ => e0 =? DOT end)
            then Some (false, v, ep, (length rhs - length ep)%nat) else None
        | None => None
        end
      else if ascii_letter r0 && (match rtl with [] => true | d :: _ => d =? DOT end)
      then Some (true, Z.of_N r0, rtl, 1%nat)
      else None
  end.

(* the optional "..incr" *)
Definition incr_of (ep : str) : option Z :=
  match ep with
  | [] => Some 1%Z
  | a :: b :: (_ :: _) =>
      if (a =? DOT) && (b =? DOT) then
        match strtoimax (tl (tl ep)) with
        | Some (v, []) => if in64 v then Some v else None
        | _ => None
        end
      else None
  | _ => None
  end.

Definition zpad_width (lc : bool) (lhs rhs : str) (rl : nat) : nat :=
  let ll := length lhs in
  let l0 := hd 0 lhs in
  let r0 := hd 0 rhs in
  let z1 := (Nat.ltb 1 ll && (l0 =? ZERO)) in
  let z2 := (Nat.ltb 2 ll && (l0 =? MINUS) && match tl lhs with d :: _ => d =? ZERO | [] => false end) in
  let z3 := (Nat.ltb 1 rl && (r0 =? ZERO)) in
  let z4 := (Nat.ltb 2 rl && (r0 =? MINUS) && match tl rhs with d :: _ => d =? ZERO | [] => false end) in
  if negb lc && (z1 || z2 || z3 || z4) then Nat.max ll rl else O.

Definition spec_fmt (lc : bool) (width : nat) (n : Z) : str :=
  if lc then [Z.to_N n] else if Nat.ltb 0 width then fmt_pad width n else fmt_int n.

Definition seq_guard_hit (lv rv incr1 : Z) : bool :=
  ((lv <? rv)%Z && (incr1 =? MIN64)%Z)
  || ((0 <? lv)%Z && (rv <? MIN64 + 3 + lv)%Z) || ((lv <? 0)%Z && (rv >? MAX64 - 2 + lv)%Z).

Definition mkseq (lc : bool) (lv rv incr0 : Z) (width : nat) : seqres :=
  let incr1 := if (incr0 =? 0)%Z then 1%Z else incr0 in
  if (lv <? rv)%Z && (incr1 =? MIN64)%Z then SeqGuard
  else if ((0 <? lv)%Z && (rv <? MIN64 + 3 + lv)%Z) || ((lv <? 0)%Z && (rv >? MAX64 - 2 + lv)%Z) then
    (if (Z.of_nat limit <=? Z.abs (rv - lv) / Z.abs incr1)%Z then SeqMany else SeqGuard)
  else
    let step := Z.abs incr1 in
    let cnt := (Z.abs (rv - lv) / step)%Z in
    if (Z.of_nat limit <=? cnt)%Z then SeqMany
    else
      let sstep := if (lv <=? rv)%Z then step else (- step)%Z in
      SeqList (map (spec_fmt lc width) (count_up (S (Z.to_nat cnt)) lv sstep)).

Definition seq_term (text : str) : seqres :=
  match cut_dotdot text with
  | None => NotSeq
  | Some (lhs, rhs) =>
      match lhs, rhs with
      | [], _ | _, [] => NotSeq
      | _ :: _, _ :: _ =>
          match lhs_kind lhs, rhs_kind rhs with
          | Some (lc, lv), Some (rc, rv, ep, rl) =>
              match incr_of ep with
              | None => NotSeq
              | Some incr0 =>
                  if negb (Bool.eqb lc rc) then NotSeq
                  else mkseq lc lv rv incr0 (zpad_width lc lhs rhs rl)
              end
          | _, _ => NotSeq
          end
      end
  end.

(* array_concat: a-major product; Many is absorbing because no factor is empty *)
Definition product (a b : list str) : sres :=
  if Nat.ltb limit (length a * length b) then Many
  else Words (flat_map (fun x => map (fun y => x ++ y) b) a).
Definition sprod (a b : sres) : sres :=
  match a, b with
  | Words x, Words y => product x y
  | _, _ => Many
  end.
Definition sapp (a b : sres) : sres :=
  match a, b with
  | Words x, Words y => if Nat.ltb limit (length x + length y) then Many else Words (x ++ y)
  | _, _ => Many
  end.

(* brace_expand / expand_amble; out of fuel = Words [] (never a result otherwise: every real result is non-empty) *)
Fixpoint bexp (fuel : nat) (t : str) : sres :=
  match fuel with
  | O => Words []
  | S f =>
      match find_brace (S (length t)) true [] t with
      | None => Words [t]
      | Some (pre, amble, post) =>
          let tack :=
            if flat_comma amble then amb f amble
            else match seq_term amble with
                 | SeqList l => Words l
                 | SeqMany => Many
                 | NotSeq | SeqGuard => Words [LB :: amble ++ [RB]]
                 end in
          let r := sprod (Words [pre]) tack in
          match post with
          | [] => r
          | _ => sprod r (bexp f post)
          end
      end
  end
with amb (fuel : nat) (t : str) : sres :=
  match fuel with
  | O => Words []
  | S f =>
      match gobble COMMA 0 1 false t with
      | None => bexp f t
      | Some (piece, rest) => sapp (bexp f piece) (amb f rest)
      end
  end.

Definition spec_fuel (w : str) : nat := S (S (2 * length w)).
Definition spec (w : str) : sres := bexp (spec_fuel w) w.

(* ------------------------------------------------------------------ known-finding class KF-C16-1, Coq twin of the
   harness feature "skippedClose": while looking for the '}' of some '{', bash passes over a level-0 '}' because no
   level-0 ',' or ".." has been seen yet *)
Fixpoint gobble_skips (level commas : nat) (t : str) : bool :=
  match t with
  | [] => false
  | c :: rest =>
      if c =? BS then match rest with [] => false | _ :: rest' => gobble_skips level commas rest' end
      else if (c =? RB) && Nat.eqb level 0 then
        (if Nat.ltb 0 commas then false else true)
      else
        let lc :=
          if c =? LB then (S level, commas)
          else if (c =? RB) && Nat.ltb 0 level then (Nat.pred level, commas)
          else if (c =? COMMA) && Nat.eqb level 0 then (level, S commas)
          else if Nat.eqb level 0 && starts_dotdot t && negb (third_is RB t) then (level, S commas)
          else (level, commas) in
        gobble_skips (fst lc) (snd lc) rest
  end.

Fixpoint find_brace_skips (fuel : nat) (at0 : bool) (t : str) : bool :=
  match fuel with
  | O => false
  | S f =>
      match gobble LB 0 1 at0 t with
      | None => false
      | Some (_, after) =>
          gobble_skips 0 0 after
          || match find_close after with Some _ => false | None => find_brace_skips f false after end
      end
  end.

Fixpoint bexp_skips (fuel : nat) (t : str) : bool :=
  match fuel with
  | O => false
  | S f =>
      find_brace_skips (S (length t)) true t
      || match find_brace (S (length t)) true [] t with
         | None => false
         | Some (_, amble, post) =>
             (if flat_comma amble then amb_skips f amble else false)
             || match post with [] => false | _ => bexp_skips f post end
         end
  end
with amb_skips (fuel : nat) (t : str) : bool :=
  match fuel with
  | O => false
  | S f =>
      match gobble COMMA 0 1 false t with
      | None => bexp_skips f t
      | Some (piece, rest) => bexp_skips f piece || amb_skips f rest
      end
  end.

Definition skipped_close (w : str) : bool := bexp_skips (spec_fuel w) w.

(* Coq twins of the harness features behind KF-C16-2..4: is there a brace site (the text between the '{' bash
   selects and its '}') satisfying [here]? *)
Fixpoint has_unescaped (c : N) (t : str) : bool :=
  match t with
  | [] => false
  | x :: r =>
      if x =? BS then match r with [] => false | _ :: r' => has_unescaped c r' end
      else if x =? c then true else has_unescaped c r
  end.

Fixpoint bexp_any (here : str -> bool) (fuel : nat) (t : str) : bool :=
  match fuel with
  | O => false
  | S f =>
      match find_brace (S (length t)) true [] t with
      | None => false
      | Some (_, amble, post) =>
          here amble
          || (if flat_comma amble then amb_any here f amble else false)
          || match post with [] => false | _ => bexp_any here f post end
      end
  end
with amb_any (here : str -> bool) (fuel : nat) (t : str) : bool :=
  match fuel with
  | O => false
  | S f =>
      match gobble COMMA 0 1 false t with
      | None => bexp_any here f t
      | Some (piece, rest) => bexp_any here f piece || amb_any here f rest
      end
  end.

(* KF-C16-2: a list brace whose commas are all nested (no level-0 comma) *)
Definition nested_comma_only (w : str) : bool :=
  bexp_any (fun a => flat_comma a && match gobble COMMA 0 1 false a with None => true | Some _ => false end) (spec_fuel w) w.
(* KF-C16-3: a syntactically valid sequence rejected by mkseq's overflow guards *)
Definition seq_guard (w : str) : bool :=
  bexp_any (fun a => negb (flat_comma a) && match seq_term a with SeqGuard => true | _ => false end) (spec_fuel w) w.
(* KF-C16-4: a comma-less brace that is not a sequence and contains a '{' *)
Definition failed_seq_nested (w : str) : bool :=
  bexp_any (fun a => negb (flat_comma a) && match seq_term a with NotSeq | SeqGuard => has_unescaped LB a | _ => false end)
           (spec_fuel w) w.
(* the union of the listed classes *)
Definition known_class (w : str) : bool :=
  skipped_close w || nested_comma_only w || seq_guard w || failed_seq_nested w.

(* comparison of the implementation's answer with the Spec's *)
Definition to_sres (r : res (list str)) : sres :=
  match r with Ok l => Words l | Err _ => Many | Panic => Words [] end.
Fixpoint strs_eqb (a b : list str) : bool :=
  match a, b with
  | [], [] => true
  | x :: a', y :: b' => str_eqb x y && strs_eqb a' b'
  | _, _ => false
  end.
Definition sres_eqb (a b : sres) : bool :=
  match a, b with Many, Many => true | Words x, Words y => strs_eqb x y | _, _ => false end.

(* all words of length n over an alphabet *)
Fixpoint all_words (alpha : list N) (n : nat) : list str :=
  match n with
  | O => [[]]
  | S n' => flat_map (fun w => map (fun c => c :: w) alpha) (all_words alpha n')
  end.
