(* Expand/Format.v — model of expand.Format / formatInto (expand/expand.go) and of the
   printf and echo builtins (interp/builtin.go), after the fix: commits e99402a a410fc4 f64b374 5da2c8e 36fa1d4 1821ea4 9524abf.
   Part 1: the pieces of Go's strconv / fmt / utf8 that formatInto delegates to.
   Part 2: formatInto, byte by byte; Format; the builtins (reuse loop, echo options).
   Part 3: Spec — bash's printf / echo -e, written per directive, PARTIAL: [None] outside the
           directive subset on which the code is right (every [None] names its reason).
   NO PROOFS in this file. *)
From Verif Require Import Base.Str.
Open Scope N_scope.

(* ------------------------------------------------------------------ characters *)
Definition in_rng (lo hi c : N) : bool := (lo <=? c) && (c <=? hi).
Definition BSL : N := 92.   (* backslash *)
Definition PCT : N := 37.   (* % *)
Definition is_dec (c : N) : bool := in_rng 48 57 c.
Definition is_oct (c : N) : bool := in_rng 48 55 c.
Definition is_hexd (c : N) : bool := in_rng 48 57 c || in_rng 97 102 c || in_rng 65 70 c.
(* value of a digit character in any base up to 36 (strconv's  c-'0' / lower(c)-'a'+10) *)
Definition digit_val (c : N) : N :=
  if in_rng 48 57 c then c - 48 else if in_rng 97 122 c then c - 87
  else if in_rng 65 90 c then c - 55 else 0.
Definition parse_base (base : N) (ds : str) : N := fold_left (fun n c => n * base + digit_val c) ds 0.
Definition nonempty {A} (l : list A) : bool := match l with [] => false | _ => true end.
Definition len (s : str) : N := N.of_nat (length s).
Definition rep (b : N) (n : N) : str := repeat b (N.to_nat n).

(* representation of u in base b (2 <= b <= 16), most significant digit first, lower-case:
   the loop  for u >= base { buf[i] = digits[u%base]; u /= base }; buf[i] = digits[u]  of fmtInteger.
   Fuel = number of bits of u + 1 is enough for every base >= 2. *)
Definition digit_char (d : N) : N := if d <? 10 then 48 + d else 87 + d.
Fixpoint digits_loop (fuel : nat) (base u : N) (acc : str) : str :=
  match fuel with
  | O => digit_char (u mod base) :: acc
  | S f => if u <? base then digit_char u :: acc
           else digits_loop f base (u / base) (digit_char (u mod base) :: acc)
  end.
Definition digits_of (base u : N) : str := digits_loop (N.size_nat u) base u [].

(* ------------------------------------------------------------------ utf8 *)
(* utf8.AppendRune on uint32(r): what strings.Builder.WriteRune writes *)
Definition encode_rune (r : N) : str :=
  if r <? 128 then [r]
  else if r <? 2048 then [192 + r / 64; 128 + r mod 64]
  else if (1114111 <? r) || in_rng 55296 57343 r then [239; 191; 189]
  else if r <? 65536 then [224 + r / 4096; 128 + (r / 64) mod 64; 128 + r mod 64]
  else [240 + r / 262144; 128 + (r / 4096) mod 64; 128 + (r / 64) mod 64; 128 + r mod 64].

Definition is_cont (b : N) : bool := in_rng 128 191 b.
(* size in bytes of the first rune as utf8.DecodeRuneInString reports it (invalid -> 1) *)
Definition rune_size (s : str) : nat :=
  match s with
  | [] => 0%nat
  | s0 :: t =>
      if s0 <? 194 then 1%nat
      else if s0 <? 224 then match t with s1 :: _ => if is_cont s1 then 2%nat else 1%nat | _ => 1%nat end
      else if s0 <? 240 then
        match t with
        | s1 :: s2 :: _ =>
            if in_rng (if s0 =? 224 then 160 else 128) (if s0 =? 237 then 159 else 191) s1 && is_cont s2
            then 3%nat else 1%nat
        | _ => 1%nat end
      else if s0 <? 245 then
        match t with
        | s1 :: s2 :: s3 :: _ =>
            if in_rng (if s0 =? 240 then 144 else 128) (if s0 =? 244 then 143 else 191) s1
               && is_cont s2 && is_cont s3
            then 4%nat else 1%nat
        | _ => 1%nat end
      else 1%nat
  end.
(* utf8.RuneCountInString *)
Fixpoint rune_count_aux (skip : nat) (s : str) : N :=
  match s with
  | [] => 0
  | _ :: t => match skip with
              | S k => rune_count_aux k t
              | O => 1 + rune_count_aux (Nat.pred (rune_size s)) t
              end
  end.
Definition rune_count (s : str) : N := rune_count_aux 0 s.

(* ------------------------------------------------------------------ strconv.ParseInt(arg, 0, 0) *)
Definition lower (c : N) : N := N.lor c 32.
Definition MAXU64 : N := 18446744073709551615.
Definition TWO63 : N := 9223372036854775808.

(* underscoreOK: state '^' = 0, '0' = 1, '_' = 2, '!' = 3 *)
Fixpoint uok_loop (hex : bool) (st : N) (s : str) : bool :=
  match s with
  | [] => negb (st =? 2)
  | c :: t =>
      if is_dec c || (hex && in_rng 97 102 (lower c)) then uok_loop hex 1 t
      else if c =? 95 then (if st =? 1 then uok_loop hex 2 t else false)
      else if st =? 2 then false
      else uok_loop hex 3 t
  end.
Definition underscore_ok (s : str) : bool :=
  let s := match s with c :: t => if (c =? 45) || (c =? 43) then t else s | [] => s end in
  match s with
  | c0 :: c1 :: t =>
      if (c0 =? 48) && ((lower c1 =? 98) || (lower c1 =? 111) || (lower c1 =? 120))
      then uok_loop (lower c1 =? 120) 1 t
      else uok_loop false 0 s
  | _ => uok_loop false 0 s
  end.

Inductive perr := PSyntax | PRange.
(* the digit loop of ParseUint (bitSize 64, base0 = true): value, or error *)
Fixpoint pu_loop (base : N) (s : str) (n : N) (underscores : bool) : (N * bool) + perr :=
  match s with
  | [] => inl (n, underscores)
  | c :: t =>
      if c =? 95 then pu_loop base t n true
      else
        let dopt := if is_dec c then Some (c - 48)
                    else if in_rng 97 122 (lower c) then Some (lower c - 97 + 10) else None in
        match dopt with
        | None => inr PSyntax
        | Some d =>
            if base <=? d then inr PSyntax
            else if MAXU64 / base + 1 <=? n then inr PRange
            else let n1 := n * base + d in
                 if MAXU64 <? n1 then inr PRange else pu_loop base t n1 underscores
        end
  end.
(* ParseUint(s, 0, 64): (value, error) — on a range error the value is MAXU64, on a syntax error 0 *)
Definition parse_uint0 (s : str) : N * option perr :=
  match s with
  | [] => (0, Some PSyntax)
  | c0 :: t0 =>
      let '(base, body) :=
        if c0 =? 48 then
          match t0 with
          | c1 :: t1 =>                                     (* len(s) >= 3 iff t1 <> []; s[2:] = t1 *)
              if nonempty t1 && (lower c1 =? 98) then (2, t1)
              else if nonempty t1 && (lower c1 =? 111) then (8, t1)
              else if nonempty t1 && (lower c1 =? 120) then (16, t1)
              else (8, t0)
          | [] => (8, t0)
          end
        else (10, s) in
      match pu_loop base body 0 false with
      | inr PSyntax => (0, Some PSyntax)
      | inr PRange => (MAXU64, Some PRange)
      | inl (n, us) => if us && negb (underscore_ok s) then (0, Some PSyntax) else (n, None)
      end
  end.
(* ParseInt(s, 0, 0): the int64 value n that formatInto uses (the error is discarded there) *)
Definition parse_int0 (s : str) : Z :=
  match s with
  | [] => 0%Z
  | c :: t =>
      let neg := c =? 45 in
      let s1 := if (c =? 43) || neg then t else s in
      match parse_uint0 s1 with
      | (_, Some PSyntax) => 0%Z
      | (un, _) =>
          if negb neg && (TWO63 <=? un) then (Z.of_N TWO63 - 1)%Z
          else if neg && (TWO63 <? un) then (- Z.of_N TWO63)%Z
          else if neg then (- Z.of_N un)%Z else Z.of_N un
      end
  end.
(* uint(n) for an int64 n *)
Definition to_uint64 (z : Z) : N := Z.to_N (z mod 18446744073709551616).

(* ------------------------------------------------------------------ fmt.Fprintf for "%"+body+verb, one operand *)
Record gflags := { g_minus : bool; g_plus : bool; g_space : bool; g_zero : bool }.
Definition g0 := {| g_minus := false; g_plus := false; g_space := false; g_zero := false |}.
(* the flag loop of doPrintf ('#' cannot occur: formatInto rejects it) *)
Fixpoint go_flags (s : str) (f : gflags) : gflags * str :=
  match s with
  | c :: t =>
      if c =? 48 then go_flags t {| g_minus := g_minus f; g_plus := g_plus f; g_space := g_space f; g_zero := true |}
      else if c =? 43 then go_flags t {| g_minus := g_minus f; g_plus := true; g_space := g_space f; g_zero := g_zero f |}
      else if c =? 45 then go_flags t {| g_minus := true; g_plus := g_plus f; g_space := g_space f; g_zero := g_zero f |}
      else if c =? 32 then go_flags t {| g_minus := g_minus f; g_plus := g_plus f; g_space := true; g_zero := g_zero f |}
      else (f, s)
  | [] => (f, [])
  end.
(* parsenum: None = tooLarge (the verb is then lost: "%!(NOVERB)") *)
Fixpoint go_parsenum (s : str) (num : N) (isnum : bool) : option (N * bool * str) :=
  match s with
  | c :: t => if is_dec c then (if 1000000 <? num then None else go_parsenum t (num * 10 + (c - 48)) true)
              else Some (num, isnum, s)
  | [] => Some (num, isnum, [])
  end.
(* fmt.pad / padString with [count] = rune count of b; [zero] as currently set *)
Definition go_pad (minus zero : bool) (wid : N) (widp : bool) (b : str) (count : N) : str :=
  if negb widp || (wid =? 0) then b
  else let padb := if zero && negb minus then 48 else 32 in
       if negb minus then rep padb (wid - count) ++ b else b ++ rep padb (wid - count).
(* fmtInteger (no precision, no sharp): neg = sign of the operand, u = its magnitude *)
Definition go_fmt_integer (f : gflags) (wid : N) (widp : bool) (neg : bool) (u : N) (base : N) : str :=
  let prec := if g_zero f && negb (g_minus f) && widp
              then (if neg || g_plus f || g_space f then wid - 1 else wid) else 0 in
  let ds := digits_of base u in
  let ds := rep 48 (prec - len ds) ++ ds in
  let ds := if neg then 45 :: ds else if g_plus f then 43 :: ds else if g_space f then 32 :: ds else ds in
  go_pad (g_minus f) false wid widp ds (len ds).

Inductive operand := VStr (s : str) | VInt (z : Z) | VUint (u : N).
(* Fprintf(sb, "%"+body+verb, operand); None = outside the modelled part of fmt (bad verb, huge width) *)
Definition go_fprintf (body : str) (verb : N) (a : operand) : option str :=
  let '(f, r) := go_flags body g0 in
  match go_parsenum r 0 false with
  | None => None
  | Some (wid, widp, r') =>
      if nonempty r' then None
      else match a with
           | VStr s => if verb =? 115 then Some (go_pad (g_minus f) (g_zero f) wid widp s (rune_count s)) else None
           | VInt z => if verb =? 100 then Some (go_fmt_integer f wid widp (z <? 0)%Z (Z.abs_N z) 10) else None
           | VUint u => if verb =? 100 then Some (go_fmt_integer f wid widp false u 10)
                        else if verb =? 111 then Some (go_fmt_integer f wid widp false u 8)
                        else if verb =? 120 then Some (go_fmt_integer f wid widp false u 16)
                        else None
           end
  end.

(* ------------------------------------------------------------------ formatInto *)
Inductive ferr := EInvalid (c : N) | EMissing.
Inductive outcome :=
| Done (out : str) (args : option (list str))   (* bytes written, remaining args (None = nil slice) *)
| Fail (e : ferr)
| GoPanic
| OutOfFuel
| Unmodelled.                                     (* fmt went outside the modelled part *)

Definition emit (bs : str) (r : outcome) : outcome :=
  match r with Done o a => Done (bs ++ o) a | e => e end.

(* readDigits(max, hex) at the current position: (digits, text after them) *)
Definition rd_ok (hex : bool) (c : N) : bool :=
  in_rng 48 55 c || (hex && in_rng 56 57 c) || (hex && in_rng 97 102 c) || (hex && in_rng 65 70 c).
Fixpoint read_digits (max : nat) (hex : bool) (s : str) : str * str :=
  match max, s with
  | S m, c :: t => if rd_ok hex c then let '(d, r) := read_digits m hex t in (c :: d, r) else ([], s)
  | _, _ => ([], s)
  end.

Definition args_len (a : option (list str)) : nat := match a with Some l => length l | None => 0%nat end.
(* arg, args = args[0], args[1:]  under the guard len(args) > 0; indexes are partial *)
Definition pop_arg (a : option (list str)) : option (str * option (list str)) :=
  match a with Some (x :: t) => Some (x, Some t) | _ => None end.
(* if len(args) > 0 { arg, args = args[0], args[1:] } else arg = "": None = index out of range *)
Definition take_arg (a : option (list str)) : option (str * option (list str)) :=
  if (0 <? args_len a)%nat then pop_arg a else Some ([], a).

Section Loop.
  (* what the %b case calls: formatInto(sb, arg, nil, true) *)
  Variable brec : str -> outcome.

  Fixpoint loop (fuel : nat) (pb : bool) (format : str) (fmts : str) (args : option (list str)) : outcome :=
    match fuel with
    | O => OutOfFuel
    | S fuel =>
      match format with
      | [] => if nonempty fmts then Fail EMissing else Done [] args
      | c :: rest =>
        if c =? BSL then
          match rest with
          | [] => emit [BSL] (loop fuel pb [] fmts args)
          | c2 :: rest2 =>
              let simple b := emit [b] (loop fuel pb rest2 fmts args) in
              if c2 =? 97 then simple 7 else if c2 =? 98 then simple 8
              else if (c2 =? 101) || (c2 =? 69) then simple 27
              else if c2 =? 102 then simple 12 else if c2 =? 110 then simple 10
              else if c2 =? 114 then simple 13 else if c2 =? 116 then simple 9
              else if c2 =? 118 then simple 11
              else if (c2 =? 92) || (c2 =? 39) || (c2 =? 34) || (c2 =? 63) then simple c2
              else if is_oct c2 then
                let max := if pb && (c2 =? 48) then 4%nat else 3%nat in
                let '(digits, r3) := read_digits max false rest in
                emit [parse_base 8 digits mod 256] (loop fuel pb r3 fmts args)
              else if (c2 =? 120) || (c2 =? 117) || (c2 =? 85) then
                let max := if c2 =? 117 then 4%nat else if c2 =? 85 then 8%nat else 2%nat in
                let '(digits, r3) := read_digits max true rest2 in
                if nonempty digits then
                  let n := parse_base 16 digits in
                  if c2 =? 120 then emit [n mod 256] (loop fuel pb r3 fmts args)
                  else emit (encode_rune n) (loop fuel pb r3 fmts args)
                else emit [BSL; c2] (loop fuel pb rest2 fmts args)
              else if c2 =? PCT then emit [BSL] (loop fuel pb rest fmts args)   (* i--: the % is read again *)
              else emit [BSL; c2] (loop fuel pb rest2 fmts args)
          end
        else if nonempty fmts then
          if c =? PCT then emit [PCT] (loop fuel pb rest [] args)
          else if c =? 99 then                                   (* 'c' *)
            match take_arg args with
            | None => GoPanic
            | Some (arg, args') =>
                let b := match arg with [] => 0 | b :: _ => b end in     (* if len(arg) > 0 { b = arg[0] } *)
                match go_fprintf (tl fmts) 115 (VStr [b]) with
                | None => Unmodelled
                | Some o => emit o (loop fuel pb rest [] args')
                end
            end
          else if (c =? 43) || (c =? 45) || (c =? 32) then
            if (1 <? length fmts)%nat then Fail (EInvalid c) else loop fuel pb rest (fmts ++ [c]) args
          else if is_dec c then loop fuel pb rest (fmts ++ [c]) args
          else if (c =? 115) || (c =? 98) || (c =? 100) || (c =? 105) || (c =? 117) || (c =? 111) || (c =? 120) then
            match take_arg args with
            | None => GoPanic
            | Some (arg, args') =>
                if c =? 98 then
                  match brec arg with                                   (* into a separate buffer ... *)
                  | Done e _ =>
                      match go_fprintf (tl fmts) 115 (VStr e) with     (* ... then farg = it, c = 's' *)
                      | None => Unmodelled
                      | Some o => emit o (loop fuel pb rest [] args')
                      end
                  | e => e
                  end
                else
                  let '(verb, opnd) :=
                    if c =? 115 then (115, VStr arg)
                    else let n := parse_int0 arg in
                         if (c =? 105) || (c =? 100) then (100, VInt n)
                         else ((if c =? 117 then 100 else c), VUint (to_uint64 n)) in
                  match go_fprintf (tl fmts) verb opnd with
                  | None => Unmodelled
                  | Some o => emit o (loop fuel pb rest [] args')
                  end
            end
          else Fail (EInvalid c)
        else if (match args with Some _ => true | None => false end) && (c =? PCT) then loop fuel pb rest [PCT] args
        else emit [c] (loop fuel pb rest fmts args)
      end
    end.
End Loop.

(* formatInto(sb, arg, nil, true): inside it args == nil, so no directive is ever started and the
   %b case is unreachable (lemma b_never_recurses); the inner callback is therefore irrelevant *)
Definition format_b (arg : str) : outcome :=
  loop (fun _ => Unmodelled) (S (S (length arg))) true arg [] None.
Definition format_into (format : str) (args : option (list str)) : outcome :=
  loop format_b (S (S (length format))) false format [] args.

(* expand.Format: (string, consumed, error) *)
Inductive fres := FOk (s : str) (consumed : nat) | FErr (e : ferr) | FPanic | FOutOfFuel | FUnmodelled.
Definition format (fmt : str) (args : option (list str)) : fres :=
  match format_into fmt args with
  | Done o a => FOk o (args_len args - args_len a)
  | Fail e => FErr e
  | GoPanic => FPanic
  | OutOfFuel => FOutOfFuel
  | Unmodelled => FUnmodelled
  end.

(* ------------------------------------------------------------------ the builtins *)
Inductive bres := BOut (stdout : str) (status : N) | BPanic | BOutOfFuel | BUnmodelled.
Definition bemit (bs : str) (r : bres) : bres := match r with BOut o s => BOut (bs ++ o) s | e => e end.

(* the printf reuse loop: for { s, n, err := Format(format, args); ...; args = args[n:]; if n == 0 || len(args) == 0 { break } } *)
Fixpoint printf_rounds (fuel : nat) (fmt : str) (args : list str) : bres :=
  match fuel with
  | O => BOutOfFuel
  | S fuel =>
      match format fmt (Some args) with
      | FErr _ => BOut [] 1
      | FPanic => BPanic
      | FOutOfFuel => BOutOfFuel
      | FUnmodelled => BUnmodelled
      | FOk s n =>
          if (length args <? n)%nat then BPanic                    (* args[n:] *)
          else let args' := skipn n args in
               if (n =? 0)%nat || negb (nonempty args') then BOut s 0
               else bemit s (printf_rounds fuel fmt args')
      end
  end.
Definition printf_builtin (argv : list str) : bres :=
  match argv with
  | [] => BOut [] 2
  | fmt :: args => printf_rounds (S (length args)) fmt args
  end.

Definition s_n : str := [45; 110].   (* -n *)
Definition s_e : str := [45; 101].   (* -e *)
Definition s_E : str := [45; 69].    (* -E *)
(* an option word: len >= 2, '-' first, strings.Trim(opts[1:], "neE") == "" *)
Definition is_neE (c : N) : bool := (c =? 110) || (c =? 101) || (c =? 69).
Definition echo_optword (a : str) : bool :=
  match a with
  | d :: c :: t => (d =? 45) && forallb is_neE (c :: t)
  | _ => false
  end.
(* for _, opt := range opts[1:] { switch opt { 'n': newline = false; 'e': doExpand = true; 'E': doExpand = false } } *)
Fixpoint echo_optchars (cs : str) (newline doexp : bool) : bool * bool :=
  match cs with
  | [] => (newline, doexp)
  | c :: t => if c =? 110 then echo_optchars t false doexp
              else if c =? 101 then echo_optchars t newline true
              else if c =? 69 then echo_optchars t newline false
              else echo_optchars t newline doexp
  end.
Fixpoint echo_opts (args : list str) (newline doexp : bool) : list str * bool * bool :=
  match args with
  | a :: t => if echo_optword a
              then let '(nl, ex) := echo_optchars (tl a) newline doexp in echo_opts t nl ex
              else (args, newline, doexp)
  | [] => ([], newline, doexp)
  end.
(* arg, _, _ = expand.Format(cfg, "%b", []string{arg}); an error leaves "" *)
Definition echo_expand (arg : str) : bres :=
  match format [PCT; 98] (Some [arg]) with
  | FOk s _ => BOut s 0
  | FErr _ => BOut [] 0
  | FPanic => BPanic | FOutOfFuel => BOutOfFuel | FUnmodelled => BUnmodelled
  end.
Fixpoint echo_args (first : bool) (doexp : bool) (args : list str) (newline : bool) : bres :=
  match args with
  | [] => BOut (if newline then [10] else []) 0
  | a :: t =>
      let sep := if first then [] else [32] in
      match (if doexp then echo_expand a else BOut a 0) with
      | BOut s _ => bemit (sep ++ s) (echo_args false doexp t newline)
      | e => e
      end
  end.
Definition echo_builtin (args : list str) : bres :=
  let '(rest, newline, doexp) := echo_opts args true false in
  echo_args true doexp rest newline.

(* ================================================================== Spec: bash 5.2 *)
(* Partial: None = outside the directive subset on which the code agrees with bash. *)

(* up to [k] leading characters satisfying [p] *)
Fixpoint span_max (k : nat) (p : N -> bool) (s : str) : str * str :=
  match k, s with
  | S k', c :: t => if p c then let '(a, b) := span_max k' p t in (c :: a, b) else ([], s)
  | _, _ => ([], s)
  end.

Inductive escmode := MFormat | MPercentB | MEcho.
Definition is_scalar (n : N) : bool := (n <? 55296) || (in_rng 57344 1114111 n).

(* one escape; [s] = the text after the backslash.  Result: bytes written, text left. *)
Definition spec_escape (m : escmode) (s : str) : option (str * str) :=
  match s with
  | [] => Some ([BSL], [])
  | c :: t =>
      if c =? 97 then Some ([7], t) else if c =? 98 then Some ([8], t)
      else if (c =? 101) || (c =? 69) then Some ([27], t)
      else if c =? 102 then Some ([12], t) else if c =? 110 then Some ([10], t)
      else if c =? 114 then Some ([13], t) else if c =? 116 then Some ([9], t)
      else if c =? 118 then Some ([11], t) else if c =? 92 then Some ([92], t)
      else if (c =? 39) || (c =? 34) || (c =? 63) then
        match m with MFormat => Some ([c], t) | _ => None end          (* class b_quote_escape *)
      else if c =? 48 then
        match m with
        | MFormat => let '(d, r) := span_max 2 is_oct t in Some ([parse_base 8 d mod 256], r)
        | _ => let '(d, r) := span_max 3 is_oct t in Some ([parse_base 8 d mod 256], r)
        end
      else if in_rng 49 55 c then
        match m with
        | MEcho => None                                                 (* class echo_bare_octal *)
        | _ => let '(d, r) := span_max 2 is_oct t in Some ([parse_base 8 (c :: d) mod 256], r)
        end
      else if c =? 120 then
        let '(d, r) := span_max 2 is_hexd t in
        match d with [] => Some ([BSL; c], t) | _ => Some ([parse_base 16 d], r) end
      else if (c =? 117) || (c =? 85) then
        let '(d, r) := span_max (if c =? 117 then 4 else 8) is_hexd t in
        match d with
        | [] => Some ([BSL; c], t)
        | _ => let n := parse_base 16 d in
               if is_scalar n then Some (encode_rune n, r) else None    (* class unicode_escape_nonscalar *)
        end
      else if c =? 99 then
        match m with MFormat => Some ([BSL; c], t) | _ => None end      (* class b_backslash_c *)
      else if c =? PCT then Some ([BSL], s)      (* the backslash is literal; the % is read again (a directive in a format) *)
      else Some ([BSL; c], t)
  end.

(* a %b / echo -e argument: literal bytes and escapes *)
Fixpoint spec_bexpand (fuel : nat) (m : escmode) (s : str) : option str :=
  match fuel with
  | O => None
  | S fuel =>
      match s with
      | [] => Some []
      | c :: t =>
          if c =? BSL then
            match spec_escape m t with
            | None => None
            | Some (o, r) => match spec_bexpand fuel m r with Some o' => Some (o ++ o') | None => None end
            end
          else match spec_bexpand fuel m t with Some o' => Some (c :: o') | None => None end
      end
  end.
Definition spec_b (m : escmode) (s : str) : option str := spec_bexpand (S (length s)) m s.

Inductive conv := CvS | CvB | CvC | CvD | CvU | CvO | CvX.
Record dirv := { d_minus : bool; d_plus : bool; d_space : bool; d_zero : bool; d_width : N; d_conv : conv }.
Inductive item := ILit (bs : str) | IDir (d : dirv).

Definition conv_of (c : N) : option conv :=
  if c =? 115 then Some CvS else if c =? 98 then Some CvB else if c =? 99 then Some CvC
  else if (c =? 100) || (c =? 105) then Some CvD else if c =? 117 then Some CvU
  else if c =? 111 then Some CvO else if c =? 120 then Some CvX else None.

(* a directive; [s] = the text after '%'.  Grammar accepted here (the code's subset of bash's):
   "%%", or  [one of + - space]  0*  [width digits, at most 7]  conversion. *)
Definition spec_directive (s : str) : option (item * str) :=
  match s with
  | c :: t => if c =? PCT then Some (ILit [PCT], t) else
      let '(fl, s1) := if (c =? 43) || (c =? 45) || (c =? 32) then (c, t) else (0, s) in
      let '(zs, s2) := span_max (length s1) (fun c => c =? 48) s1 in
      let '(ws, s3) := span_max (length s2) is_dec s2 in
      if (7 <? length ws)%nat then None else
      match s3 with
      | [] => None                                                       (* class incomplete_directive_output *)
      | cv :: r =>
          match conv_of cv with
          | None => None        (* other flags (class multiple_flags_rejected), %N% , precision, other conversions *)
          | Some k => Some (IDir {| d_minus := fl =? 45; d_plus := fl =? 43; d_space := fl =? 32;
                                    d_zero := nonempty zs;
                                    d_width := parse_base 10 ws;
                                    d_conv := k |}, r)
          end
      end
  | [] => None
  end.

Fixpoint spec_parse (fuel : nat) (s : str) : option (list item) :=
  match fuel with
  | O => None
  | S fuel =>
      match s with
      | [] => Some []
      | c :: t =>
          if c =? BSL then
            match spec_escape MFormat t with
            | None => None
            | Some (o, r) => match spec_parse fuel r with Some l => Some (ILit o :: l) | None => None end
            end
          else if c =? PCT then
            match spec_directive t with
            | None => None
            | Some (it, r) => match spec_parse fuel r with Some l => Some (it :: l) | None => None end
            end
          else match spec_parse fuel t with Some l => Some (ILit [c] :: l) | None => None end
      end
  end.

(* the value bash's strtoimax(arg, NULL, 0) gives for a complete, in-range integer; "" is 0.
   None: not a complete integer (class invalid_number_argument / char_constant_argument) or
   outside int64 (class unsigned_beyond_int64; for %d both clamp, left out of the scope) *)
Definition all_b (p : N -> bool) (s : str) : bool := forallb p s.
Definition spec_magnitude (s : str) : option N :=
  match s with
  | [] => None
  | c0 :: t0 =>
      if c0 =? 48 then
        match t0 with
        | [] => Some 0
        | c1 :: t1 =>
            if (c1 =? 120) || (c1 =? 88) then
              (if nonempty t1 && all_b is_hexd t1 then Some (parse_base 16 t1) else None)
            else if all_b is_oct t0 then Some (parse_base 8 t0) else None
        end
      else if all_b is_dec s then Some (parse_base 10 s) else None
  end.
Definition spec_int (arg : str) : option Z :=
  match arg with
  | [] => Some 0%Z
  | c :: t =>
      let neg := c =? 45 in
      let body := if neg || (c =? 43) then t else arg in
      match spec_magnitude body with
      | None => None
      | Some m =>
          if neg then (if m <=? TWO63 then Some (- Z.of_N m)%Z else None)
          else (if m <? TWO63 then Some (Z.of_N m) else None)
      end
  end.

Definition spec_pad (minus : bool) (width : N) (body : str) : str :=
  if minus then body ++ rep 32 (width - len body) else rep 32 (width - len body) ++ body.

Definition is_ascii (s : str) : bool := forallb (fun c => c <? 128) s.

(* C's printf for one conversion, as bash applies it; None outside the subset *)
Definition spec_conv (d : dirv) (arg : str) : option str :=
  let zero := d_zero d && negb (d_minus d) in
  match d_conv d with
  | CvS =>
      if zero && (0 <? d_width d) then None                             (* class zero_flag_on_string *)
      else if (0 <? d_width d) && negb (is_ascii arg) then None         (* class width_counts_runes *)
      else Some (spec_pad (d_minus d) (d_width d) arg)
  | CvC =>
      if zero && (0 <? d_width d) then None                             (* class zero_flag_on_string *)
      else Some (spec_pad (d_minus d) (d_width d) [match arg with [] => 0 | b :: _ => b end])
  | CvB =>
      match spec_b MPercentB arg with
      | None => None
      | Some e =>
          if zero && (0 <? d_width d) then None                          (* class zero_flag_on_string *)
          else if (0 <? d_width d) && negb (is_ascii e) then None        (* class width_counts_runes *)
          else Some (spec_pad (d_minus d) (d_width d) e)
      end
  | CvD =>
      match spec_int arg with
      | None => None
      | Some v =>
          let sign := if (v <? 0)%Z then [45] else if d_plus d then [43] else if d_space d then [32] else [] in
          let ds := digits_of 10 (Z.abs_N v) in
          if zero then Some (sign ++ rep 48 (d_width d - len sign - len ds) ++ ds)
          else Some (spec_pad (d_minus d) (d_width d) (sign ++ ds))
      end
  | CvU | CvO | CvX =>
      if d_plus d || d_space d then None                                 (* class sign_flag_on_unsigned *)
      else match spec_int arg with
           | None => None
           | Some v =>
               let base := match d_conv d with CvO => 8 | CvX => 16 | _ => 10 end in
               let ds := digits_of base (to_uint64 v) in
               if zero then Some (rep 48 (d_width d - len ds) ++ ds)
               else Some (spec_pad (d_minus d) (d_width d) ds)
           end
  end.

(* one pass over the items: output, remaining arguments *)
Fixpoint spec_round (items : list item) (args : list str) : option (str * list str) :=
  match items with
  | [] => Some ([], args)
  | ILit bs :: l => match spec_round l args with Some (o, a) => Some (bs ++ o, a) | None => None end
  | IDir d :: l =>
      let '(arg, args') := match args with a :: t => (a, t) | [] => ([], []) end in
      match spec_conv d arg with
      | None => None
      | Some o1 => match spec_round l args' with Some (o, a) => Some (o1 ++ o, a) | None => None end
      end
  end.

Definition has_dir (items : list item) : bool :=
  existsb (fun i => match i with IDir _ => true | _ => false end) items.

(* "The format is reused as necessary to consume all of the arguments." *)
Fixpoint spec_rounds (fuel : nat) (items : list item) (args : list str) : option str :=
  match fuel with
  | O => None
  | S fuel =>
      match spec_round items args with
      | None => None
      | Some (o, rest) =>
          if negb (has_dir items) || negb (nonempty rest) then Some o
          else match spec_rounds fuel items rest with Some o' => Some (o ++ o') | None => None end
      end
  end.

(* printf FORMAT ARGS...: stdout and status *)
Definition spec_printf (fmt : str) (args : list str) : option (str * N) :=
  if match fmt with c :: _ => c =? 45 | [] => false end
  then None                                                              (* option parsing: outside the property *)
  else
      match spec_parse (S (length fmt)) fmt with
      | None => None
      | Some items =>
          match spec_rounds (S (length args)) items args with
          | Some o => Some (o, 0)
          | None => None
          end
      end.

(* echo [-neE]... args: a word is an option word iff it is a dash followed by one or more of n e E;
   -n anywhere suppresses the newline, the last of e / E decides about escapes *)
Definition spec_optword (a : str) : bool :=
  match a with
  | d :: c :: t => (d =? 45) && forallb (fun c => (c =? 110) || (c =? 101) || (c =? 69)) (c :: t)
  | _ => false
  end.
Definition spec_last_eE (cs : str) (ex : bool) : bool :=
  fold_left (fun ex c => if c =? 101 then true else if c =? 69 then false else ex) cs ex.
Fixpoint spec_echo_opts (args : list str) (nl ex : bool) : option (list str * bool * bool) :=
  match args with
  | a :: t =>
      if spec_optword a
      then spec_echo_opts t (nl && negb (existsb (fun c => c =? 110) (tl a))) (spec_last_eE (tl a) ex)
      else Some (args, nl, ex)
  | [] => Some ([], nl, ex)
  end.
Fixpoint spec_echo_join (ex : bool) (args : list str) : option str :=
  match args with
  | [] => Some []
  | a :: t =>
      match (if ex then spec_b MEcho a else Some a), spec_echo_join ex t with
      | Some o, Some o' => Some (match t with [] => o | _ => o ++ [32] ++ o' end)
      | _, _ => None
      end
  end.
Definition spec_echo (args : list str) : option (str * N) :=
  match spec_echo_opts args true false with
  | None => None
  | Some (rest, nl, ex) =>
      match spec_echo_join ex rest with
      | Some o => Some (o ++ (if nl then [10] else []), 0)
      | None => None
      end
  end.
