(* Expand/Fields.v — model of the field-splitting part of expand/expand.go:
   Config.wordFields with its closures flush / delimit / splitAdd, Config.ifsRune,
   Config.ifsWhitespace, Config.ifsJoin, the quoted "$@" / "$*" paths and the
   unquoted $@ / $* path, as of the repaired code (fix: commits 3616507, 82ad724,
   31a29f2, ac9f79b, f79d77d).

   Strings are lists of code points (the Go loops range over runes; the harness
   feeds valid UTF-8 only, so rune index = position in the list).  A word is a
   list of parts, each already expanded:
     PLit s     unquoted literal (value after backslash removal, no leading ~)
     PSgl s     '...'
     PDbl vs    "..." whose inner parts expanded to the values vs (vs = [] for "")
     PDblMix is "..." whose inner parts are values and list expansions ($@, ${a[@]}): "a$@b"
     PExp v     unquoted $x / ${x} / $(..) whose value is v: subject to splitting
     PAt es     "$@" alone in double quotes, es the positional parameters
     PStar es   "$*" alone in double quotes
     PUList es  unquoted $@ or $*
   Spec = POSIX 2.6.5 field splitting over the flattened word.
   NO PROOFS in this file. *)
From Verif Require Import Base.Str.
Open Scope N_scope.

(* --- IFS ----------------------------------------------------------------- *)
Definition mem (r : N) (s : str) : bool := existsb (N.eqb r) s.   (* strings.ContainsRune *)
Definition is_ws (r : N) : bool := (r =? 32) || (r =? 9) || (r =? 10).
Definition ifs_rune (ifs : str) (r : N) : bool := mem r ifs.                 (* cfg.ifsRune *)
Definition ifs_ws (ifs : str) (r : N) : bool := is_ws r && ifs_rune ifs r.   (* cfg.ifsWhitespace *)

(* prepareConfig: IFS unset = space, tab, newline *)
Definition default_ifs : str := [32; 9; 10].
Definition cfg_ifs (o : option str) : str := match o with Some s => s | None => default_ifs end.

(* strings.Join *)
Fixpoint join (sep : str) (l : list str) : str :=
  match l with
  | [] => []
  | [x] => x
  | x :: rest => x ++ sep ++ join sep rest
  end.

(* cfg.ifsJoin: the separator is the first character of IFS, nothing if IFS is empty *)
Definition ifs_sep (ifs : str) : str := match ifs with [] => [] | r :: _ => [r] end.
Definition ifs_join (ifs : str) (l : list str) : str := join (ifs_sep ifs) l.

(* --- the word --------------------------------------------------------------- *)
Inductive ditem := DVal (v : str) | DList (es : list str).

Inductive part :=
| PLit (s : str)
| PSgl (s : str)
| PDbl (vs : list str)
| PExp (v : str)
| PAt (es : list str)
| PStar (es : list str)
| PUList (es : list str)
| PDblMix (items : list ditem).

(* --- Impl: wordFields --------------------------------------------------------- *)
(* fields / curField hold the values of the fieldParts; wsDelim as in the code *)
Record st := mkst { fields : list (list str); cur : list str; wsd : bool }.

Definition st0 : st := mkst [] [] false.

Definition add_part (s : st) (v : str) : st := mkst (fields s) (cur s ++ [v]) (wsd s).

Definition flush (s : st) : st :=
  match cur s with
  | [] => s
  | _ :: _ => mkst (fields s ++ [cur s]) [] (wsd s)
  end.

Definition delimit (ifs : str) (r : N) (s : st) : st :=
  let ws := ifs_ws ifs r in
  match cur s with
  | _ :: _ => mkst (fields s ++ [cur s]) [] ws            (* flush(); wsDelim = ws *)
  | [] =>
      if ws then s
      else if wsd s then mkst (fields s) [] false
      else mkst (fields s ++ [[]]) [] (wsd s)               (* fields = append(fields, nil) *)
  end.

(* splitAdd: [fs] is val[fieldStart:i] when fieldStart >= 0 *)
Fixpoint split_loop (ifs : str) (val : str) (fs : option str) (s : st) : st :=
  match val with
  | [] => match fs with Some f => add_part s f | None => s end
  | r :: rest =>
      if ifs_rune ifs r then
        let s1 := match fs with Some f => add_part s f | None => s end in
        split_loop ifs rest None (delimit ifs r s1)
      else
        split_loop ifs rest (Some (match fs with Some f => f ++ [r] | None => [r] end)) s
  end.

Definition split_add (ifs : str) (val : str) (s : st) : st := split_loop ifs val None s.

(* the quoted "$@" loop *)
Fixpoint at_loop (first : bool) (es : list str) (s : st) : st :=
  match es with
  | [] => s
  | e :: rest => at_loop false rest (add_part (if first then s else flush s) e)
  end.

(* the unquoted $@ / $* loop *)
Fixpoint ulist_loop (ifs : str) (first : bool) (es : list str) (s : st) : st :=
  match es with
  | [] => s
  | e :: rest =>
      let s1 := if first then s
                else match ifs with
                     | [] => flush s
                     | sep :: _ => delimit ifs sep s
                     end in
      ulist_loop ifs false rest (split_add ifs e s1)
  end.

(* the DblQuoted case: the loop over the inner parts with its two flags
   (emptyList, nonEmpty), then the switch *)
Definition str_nonempty (v : str) : bool := match v with [] => false | _ => true end.

Fixpoint dbl_loop (items : list ditem) (s : st) (empty_list non_empty : bool) : st * bool * bool :=
  match items with
  | [] => (s, empty_list, non_empty)
  | DVal v :: rest => dbl_loop rest (add_part s v) empty_list (non_empty || str_nonempty v)
  | DList es :: rest =>
      dbl_loop rest (at_loop true es s)
               (empty_list || match es with [] => true | _ => false end)
               (non_empty || match es with [] => false | _ => true end)
  end.

Definition dbl_mix (items : list ditem) (s : st) : st :=
  match dbl_loop items s false false with
  | (s', empty_list, non_empty) =>
      if non_empty then s'
      else if empty_list then mkst (fields s') (firstn (length (cur s)) (cur s')) (wsd s')   (* curField[:start] *)
      else if Nat.eqb (length (cur s')) (length (cur s)) then add_part s' []
      else s'
  end.

Definition do_part (ifs : str) (i0 : bool) (p : part) (s : st) : st :=
  match p with
  | PLit v => if i0 then add_part (add_part s []) v else add_part s v   (* i == 0: the (empty) ~user prefix part *)
  | PSgl v => add_part s v
  | PDbl [] => add_part s []
  | PDbl vs => mkst (fields s) (cur s ++ vs) (wsd s)
  | PExp v => split_add ifs v s
  | PAt es => at_loop true es s
  | PStar es => add_part s (ifs_join ifs es)
  | PUList es => ulist_loop ifs true es s
  | PDblMix items => dbl_mix items s
  end.

Fixpoint parts_loop (ifs : str) (i0 : bool) (ps : list part) (s : st) : st :=
  match ps with
  | [] => s
  | p :: rest => parts_loop ifs false rest (do_part ifs i0 p s)
  end.

(* wordFields followed by fieldJoin of every field (what expand.Fields yields
   when no globbing happens) *)
Definition word_fields (oifs : option str) (ps : list part) : list str :=
  map (@concat N) (fields (flush (parts_loop (cfg_ifs oifs) true ps st0))).

(* --- one Config used for several calls (the interpreter keeps one per Runner) ---------
   prepareConfig runs at the start of every call and overwrites cfg.ifs: default
   separators unless IFS is set in the environment of *this* call; what an earlier
   call left in cfg.ifs ([prev]) is never read. *)
Definition prepare_config (prev : str) (oifs : option str) : str :=
  match oifs with Some s => s | None => default_ifs end.

Definition word_fields_on (prev : str) (oifs : option str) (ps : list part) : list str :=
  map (@concat N) (fields (flush (parts_loop (prepare_config prev oifs) true ps st0))).

(* the calls made on one Config, cfg.ifs threaded from call to call *)
Fixpoint fields_seq (prev : str) (calls : list (option str * list part)) : list (list str) :=
  match calls with
  | [] => []
  | (oifs, ps) :: rest => word_fields_on prev oifs ps :: fields_seq (prepare_config prev oifs) rest
  end.

(* --- Spec: POSIX 2.6.5 over the flattened word ----------------------------------- *)
(* What the word expands to, character by character:
     C r  a character that is not subject to splitting (literal, quoted, or not in IFS)
     Q    a quoted (possibly empty) piece begins here: the field exists even if empty
     W    an IFS white space character from an unquoted expansion
     D    any other IFS character from an unquoted expansion
     BQ   boundary between two elements of "$@": ends a field, begins a (quoted) one
     Bk   boundary between two elements of unquoted $@ / $* when IFS is empty *)
Inductive sym := C (r : N) | Q | W | D | BQ | Bk.

Definition classify (ifs : str) (r : N) : sym :=
  if ifs_rune ifs r then (if ifs_ws ifs r then W else D) else C r.

Fixpoint at_syms (es : list str) : list sym :=
  match es with
  | [] => []
  | e :: rest => BQ :: map C e ++ at_syms rest
  end.

Fixpoint ulist_syms (ifs : str) (first : bool) (es : list str) : list sym :=
  match es with
  | [] => []
  | e :: rest =>
      (if first then [] else match ifs with [] => [Bk] | sep :: _ => [classify ifs sep] end)
      ++ map (classify ifs) e ++ ulist_syms ifs false rest
  end.

(* inside double quotes: a value is quoted text; a list expansion gives its elements,
   the first and last joining their neighbours *)
Definition item_syms (d : ditem) : list sym :=
  match d with
  | DVal v => Q :: map C v
  | DList [] => []
  | DList (e :: rest) => Q :: map C e ++ at_syms rest
  end.
Definition item_empty (d : ditem) : bool :=
  match d with DVal [] => true | DList [] => true | _ => false end.
Definition item_empty_list (d : ditem) : bool :=
  match d with DList [] => true | _ => false end.
(* "$@" without parameters makes the quoted string vanish if nothing else in it is non-empty *)
Definition dbl_vanishes (items : list ditem) : bool :=
  existsb item_empty_list items && forallb item_empty items.

Definition part_syms (ifs : str) (p : part) : list sym :=
  match p with
  | PLit v => map C v
  | PSgl v => Q :: map C v
  | PDbl vs => Q :: map C (concat vs)
  | PExp v => map (classify ifs) v
  | PAt [] => []
  | PAt (e :: rest) => Q :: map C e ++ at_syms rest
  | PStar es => Q :: map C (ifs_join ifs es)
  | PUList es => ulist_syms ifs true es
  | PDblMix items => if dbl_vanishes items then []
                     else match items with [] => [Q] | _ => flat_map item_syms items end
  end.

Definition flatten (ifs : str) (ps : list part) : list sym := flat_map (part_syms ifs) ps.

(* POSIX 2.6.5 as a three-state reading of the flattened word:
     sp_start     no field in progress; the last delimiter (if any) is complete
     sp_field f   inside a field whose text so far is f
     sp_afterws   a field was just ended by IFS white space: one following
                  non-white-space IFS character still belongs to that delimiter
   - IFS white space at the start and after a delimiter is ignored;
   - a non-white-space IFS character delimits a field, even an empty one;
   - a final delimiter ends the last field and does not begin another. *)
Fixpoint sp_start (l : list sym) : list str :=
  match l with
  | [] => []
  | C r :: l' => sp_field [r] l'
  | Q :: l' => sp_field [] l'
  | W :: l' => sp_start l'
  | D :: l' => [] :: sp_start l'
  | BQ :: l' => sp_field [] l'
  | Bk :: l' => sp_start l'
  end
with sp_field (f : str) (l : list sym) : list str :=
  match l with
  | [] => [f]
  | C r :: l' => sp_field (f ++ [r]) l'
  | Q :: l' => sp_field f l'
  | W :: l' => f :: sp_afterws l'
  | D :: l' => f :: sp_start l'
  | BQ :: l' => f :: sp_field [] l'
  | Bk :: l' => f :: sp_start l'
  end
with sp_afterws (l : list sym) : list str :=
  match l with
  | [] => []
  | C r :: l' => sp_field [r] l'
  | Q :: l' => sp_field [] l'
  | W :: l' => sp_afterws l'
  | D :: l' => sp_start l'
  | BQ :: l' => sp_field [] l'
  | Bk :: l' => sp_afterws l'
  end.

Definition spec_fields (oifs : option str) (ps : list part) : list str :=
  sp_start (flatten (cfg_ifs oifs) ps).

(* --- a second, text-book formulation for one unquoted value ------------------------
   posix_split ifs v: drop leading IFS white space; then repeatedly take the longest
   prefix without IFS characters as a field and skip one delimiter, i.e.
   white space* [one non-white-space IFS character] white space*  (a delimiter that
   starts with a non-white-space character has no white space before it). *)
Fixpoint drop_ws (ifs : str) (v : str) : str :=
  match v with
  | r :: v' => if ifs_ws ifs r then drop_ws ifs v' else v
  | [] => []
  end.

Fixpoint take_field (ifs : str) (v : str) : str * str :=
  match v with
  | [] => ([], [])
  | r :: v' => if ifs_rune ifs r then ([], v)
               else let (f, rest) := take_field ifs v' in (r :: f, rest)
  end.

(* v starts with an IFS character: skip the whole delimiter *)
Definition skip_delim (ifs : str) (v : str) : str :=
  match v with
  | [] => []
  | r :: v' =>
      if ifs_ws ifs r then
        match drop_ws ifs v' with
        | r2 :: v2 => if ifs_rune ifs r2 then drop_ws ifs v2 else r2 :: v2
        | [] => []
        end
      else drop_ws ifs v'
  end.

Fixpoint posix_loop (fuel : nat) (ifs : str) (v : str) : list str :=
  match fuel with
  | O => []
  | S fuel' =>
      match v with
      | [] => []
      | _ :: _ =>
          let (f, rest) := take_field ifs v in
          match rest with
          | [] => [f]
          | _ :: _ => f :: posix_loop fuel' ifs (skip_delim ifs rest)
          end
      end
  end.

Definition posix_split (ifs : str) (v : str) : list str :=
  posix_loop (S (length v)) ifs (drop_ws ifs v).

(* --- scope predicates ------------------------------------------------------------------ *)
(* the parser never yields an empty unquoted literal (brace expansion can: {,a}) *)
Definition lit_nonempty (p : part) : bool :=
  match p with PLit [] => false | _ => true end.
Definition in_scope (ps : list part) : bool := forallb lit_nonempty ps.

(* quote removal: a word without unquoted expansions is exactly one field, the
   concatenation of its pieces *)
Definition no_split_part (p : part) : bool :=
  match p with PLit _ | PSgl _ | PDbl _ | PStar _ => true | _ => false end.  (* PDblMix: see C22_at_* *)
Definition part_text (ifs : str) (p : part) : str :=
  match p with
  | PLit v | PSgl v => v
  | PDbl vs => concat vs
  | PStar es => ifs_join ifs es
  | _ => []
  end.
