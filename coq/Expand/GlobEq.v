(* Expand/GlobEq.v — comparison helper for the C19 code leg. No proofs. *)
From Verif Require Import Base.Str Expand.Param Expand.ParamEq Expand.Glob.
Open Scope N_scope.

Definition gres_eqb (a b : gres) : bool :=
  match a, b with
  | GOk x, GOk y => strs_eqb x y
  | GErr, GErr => true
  | GPanic, GPanic => true
  | _, _ => false
  end.

Definition gcase := (fsys * str * gopts * gres)%type.

Fixpoint gmismatches (i : nat) (cs : list gcase) : list nat :=
  match cs with
  | [] => []
  | (fs, w, o, obs) :: rest =>
      if gres_eqb (glob_word fs o w) obs then gmismatches (S i) rest else i :: gmismatches (S i) rest
  end.
