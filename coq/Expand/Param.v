(* Expand/Param.v — model of expand/param.go (Config.paramExp, varInd, removePattern,
   replaceElems, caseConvElems, assignElem's scalar path) and of the part of
   expand/expand.go that turns a word consisting of one parameter expansion,
   unquoted or inside double quotes, into fields (wordFields' ParamExp and DblQuoted
   cases, listElems, unquotedElemFields, quotedElemFields, sliceElems, splitAdd).

   Conventions of this file:
   * a string is a list of RUNES (code points, N), i.e. only valid UTF-8 is covered;
     the harness converts Go strings to rune lists both ways.  (${#v} and ${v:o:l}
     count runes, so a byte-based change of the code shows on non-ASCII values.)
   * external things are function arguments: the environment is an association list
     served by the harness' Environ; unicode.ToUpper/ToLower ([upper], [lower]) and
     syntax.Quote ([quote], property C13) are function arguments; arithmetic
     (property C20) is not modelled: indices, offsets and lengths are integer
     literals, already evaluated ([Z]).
   * Go's regexp engine is modelled by a backtracking (leftmost-first) matcher on the
     regular expressions that pattern.Regexp produces for patterns made of
     `*`, `?`, literal characters and backslash escapes.  `[` is outside the model.
   * [POut] = input outside the modelled fragment (never produced by the code leg's
     generator, excluded by every theorem).
   NO PROOFS in this file. *)
From Verif Require Import Base.Str.
Open Scope N_scope.

(* ------------------------------------------------------------------ variables *)

Inductive var :=
| VUnset                                          (* Variable{} *)
| VStr (s : str)                                  (* Kind String *)
| VIdx (l : list str) (ix : option (list Z))      (* Kind Indexed; ix = Indexes (None = dense) *)
| VAssoc (m : list (str * str)).                  (* Kind Associative (unique keys) *)

Definition env := list (str * var).

Fixpoint env_get (e : env) (n : str) : var :=
  match e with
  | [] => VUnset
  | (k, v) :: r => if str_eqb k n then v else env_get r n
  end.

Definition is_set (v : var) : bool := match v with VUnset => false | _ => true end.

Fixpoint assoc_get (m : list (str * str)) (k : str) : option str :=
  match m with
  | [] => None
  | (k', v) :: r => if str_eqb k' k then Some v else assoc_get r k
  end.

(* position of i in a sorted index list (slices.BinarySearch, found case) *)
Fixpoint ix_pos (ixs : list Z) (i : Z) : option nat :=
  match ixs with
  | [] => None
  | x :: r => if Z.eqb x i then Some O
              else match ix_pos r i with Some p => Some (S p) | None => None end
  end.

(* Variable.indexedVal; the dense case indexes v.List[i] after checking only
   i < len, so a negative i panics *)
Definition indexed_val (l : list str) (ix : option (list Z)) (i : Z) : res (option str) :=
  match ix with
  | Some ixs => match ix_pos ixs i with
                | Some p => Ok (nth_error l p)
                | None => Ok None
                end
  | None => if Z.ltb i 0 then Panic
            else Ok (nth_error l (Z.to_nat i))
  end.

Definition opt_str (o : option str) : str := match o with Some s => s | None => [] end.

(* Variable.String *)
Definition var_string (v : var) : str :=
  match v with
  | VStr s => s
  | VIdx l ix => match indexed_val l ix 0%Z with Ok (Some s) => s | _ => [] end
  | _ => []
  end.

(* internal.IndexedMax *)
Definition indexed_max (l : list str) (ix : option (list Z)) : Z :=
  match ix with
  | Some (x :: r) => last r x
  | _ => Z.of_nat (length l) - 1
  end.

(* ------------------------------------------------------------------ small string helpers *)

Fixpoint join (sep : str) (l : list str) : str :=
  match l with
  | [] => []
  | [x] => x
  | x :: r => x ++ sep ++ join sep r
  end.

Definition SP : str := [32].
Definition default_ifs : str := [32; 9; 10].

Definition ifs_of (e : env) : str :=
  match env_get e [73; 70; 83] with     (* "IFS" *)
  | VUnset => default_ifs
  | v => var_string v
  end.

(* Config.ifsJoin: separator = first character of IFS *)
Definition ifs_join (e : env) (l : list str) : str :=
  join (match ifs_of e with [] => [] | c :: _ => [c] end) l.

Fixpoint digits (fuel : nat) (n : N) (acc : str) : str :=
  match fuel with
  | O => acc
  | S f => let acc' := (48 + n mod 10) :: acc in
           if n / 10 =? 0 then acc' else digits f (n / 10) acc'
  end.
Definition itoa_N (n : N) : str := digits (S (N.to_nat (N.log2 n))) n [].
(* strconv.Itoa *)
Definition itoa (z : Z) : str :=
  if Z.ltb z 0 then 45 :: itoa_N (Z.abs_N z) else itoa_N (Z.to_N z).

(* slices.Sorted on strings: any sort; insertion sort *)
Fixpoint ins_str (x : str) (l : list str) : list str :=
  match l with
  | [] => [x]
  | y :: r => match cmp_str x y with Gt => y :: ins_str x r | _ => x :: l end
  end.
Definition sort_strs (l : list str) : list str := fold_right ins_str [] l.

(* ------------------------------------------------------------------ words *)

(* argument words: a list of parts, unquoted text ([WLit]: a Lit or an unquoted $p)
   or quoted text ([WQuo]: '...', "..." without expansions, or "$p") *)
Inductive wpart := WLit (s : str) | WQuo (s : str).
Definition word := list wpart.

Definition part_text (p : wpart) : str := match p with WLit s => s | WQuo s => s end.

(* expand.Literal on such a word (no backslash, no leading tilde in unquoted text: scope) *)
Definition literal_of (w : word) : str := flat_map part_text w.

Definition is_pat_meta (c : N) : bool := (c =? 42) || (c =? 63) || (c =? 91) || (c =? 92).

(* pattern.QuoteMeta *)
Definition quote_meta (s : str) : str :=
  flat_map (fun c => if is_pat_meta c then [92; c] else [c]) s.

(* expand.Pattern *)
Definition pattern_of (w : word) : str :=
  flat_map (fun p => match p with WLit s => s | WQuo s => quote_meta s end) w.

(* ------------------------------------------------------------------ regexp fragment *)

Inductive ratom := RChar (c : N) | RAny | RStar.

Inductive patres := PatOk (a : list ratom) | PatErr | PatOut.

(* pattern.Regexp (mode 0 or Shortest) on the fragment: `*` -> `.*`, `?` -> `.`
   (both under (?s)), `\c` and `c` -> the quoted character; a trailing backslash is
   a syntax error; `[` is outside the model *)
Fixpoint pat_atoms (p : str) : patres :=
  match p with
  | [] => PatOk []
  | c :: r =>
      if c =? 92 then
        match r with
        | [] => PatErr
        | d :: r' => match pat_atoms r' with PatOk a => PatOk (RChar d :: a) | x => x end
        end
      else if c =? 91 then PatOut
      else match pat_atoms r with
           | PatOk a => PatOk ((if c =? 42 then RStar else if c =? 63 then RAny else RChar c) :: a)
           | x => x
           end
  end.

Section Rx.
  Context {A : Type}.

  (* `.*` greedy, then continuation k: longest first *)
  Fixpoint star_greedy (k : str -> option A) (s : str) : option A :=
    match s with
    | [] => k []
    | _ :: s' => match star_greedy k s' with Some r => Some r | None => k s end
    end.

  (* `.*?` / an unanchored search: shortest first *)
  Fixpoint star_lazy (k : str -> option A) (s : str) : option A :=
    match k s with
    | Some r => Some r
    | None => match s with [] => None | _ :: s' => star_lazy k s' end
    end.

  (* match the atoms at the start of s, then k on the rest; first success in
     backtracking priority order (Go regexp = leftmost-first) *)
  Fixpoint rx_match (lazy : bool) (atoms : list ratom) (k : str -> option A) (s : str) : option A :=
    match atoms with
    | [] => k s
    | RChar c :: r => match s with
                      | d :: s' => if d =? c then rx_match lazy r k s' else None
                      | [] => None
                      end
    | RAny :: r => match s with _ :: s' => rx_match lazy r k s' | [] => None end
    | RStar :: r => (if lazy then star_lazy else star_greedy) (rx_match lazy r k) s
    end.
End Rx.

Definition at_end {A} (v : A) (rest : str) : option A :=
  match rest with [] => Some v | _ => None end.

(* removePattern *)
Definition remove_pattern (s pat : str) (from_end shortest : bool) : str :=
  match pat_atoms pat with
  | PatOk a =>
      if from_end then
        (* "(?s).*(E)$" resp. "(E)$", searched unanchored; the submatch runs to the end *)
        let grp := fun s1 => rx_match shortest a (at_end (length s1)) s1 in
        let r := if shortest then star_lazy (star_greedy grp) s else star_lazy grp s in
        match r with
        | Some n1 => firstn (length s - n1) s
        | None => s
        end
      else
        (* "^(E)" *)
        match rx_match shortest a (fun rest => Some rest) s with
        | Some rest => rest
        | None => s
        end
  | _ => s
  end.

(* first unanchored match of the (greedy) atoms in s:
   (characters left at the match start, characters left at the match end) *)
Definition find_first (a : list ratom) (s : str) : option (nat * nat) :=
  star_lazy (fun s1 => rx_match false a (fun rest => Some (length s1, length rest)) s1) s.

(* regexp.FindAllStringIndex(s, -1) turned into the replacement loop of replaceElems;
   abut = the previous match ended exactly here *)
Fixpoint replace_all (fuel : nat) (a : list ratom) (w : str) (s : str) (abut : bool) : str :=
  match fuel with
  | O => s
  | S f =>
      match find_first a s with
      | None => s
      | Some (n1, n2) =>
          let skip := (length s - n1)%nat in
          let mlen := (n1 - n2)%nat in
          if Nat.eqb mlen 0 && Nat.eqb skip 0 then
            (* empty match at the search position: ignored right after a match;
               either way the search moves one character forward *)
            (if abut then [] else w) ++
            match s with [] => [] | c :: s' => c :: replace_all f a w s' false end
          else
            firstn skip s ++ w ++ replace_all f a w (skipn (skip + mlen) s) true
      end
  end.

Definition replace_first (a : list ratom) (w : str) (s : str) : str :=
  match find_first a s with
  | None => s
  | Some (n1, n2) => firstn (length s - n1) s ++ w ++ skipn (length s - n2) s
  end.

(* findAnchoredIndex + the replacement loop *)
Definition replace_anchored (a : list ratom) (w : str) (s : str) (at_end_anchor : bool) : str :=
  if at_end_anchor then
    match star_lazy (fun s1 => rx_match false a (at_end (length s1)) s1) s with
    | Some n1 => firstn (length s - n1) s ++ w
    | None => s
    end
  else
    match rx_match false a (fun rest => Some rest) s with
    | Some rest => w ++ rest
    | None => s
    end.

Inductive anchor := ANone | ABegin | AEnd.

(* the anchor test of replaceElems: not global, first word part unquoted, pattern
   starts with # or % *)
Definition split_anchor (all : bool) (orig_w : word) (orig : str) : anchor * str :=
  if all then (ANone, orig)
  else match orig_w, orig with
       | WLit _ :: _, c :: r => if c =? 35 then (ABegin, r) else if c =? 37 then (AEnd, r) else (ANone, orig)
       | _, _ => (ANone, orig)
       end.

(* replaceElems; None = outside the model *)
Definition replace_elems (all : bool) (orig_w with_w : word) (elems : list str) : option (list str) :=
  let '(anc, orig) := split_anchor all orig_w (pattern_of orig_w) in
  match anc, orig with
  | ANone, [] => Some elems
  | _, _ =>
      let w := literal_of with_w in
      match pat_atoms orig with
      | PatOut => None
      | PatErr => Some elems
      | PatOk a =>
          Some (map (fun s =>
                       match anc with
                       | ABegin => replace_anchored a w s false
                       | AEnd => replace_anchored a w s true
                       | ANone => if all then replace_all (S (S (length s))) a w s false
                                  else replace_first a w s
                       end) elems)
      end
  end.

Definition remove_elems (suffix small : bool) (arg : str) (elems : list str) : list str :=
  map (fun s => remove_pattern s arg suffix small) elems.

(* rx.MatchString(string(r)) *)
Definition match_char (a : list ratom) (c : N) : bool :=
  match star_lazy (fun s1 => rx_match false a (fun _ => Some tt) s1) [c] with
  | Some _ => true
  | None => false
  end.

(* caseConvElems *)
Definition case_conv_elems (conv : N -> N) (all : bool) (arg : str) (elems : list str) : option (list str) :=
  match pat_atoms arg with
  | PatOut => None
  | PatErr => Some elems
  | PatOk a =>
      let cv := fun c => if match_char a c then conv c else c in
      Some (map (fun s => match s with
                          | [] => []
                          | c :: r => cv c :: (if all then map cv r else r)
                          end) elems)
  end.

(* ------------------------------------------------------------------ the expansion *)

Inductive idx := INone | IAt | IStar | INum (z : Z) | IKey (k : str).

Inductive expop :=
| AltUnset | AltUnsetOrNull | DefUnset | DefUnsetOrNull
| ErrUnset | ErrUnsetOrNull | AsgUnset | AsgUnsetOrNull
| RemSP | RemLP | RemSS | RemLS
| UpFirst | UpAll | LowFirst | LowAll
| OtherOp.

Inductive pop :=
| PNone
| PLength
| PExcl
| PSlice (off len : option Z)
| PRepl (all : bool) (orig w : word)
| PExp (op : expop) (w : word).

Record pexp := mkP { p_name : str; p_idx : idx; p_op : pop }.

(* outcome of paramExp / of expanding the word *)
Inductive outcome (A : Type) :=
| OOk (a : A)
| OErrUnset (msg : str)          (* UnsetParameterError{Message} *)
| OErr (code : N)                (* 2 invalid indirect expansion, 3 negative array index,
                                    4 substring expression < 0 *)
| OPanic
| OOut.                          (* outside the modelled fragment *)
Arguments OOk {A} a.
Arguments OErrUnset {A} msg.
Arguments OErr {A} code.
Arguments OPanic {A}.
Arguments OOut {A}.

Definition obind {A B} (o : outcome A) (f : A -> outcome B) : outcome B :=
  match o with
  | OOk a => f a
  | OErrUnset m => OErrUnset m
  | OErr c => OErr c
  | OPanic => OPanic
  | OOut => OOut
  end.

Definition is_list_idx (i : idx) : bool := match i with IAt | IStar => true | _ => false end.
Definition is_star (i : idx) : bool := match i with IStar => true | _ => false end.
Definition is_at (i : idx) : bool := match i with IAt => true | _ => false end.

Definition AT : str := [64].
Definition STAR : str := [42].
Definition is_params_name (n : str) : bool := str_eqb n AT || str_eqb n STAR.

(* the index paramExp works with: $@ and $* get a synthetic [@] / [*] *)
Definition eff_idx (pe : pexp) : idx :=
  if str_eqb (p_name pe) AT then IAt
  else if str_eqb (p_name pe) STAR then IStar
  else p_idx pe.

(* Arithm on the index word: @ and * are not names, atoi gives 0 *)
Definition idx_arith (i : idx) : option Z :=
  match i with
  | IAt | IStar => Some 0%Z
  | INum z => Some z
  | _ => None
  end.

Definition assoc_vals (m : list (str * str)) : list str := sort_strs (map snd m).
Definition assoc_keys (m : list (str * str)) : list str := sort_strs (map fst m).

(* Config.varInd *)
Definition var_index (e : env) (vr : var) (i : idx) : outcome (str * bool) :=
  match i with
  | INone =>
      match vr with
      | VIdx l ix => match indexed_val l ix 0%Z with
                     | Ok o => OOk (opt_str o, match o with Some _ => true | None => false end)
                     | _ => OPanic
                     end
      | VAssoc m => let o := assoc_get m [48] in
                    OOk (opt_str o, match o with Some _ => true | None => false end)
      | _ => OOk (var_string vr, is_set vr)
      end
  | _ =>
      match vr with
      | VUnset => OOk ([], false)
      | VStr s =>
          match idx_arith i with
          | None => OOut
          | Some n => if Z.eqb n 0 then OOk (s, true) else OOk ([], false)
          end
      | VIdx l ix =>
          if is_list_idx i then OOk (join SP l, true)
          else match idx_arith i with
               | None => OOut
               | Some n =>
                   let n' := if Z.ltb n 0 then (n + indexed_max l ix + 1)%Z else n in
                   if Z.ltb n' 0 then OErr 3
                   else match indexed_val l ix n' with
                        | Ok (Some s) => OOk (s, true)
                        | Ok None => OOk ([], false)
                        | _ => OPanic
                        end
               end
      | VAssoc m =>
          match i with
          | IAt => OOk (join SP (assoc_vals m), true)
          | IStar => OOk (ifs_join e (assoc_vals m), true)
          | INum z => if Z.ltb z 0 then OOk ([], false)   (* a subscript parsed as arithmetic (-1) is an unset key *)
                      else let o := assoc_get m (itoa z) in
                           OOk (opt_str o, match o with Some _ => true | None => false end)
          | IKey k => let o := assoc_get m k in
                      OOk (opt_str o, match o with Some _ => true | None => false end)
          | INone => OOut
          end
      end
  end.

(* slicePos of sliceElems / of the substring code *)
Definition slice_pos (len : nat) (n : Z) : nat :=
  if Z.ltb n 0 then
    let m := (Z.of_nat len + n)%Z in
    if Z.ltb m 0 then len else Z.to_nat m
  else if Z.ltb (Z.of_nat len) n then len else Z.to_nat n.

Fixpoint count_lt (ixs : list Z) (x : Z) : nat :=
  match ixs with
  | [] => O
  | y :: r => if Z.ltb y x then S (count_lt r x) else O
  end.

(* the .Str field of a Variable *)
Definition var_str_field (v : var) : str := match v with VStr s => s | _ => [] end.

(* Config.sliceElems *)
Definition slice_elems (e : env) (off len : option Z) (sliced : bool)
           (elems : list str) (ix : option (list Z)) (positional : bool) : list str :=
  if negb sliced then elems else
  let elems := if positional then var_str_field (env_get e [48]) :: elems else elems in
  let elems :=
    match off with
    | None => elems
    | Some o =>
        match ix with
        | Some (x :: r) =>
            let mx := last r x in
            let o' := if Z.ltb o 0 then
                        let o1 := (o + mx + 1)%Z in if Z.ltb o1 0 then (mx + 1)%Z else o1
                      else o in
            skipn (count_lt (x :: r) o') elems
        | _ => skipn (slice_pos (length elems) o) elems
        end
    end in
  match len with
  | None => elems
  | Some n => firstn (slice_pos (length elems) n) elems
  end.

Definition pop_sliced (o : pop) : bool := match o with PSlice _ _ => true | _ => false end.
Definition pop_off (o : pop) : option Z := match o with PSlice a _ => a | _ => None end.
Definition pop_len (o : pop) : option Z := match o with PSlice _ b => b | _ => None end.

Definition is_pat_op (op : expop) : bool :=
  match op with
  | RemSP | RemLP | RemSS | RemLS | UpFirst | UpAll | LowFirst | LowAll => true
  | _ => false
  end.

(* Config.expansionArg *)
Definition exp_arg (op : expop) (w : word) : str :=
  if is_pat_op op then pattern_of w else literal_of w.

Section ParamExp.
  Variable upper lower : N -> N.      (* unicode.ToUpper / unicode.ToLower *)
  Variable quote : str -> str.        (* syntax.Quote(s, LangBash) *)

  Definition rem_case_elems (op : expop) (arg : str) (elems : list str) : option (list str) :=
    match op with
    | RemSP => Some (remove_elems false true arg elems)
    | RemLP => Some (remove_elems false false arg elems)
    | RemSS => Some (remove_elems true true arg elems)
    | RemLS => Some (remove_elems true false arg elems)
    | UpFirst => case_conv_elems upper false arg elems
    | UpAll => case_conv_elems upper true arg elems
    | LowFirst => case_conv_elems lower false arg elems
    | LowAll => case_conv_elems lower true arg elems
    | _ => Some elems
    end.

  Definition pat_in_model (p : str) : bool :=
    match pat_atoms p with PatOut => false | _ => true end.

  Definition opt_out {A} (o : option A) : outcome A :=
    match o with Some a => OOk a | None => OOut end.

  (* Config.paramExp: the string plus the assignment it performed, if any *)
  Definition param_exp (e : env) (pe : pexp) : outcome (str * option (str * var)) :=
    let name := p_name pe in
    let index := eff_idx pe in
    let joinf := fun l => if is_star index then ifs_join e l else join SP l in
    let vr := env_get e name in
    (* the "@"/"*" index switch *)
    let '(elems0, str0, index_all, call_var_ind) :=
      if is_list_idx index then
        match vr with
        | VUnset => ([], [], true, true)
        | VIdx l ix =>
            let el := slice_elems e (pop_off (p_op pe)) (pop_len (p_op pe)) (pop_sliced (p_op pe))
                                  l ix (is_params_name name) in
            (el, joinf el, true, false)
        | _ => ([], [], false, true)
        end
      else ([], [], false, true) in
    obind (if call_var_ind then var_index e vr index else OOk (str0, is_set vr)) (fun '(str, set) =>
    let elems := if index_all then elems0 else [str] in
    match p_op pe with
    | PNone => OOk (str, None)
    | PLength =>
        let n := if is_list_idx index
                 then match vr with VAssoc m => length m | _ => length elems end
                 else length str in
        OOk (itoa (Z.of_nat n), None)
    | PExcl =>
        match p_idx pe, vr with
        | INone, _ =>
            if negb (is_set vr) then OErr 2
            else match str with
                 | [] => OOk ([], None)
                 | _ => OOk (joinf [var_string (env_get e str)], None)
                 end
        | _, VIdx l ix =>
            OOk (joinf (match ix with
                        | Some ixs => map itoa ixs
                        | None => map (fun i => itoa (Z.of_nat i)) (seq 0 (length l))
                        end), None)
        | _, VAssoc m => OOk (joinf (assoc_keys m), None)
        | _, _ =>
            if negb (is_set vr) then OErr 2
            else match str with
                 | [] => OOk ([], None)
                 | _ => OOk (joinf [var_string (env_get e str)], None)
                 end
        end
    | PSlice off len =>
        if call_var_ind then
          let n := length str in
          let in_range := match off with
                          | Some o => Z.leb o (Z.of_nat n) && Z.leb (- Z.of_nat n) o
                          | None => true
                          end in
          let rs := match off with Some o => skipn (slice_pos n o) str | None => str end in
          match len with
          | None => OOk (rs, None)
          | Some l =>
              if Z.ltb l 0 && Z.ltb (Z.of_nat (length rs) + l) 0 && set && in_range
              then OErr 4
              else OOk (firstn (slice_pos (length rs) l) rs, None)
          end
        else OOk (str, None)
    | PRepl all orig w =>
        if negb set then OOk (str, None)
        else obind (opt_out (replace_elems all orig w elems)) (fun el => OOk (joinf el, None))
    | PExp op w =>
        let arg := exp_arg op w in
        match op with
        | AltUnsetOrNull =>
            match str with [] => OOk (str, None) | _ => OOk (if set then arg else str, None) end
        | AltUnset => OOk (if set then arg else str, None)
        | DefUnset =>
            if set then OOk (str, None)
            else OOk (match str with [] => arg | _ => str end, None)
        | DefUnsetOrNull => OOk (match str with [] => arg | _ => str end, None)
        | ErrUnset =>
            if set then OOk (str, None)
            else match str with [] => OErrUnset arg | _ => OOk (str, None) end
        | ErrUnsetOrNull =>
            match str with [] => OErrUnset arg | _ => OOk (str, None) end
        | AsgUnset | AsgUnsetOrNull =>
            let skip := match op with AsgUnset => set | _ => false end in
            if skip then OOk (str, None)
            else match str with
                 | [] =>
                     (* assignElem: only the plain scalar path is modelled *)
                     match p_idx pe, vr with
                     | INone, VUnset | INone, VStr _ =>
                         if is_params_name name then OOut
                         else OOk (arg, Some (name, VStr arg))
                     | _, _ => OOut
                     end
                 | _ => OOk (str, None)
                 end
        | RemSP | RemLP | RemSS | RemLS | UpFirst | UpAll | LowFirst | LowAll =>
            if negb (pat_in_model arg) then OOut
            else obind (opt_out (rem_case_elems op arg elems)) (fun el => OOk (joinf el, None))
        | OtherOp =>
            match arg with
            | [81] => OOk (if set then quote str else str, None)                       (* Q *)
            | [85] => OOk (map upper str, None)                                        (* U *)
            | [117] => OOk (match str with [] => [] | c :: r => upper c :: r end, None) (* u *)
            | [76] => OOk (map lower str, None)                                        (* L *)
            | _ => OOut
            end
        end
    end).

  (* ---------------------------------------------------------------- fields *)

  Definition in_str (c : N) (s : str) : bool := existsb (N.eqb c) s.

  (* splitAdd + flush on a value that is the whole word: maximal runs of non-IFS characters *)
  Fixpoint split_fields (ifs : str) (s : str) (cur : str) : list str :=
    match s with
    | [] => match cur with [] => [] | _ => [rev cur] end
    | c :: r =>
        if in_str c ifs
        then match cur with [] => split_fields ifs r [] | _ => rev cur :: split_fields ifs r [] end
        else split_fields ifs r (c :: cur)
    end.

  (* Config.listElems: (elems, star) *)
  Definition list_elems (e : env) (pe : pexp) : option (list str * bool) :=
    let sl := pop_sliced (p_op pe) in
    let off := pop_off (p_op pe) in
    let len := pop_len (p_op pe) in
    if is_params_name (p_name pe) then
      let l := match env_get e (p_name pe) with VIdx l _ => l | _ => [] end in
      Some (slice_elems e off len sl l None true, str_eqb (p_name pe) STAR)
    else if is_list_idx (p_idx pe) then
      match env_get e (p_name pe) with
      | VIdx l ix => Some (slice_elems e off len sl l ix false, is_star (p_idx pe))
      | VAssoc m => Some (assoc_vals m, is_star (p_idx pe))
      | _ => None
      end
    else None.

  (* Config.perElemOps *)
  Definition per_elem_ops (pe : pexp) (elems : list str) : outcome (list str) :=
    match p_op pe with
    | PRepl all orig w => opt_out (replace_elems all orig w elems)
    | PExp op w =>
        if is_pat_op op then
          if negb (pat_in_model (exp_arg op w)) then OOut
          else opt_out (rem_case_elems op (exp_arg op w) elems)
        else OOk elems
    | _ => OOk elems
    end.

  (* Config.quotedElemFields: None = nil (not an element-wise expansion) *)
  Definition quoted_elem_fields (e : env) (pe : pexp) : outcome (option (list str)) :=
    match p_op pe with
    | PLength => OOk None
    | PExcl =>
        if is_at (p_idx pe) then
          match env_get e (p_name pe) with
          | VIdx l ix => OOk (Some (match ix with
                                    | Some ixs => map itoa ixs
                                    | None => map (fun i => itoa (Z.of_nat i)) (seq 0 (length l))
                                    end))
          | VAssoc m => match m with
                        | [] | [_] => OOk (Some (map fst m))
                        | _ => OOut            (* Go map iteration order *)
                        end
          | _ => OOk None
          end
        else OOk None
    | _ =>
        match list_elems e pe with
        | Some (elems, star) =>
            obind (per_elem_ops pe elems) (fun el =>
            OOk (Some (if star then [ifs_join e el] else el)))
        | None =>
            if is_at (p_idx pe) && negb (is_set (env_get e (p_name pe)))
            then OOk (Some [])
            else OOk None
        end
    end.

  (* Config.unquotedElemFields *)
  Definition unquoted_elem_fields (e : env) (pe : pexp) : option (list str) :=
    match p_op pe with
    | PNone | PSlice _ _ => match list_elems e pe with Some (el, _) => Some el | None => None end
    | _ => None
    end.

  (* expand.Fields on the word ${...} (quoted = false) or "${...}" (quoted = true),
     with globbing disabled (ReadDir2 = nil): fields and the assignment performed *)
  Definition expand_word (e : env) (pe : pexp) (quoted : bool)
    : outcome (list str * option (str * var)) :=
    if quoted then
      obind (quoted_elem_fields e pe) (fun o =>
      match o with
      | Some elems => OOk (elems, None)
      | None => obind (param_exp e pe) (fun '(s, upd) => OOk ([s], upd))
      end)
    else
      match unquoted_elem_fields e pe with
      | Some elems => OOk (flat_map (fun s => split_fields (ifs_of e) s []) elems, None)
      | None => obind (param_exp e pe) (fun '(s, upd) => OOk (split_fields (ifs_of e) s [], upd))
      end.
End ParamExp.
