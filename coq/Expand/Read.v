(* Expand/Read.v — model of expand.ReadFields (expand/expand.go, repaired code,
   fix: commit 3616507), Runner.readLine and the assignment logic of the read
   builtin (interp/builtin.go): -r, names 1..k, no name (REPLY), -a.

   Strings are lists of code points (valid UTF-8 input; the Go code works on byte
   offsets into buf, the model on character offsets: the same slices).
   Go index and slice expressions that can go out of range yield Panic.
   fpos is kept most-recent-first (fpos[len(fpos)-1] is the head).
   Spec = bash's read: POSIX field splitting where the last name takes the rest
   of the line.  NO PROOFS in this file. *)
From Verif Require Import Base.Str Expand.Fields.
Open Scope N_scope.

Definition BSL : N := 92.  (* backslash *)
Definition NL : N := 10.

(* --- Impl: ReadFields ------------------------------------------------------------- *)
Record rst := mkr {
  fpos : list (nat * nat);   (* (start, end), most recent first *)
  buf : str;
  trim_end : nat;
  infield : bool;
  wsdl : bool;               (* wsDelim *)
  esc : bool }.

Definition r0 : rst := mkr [] [] 0 false false false.

Definition rf_step (ifs : str) (raw : bool) (s : rst) (r : N) : res rst :=
  if (r =? BSL) && negb raw && negb (esc s) then
    Ok (mkr (fpos s) (buf s) (trim_end s) (infield s) (wsdl s) true)
  else
    let sep := negb (esc s) && ifs_rune ifs r in
    let ws := sep && ifs_ws ifs r in
    let pos := length (buf s) in
    let buf' := buf s ++ [r] in
    let trim' := if ifs_ws ifs r then trim_end s else length buf' in
    if negb sep then
      if infield s then Ok (mkr (fpos s) buf' trim' true (wsdl s) false)
      else Ok (mkr ((pos, O) :: fpos s) buf' trim' true (wsdl s) false)      (* pos{start: len(buf)} *)
    else if infield s then
      match fpos s with
      | [] => Panic                                                            (* fpos[len(fpos)-1] *)
      | (st, _) :: t => Ok (mkr ((st, pos) :: t) buf' trim' false ws false)
      end
    else if ws then Ok (mkr (fpos s) buf' trim' false (wsdl s) false)
    else if wsdl s then Ok (mkr (fpos s) buf' trim' false false false)
    else Ok (mkr ((pos, pos) :: fpos s) buf' trim' false (wsdl s) false).

Fixpoint rf_loop (ifs : str) (raw : bool) (line : str) (s : rst) : res rst :=
  match line with
  | [] => Ok s
  | r :: rest => match rf_step ifs raw s r with
                 | Ok s' => rf_loop ifs raw rest s'
                 | Err c => Err c
                 | Panic => Panic
                 end
  end.

(* buf[start:end] *)
Definition slice (b : str) (st e : nat) : res str :=
  if Nat.leb st e && Nat.leb e (length b) then Ok (firstn (e - st) (skipn st b)) else Panic.

Fixpoint slices (b : str) (fp : list (nat * nat)) : res (list str) :=
  match fp with
  | [] => Ok []
  | (st, e) :: rest =>
      match slice b st e with
      | Ok f => match slices b rest with Ok fs => Ok (f :: fs) | Err c => Err c | Panic => Panic end
      | Err c => Err c
      | Panic => Panic
      end
  end.

(* the part after the loop *)
Definition rf_finish (s : rst) (n : Z) : res (list str) :=
  match fpos s with
  | [] => Ok []                                                      (* return nil *)
  | (st, e) :: t =>
      let fp := rev (if infield s then (st, length (buf s)) :: t else (st, e) :: t) in
      if (0 <? n)%Z && (n <? Z.of_nat (length fp))%Z then
        let k := Z.to_nat (n - 1) in
        match nth_error fp k with
        | None => Panic                                              (* fpos[n-1] *)
        | Some (st', _) => slices (buf s) (firstn k fp ++ [(st', Nat.max st' (trim_end s))])
        end
      else slices (buf s) fp
  end.

Definition read_fields (oifs : option str) (line : str) (n : Z) (raw : bool) : res (list str) :=
  match rf_loop (cfg_ifs oifs) raw line r0 with
  | Ok s => rf_finish s n
  | Err c => Err c
  | Panic => Panic
  end.

(* one Config used for several calls (the interpreter's read builtin uses the Runner's):
   prepareConfig overwrites cfg.ifs at the start of every call (Fields.prepare_config) *)
Definition read_fields_on (prev : str) (oifs : option str) (line : str) (n : Z) (raw : bool) : res (list str) :=
  match rf_loop (prepare_config prev oifs) raw line r0 with
  | Ok s => rf_finish s n
  | Err c => Err c
  | Panic => Panic
  end.

Fixpoint read_seq (prev : str) (calls : list (option str * str * Z * bool)) : list (res (list str)) :=
  match calls with
  | [] => []
  | (oifs, line, n, raw) :: rest =>
      read_fields_on prev oifs line n raw :: read_seq (prepare_config prev oifs) rest
  end.

(* --- Impl: readLine and the builtin ----------------------------------------------------- *)
(* returns the line and whether the input ended before a newline (status 1) *)
Fixpoint read_line (raw : bool) (inp : str) (line : str) (es : bool) : res (str * bool) :=
  match inp with
  | [] => Ok (line, true)
  | b :: rest =>
      if negb raw && (b =? BSL) then read_line raw rest (line ++ [b]) (negb es)
      else if negb raw && (b =? NL) && es then
        match line with
        | [] => Panic                                               (* line[:len(line)-1] *)
        | _ :: _ => read_line raw rest (removelast line) false
        end
      else if b =? NL then Ok (line, false)
      else read_line raw rest (line ++ [b]) false
  end.

(* the REPLY path: drop escaping backslashes unless raw *)
Fixpoint reply_loop (v : str) (es : bool) : str :=
  match v with
  | [] => []
  | b :: rest => if (b =? BSL) && negb es then reply_loop rest true else b :: reply_loop rest false
  end.

Inductive target := TReply | TNames (k : nat) | TArray.

Inductive assigned :=
| AScalars (vals : list str)      (* one value per name, in order (REPLY for TReply) *)
| AArray (vals : list str).

Fixpoint pad (k : nat) (vals : list str) : list str :=
  match k with
  | O => []
  | S k' => match vals with [] => [] :: pad k' [] | v :: vs => v :: pad k' vs end
  end.

Definition read_builtin (oifs : option str) (raw : bool) (t : target) (inp : str) : res (assigned * bool) :=
  match read_line raw inp [] false with
  | Ok (line, eof) =>
      match t with
      | TArray => match read_fields oifs line (-1) raw with
                  | Ok vs => Ok (AArray vs, eof) | Err c => Err c | Panic => Panic end
      | TReply => Ok (AScalars [if raw then line else reply_loop line false], eof)
      | TNames k => match read_fields oifs line (Z.of_nat k) raw with
                    | Ok vs => Ok (AScalars (pad k vs), eof) | Err c => Err c | Panic => Panic end
      end
  | Err c => Err c
  | Panic => Panic
  end.

(* --- Spec: bash read ------------------------------------------------------------------------ *)
(* the characters of the line after backslash processing: (character, escaped) *)
Fixpoint unescape (raw : bool) (line : str) (es : bool) : list (N * bool) :=
  match line with
  | [] => []
  | r :: rest =>
      if (r =? BSL) && negb raw && negb es then unescape raw rest true
      else (r, es) :: unescape raw rest false
  end.

Inductive kind := KC | KW | KD.
Definition kind_of (ifs : str) (c : N * bool) : kind :=
  let (r, es) := c in
  if negb es && ifs_rune ifs r then (if ifs_ws ifs r then KW else KD) else KC.

Definition rsym := (N * kind)%type.
Definition rsyms (ifs : str) (raw : bool) (line : str) : list rsym :=
  map (fun c => (fst c, kind_of ifs c)) (unescape raw line false).

(* POSIX fields of the line, each with the rest of the line from the start of the field;
   same three states as Fields.sp_* (an escaped character is never a separator) *)
Fixpoint rs_start (l : list rsym) : list (str * list rsym) :=
  match l with
  | [] => []
  | (r, KC) :: l' => rs_field [r] l l'
  | (_, KW) :: l' => rs_start l'
  | (_, KD) :: l' => ([], l) :: rs_start l'
  end
with rs_field (f : str) (from : list rsym) (l : list rsym) : list (str * list rsym) :=
  match l with
  | [] => [(f, from)]
  | (r, KC) :: l' => rs_field (f ++ [r]) from l'
  | (_, KW) :: l' => (f, from) :: rs_afterws l'
  | (_, KD) :: l' => (f, from) :: rs_start l'
  end
with rs_afterws (l : list rsym) : list (str * list rsym) :=
  match l with
  | [] => []
  | (r, KC) :: l' => rs_field [r] l l'
  | (_, KW) :: l' => rs_afterws l'
  | (_, KD) :: l' => rs_start l'
  end.

(* trailing IFS white space is removed from the rest of the line, escaped or not (as bash does) *)
Definition strip_trailing_ws (ifs : str) (s : str) : str := rev (drop_ws ifs (rev s)).

(* n names (n <= 0: all fields): if there are more fields than names, the last name
   takes the line from the start of its field on, without trailing IFS white space *)
Definition spec_read_fields (oifs : option str) (line : str) (n : Z) (raw : bool) : list str :=
  let ifs := cfg_ifs oifs in
  let fs := rs_start (rsyms ifs raw line) in
  if (0 <? n)%Z && (n <? Z.of_nat (length fs))%Z then
    let k := Z.to_nat (n - 1) in
    map fst (firstn k fs) ++
    match nth_error fs k with
    | Some (_, from) => [strip_trailing_ws ifs (map fst from)]
    | None => []
    end
  else map fst fs.

(* the logical line: up to the first newline that does not follow an unescaped backslash;
   backslash-newline pairs vanish.  (line, eof) *)
Fixpoint spec_line (raw : bool) (inp : str) : str * bool :=
  match inp with
  | [] => ([], true)
  | b :: rest =>
      if b =? NL then ([], false)
      else if negb raw && (b =? BSL) then
        match rest with
        | [] => ([b], true)
        | c :: rest' =>
            if c =? NL then spec_line raw rest'
            else let (l, e) := spec_line raw rest' in (b :: c :: l, e)
        end
      else let (l, e) := spec_line raw rest in (b :: l, e)
  end.

Definition spec_read (oifs : option str) (raw : bool) (t : target) (inp : str) : assigned * bool :=
  let (line, eof) := spec_line raw inp in
  match t with
  | TArray => (AArray (spec_read_fields oifs line (-1) raw), eof)
  | TReply => (AScalars [map fst (unescape raw line false)], eof)
  | TNames k => (AScalars (pad k (spec_read_fields oifs line (Z.of_nat k) raw)), eof)
  end.
