(* Expand/ShellApi.v — model of shell.Expand and shell.Fields (shell/expand.go) on a word
   fragment: Parser.Document / Parser.WordsSeq as a one-pass lexer over characters
   (state machine, no recursion), then expand.Document resp. expand.Fields
   (wordFields' state: current field, allowEmpty, flush) with the environment
   FuncEnviron(env), where an empty value means unset.

   Fragment: literal characters, blanks, single and double quotes, backslash escapes,
   $name, ${name}, a leading ~ or ~/ (HOME).  Everything else ( ; & | < > ( ) ` # { } newline in
   Fields, ${name<op>...}, $(...), $((...)), ~user, $'..', $".." ) is [SOut]: outside the model.
   The lexer is written for this fragment; it is not a transliteration of syntax/parser.go —
   its tie to the code is the code leg.  Strings are lists of code points.
   NO PROOFS in this file. *)
From Verif Require Import Base.Str.
Open Scope N_scope.

Definition in_range (lo hi c : N) : bool := (lo <=? c) && (c <=? hi).
Definition name_start (c : N) : bool := in_range 65 90 c || in_range 97 122 c || (c =? 95).
Definition name_char (c : N) : bool := name_start c || in_range 48 57 c.
Definition is_blank (c : N) : bool := (c =? 32) || (c =? 9).

(* characters that end or structure a command: outside the fragment when unquoted *)
Definition is_syntax_char (c : N) : bool :=
  existsb (N.eqb c) [59; 38; 124; 60; 62; 40; 41; 96; 35; 123; 125; 10; 33; 42; 63; 91; 93; 61].

Inductive item :=
| IChar (c : N)        (* unquoted literal character *)
| IQChar (c : N)       (* quoted or backslash-escaped character *)
| IQMarkS              (* a single-quoted string starts here: a (possibly empty) part is appended *)
| IQMarkD              (* a double-quoted string starts here: likewise *)
| IVar (n : str)       (* unquoted $n / ${n} *)
| IQVar (n : str)      (* $n / ${n} inside double quotes *)
| ITilde               (* an unquoted ~ that expandUser replaces by HOME *)
| ISep.                (* unquoted blanks between words *)

Inductive mode :=
| MStart                (* at the start of a word *)
| MUnq                  (* inside a word, unquoted *)
| MTilde                (* saw ~ at the start of a word *)
| MEscU                 (* saw an unquoted backslash *)
| MSgl
| MDbl
| MEscD                 (* backslash inside double quotes *)
| MDolU | MDolD         (* saw $ *)
| MNameU (acc : str) | MNameD (acc : str)
| MBrU (acc : str) | MBrD (acc : str)     (* inside ${ *)
| MErr | MOut.

(* processing of one character in the unquoted base state (word already started or not) *)
Definition base_unq (start : bool) (c : N) : list item * mode :=
  if is_blank c then ([ISep], MStart)
  else if c =? 39 then ([IQMarkS], MSgl)
  else if c =? 34 then ([IQMarkD], MDbl)
  else if c =? 92 then ([], MEscU)
  else if c =? 36 then ([], MDolU)
  else if (c =? 126) && start then ([], MTilde)
  else if is_syntax_char c then ([], MOut)
  else ([IChar c], MUnq).

Definition base_dbl (c : N) : list item * mode :=
  if c =? 34 then ([], MUnq)
  else if c =? 92 then ([], MEscD)
  else if c =? 36 then ([], MDolD)
  else if c =? 96 then ([], MOut)
  else ([IQChar c], MDbl).

Definition cons_items (pre : list item) (r : list item * mode) : list item * mode :=
  (pre ++ fst r, snd r).

(* one lexer step of WordsSeq on the fragment *)
Definition step (m : mode) (c : N) : list item * mode :=
  match m with
  | MStart => base_unq true c
  | MUnq => base_unq false c
  | MTilde =>
      if c =? 47 then ([ITilde; IChar 47], MUnq)
      else if is_blank c then ([ITilde; ISep], MStart)
      else if (c =? 39) || (c =? 34) || (c =? 36) || (c =? 92) then cons_items [IChar 126] (base_unq false c)
      else ([], MOut)                     (* ~user, ~+ ... *)
  | MEscU => if c =? 10 then ([], MOut) else ([IQChar c], MUnq)
  | MSgl => if c =? 39 then ([], MUnq) else ([IQChar c], MSgl)
  | MDbl => base_dbl c
  | MEscD =>
      if (c =? 36) || (c =? 92) || (c =? 34) || (c =? 96) then ([IQChar c], MDbl)
      else if c =? 10 then ([], MOut)
      else ([IQChar 92; IQChar c], MDbl)
  | MDolU =>
      if name_start c then ([], MNameU [c])
      else if c =? 123 then ([], MBrU [])
      else if in_range 48 57 c || (c =? 40) || (c =? 39) || (c =? 34) || existsb (N.eqb c) [64; 42; 35; 63; 45; 36; 33] then ([], MOut)
      else cons_items [IChar 36] (base_unq false c)
  | MDolD =>
      if name_start c then ([], MNameD [c])
      else if c =? 123 then ([], MBrD [])
      else if in_range 48 57 c || (c =? 40) || existsb (N.eqb c) [64; 42; 35; 63; 45; 36; 33] then ([], MOut)
      else cons_items [IQChar 36] (base_dbl c)
  | MNameU acc => if name_char c then ([], MNameU (acc ++ [c])) else cons_items [IVar acc] (base_unq false c)
  | MNameD acc => if name_char c then ([], MNameD (acc ++ [c])) else cons_items [IQVar acc] (base_dbl c)
  | MBrU acc =>
      if c =? 125 then match acc with [] => ([], MOut) | _ => ([IVar acc], MUnq) end
      else if name_char c && (match acc with [] => name_start c | _ => true end) then ([], MBrU (acc ++ [c]))
      else ([], MOut)
  | MBrD acc =>
      if c =? 125 then match acc with [] => ([], MOut) | _ => ([IQVar acc], MDbl) end
      else if name_char c && (match acc with [] => name_start c | _ => true end) then ([], MBrD (acc ++ [c]))
      else ([], MOut)
  | MErr => ([], MErr)
  | MOut => ([], MOut)
  end.

Fixpoint lex_loop (m : mode) (s : str) : list item * mode :=
  match s with
  | [] => ([], m)
  | c :: r => match m with
              | MOut => ([], MOut)
              | _ => let '(its, m') := step m c in cons_items its (lex_loop m' r)
              end
  end.

Inductive lexres := LOk (its : list item) | LErr | LOut.

(* end of input *)
Definition lex_fields (s : str) : lexres :=
  let '(its, m) := lex_loop MStart s in
  match m with
  | MStart | MUnq => LOk its
  | MTilde => LOk (its ++ [ITilde])
  | MEscU => LOk (its ++ [IChar 92])            (* a trailing backslash is kept *)
  | MDolU => LOk (its ++ [IChar 36])
  | MNameU acc => LOk (its ++ [IVar acc])
  | MSgl | MDbl | MEscD | MDolD | MNameD _ | MBrU _ | MBrD _ => LErr   (* unclosed quote or ${ *)
  | MErr => LErr
  | MOut => LOut
  end.

(* ------------------------------------------------------------------ expansion into fields *)

Section Env.
  Variable env : str -> str.           (* the caller's function; "" = unset *)

  Definition HOME : str := [72; 79; 77; 69].
  Definition default_ifs : str := [32; 9; 10].
  Definition is_ifs (c : N) : bool := existsb (N.eqb c) default_ifs.

  (* wordFields' state: finished fields (reversed), current field (None = no parts yet) *)
  Definition fstate := (list str * option str)%type.
  Definition f_done (st : fstate) : list str := fst st.
  Definition f_cur (st : fstate) : option str := snd st.

  Definition add_cur (st : fstate) (s : str) : fstate :=
    (fst st, Some (match snd st with Some c => c ++ s | None => s end)).

  Definition flush (st : fstate) : fstate :=
    match snd st with
    | Some c => (c :: fst st, None)
    | None => st
    end.

  (* splitAdd: [pend] = the piece of the value collected since the last IFS character *)
  Fixpoint split_add (st : fstate) (v : str) (pend : option str) : fstate :=
    match v with
    | [] => match pend with Some p => add_cur st (rev p) | None => st end
    | c :: r =>
        if is_ifs c then
          let st1 := match pend with Some p => add_cur st (rev p) | None => st end in
          split_add (flush st1) r None
        else split_add st r (Some (c :: match pend with Some p => p | None => [] end))
    end.

  Definition home_set : bool := match env HOME with [] => false | _ => true end.

  Definition item_step (st : fstate) (it : item) : fstate :=
    match it with
    | IChar c | IQChar c => add_cur st [c]
    | IQMarkS | IQMarkD => add_cur st []     (* a quoted string is part of a field even when empty *)
    | IVar n => split_add st (env n) None
    | IQVar n => add_cur st (env n)
    | ITilde => add_cur st (if home_set then env HOME else [126])
    | ISep => st
    end.

  (* one word: its fields in order *)
  Definition word_fields (w : list item) : list str :=
    rev (f_done (flush (fold_left item_step w ([], None)))).

  Fixpoint split_words (its : list item) (cur : list item) : list (list item) :=
    match its with
    | [] => [rev cur]
    | ISep :: r => rev cur :: split_words r []
    | i :: r => split_words r (i :: cur)
    end.

  Inductive sres := SOk (l : list str) | SErr | SOut.

  (* shell.Fields(s, env) *)
  Definition shell_fields (s : str) : sres :=
    match lex_fields s with
    | LOk its => SOk (flat_map word_fields (split_words its []))
    | LErr => SErr
    | LOut => SOut
    end.

  (* ---------------------------------------------------------------- shell.Expand: here-document text *)

  Inductive dmode := DText | DEsc | DDol | DName (acc : str) | DBr (acc : str) | DOut.

  Definition dbase (c : N) : str * dmode :=
    if c =? 92 then ([], DEsc)
    else if c =? 36 then ([], DDol)
    else if c =? 96 then ([], DOut)
    else ([c], DText).

  Definition dcons (pre : str) (r : str * dmode) : str * dmode := (pre ++ fst r, snd r).

  Definition dstep (m : dmode) (c : N) : str * dmode :=
    match m with
    | DText => dbase c
    | DEsc => if (c =? 36) || (c =? 92) || (c =? 96) then ([c], DText)
              else if c =? 10 then ([], DOut)
              else ([92; c], DText)
    | DDol =>
        if name_start c then ([], DName [c])
        else if c =? 123 then ([], DBr [])
        else if in_range 48 57 c || (c =? 40) || existsb (N.eqb c) [64; 42; 35; 63; 45; 36; 33; 39; 34] then ([], DOut)
        else dcons [36] (dbase c)
    | DName acc => if name_char c then ([], DName (acc ++ [c])) else dcons (env acc) (dbase c)
    | DBr acc =>
        if c =? 125 then match acc with [] => ([], DOut) | _ => (env acc, DText) end
        else if name_char c && (match acc with [] => name_start c | _ => true end) then ([], DBr (acc ++ [c]))
        else ([], DOut)
    | DOut => ([], DOut)
    end.

  Fixpoint doc_loop (m : dmode) (s : str) : str * dmode :=
    match s with
    | [] => ([], m)
    | c :: r => match m with
                | DOut => ([], DOut)
                | _ => let '(o, m') := dstep m c in dcons o (doc_loop m' r)
                end
    end.

  Inductive eres := EOk (s : str) | EErr | EOut.

  (* shell.Expand(s, env) *)
  Definition shell_expand (s : str) : eres :=
    let '(o, m) := doc_loop DText s in
    match m with
    | DText => EOk o
    | DEsc => EOk (o ++ [92])
    | DDol => EOk (o ++ [36])
    | DName acc => EOk (o ++ env acc)
    | DBr _ => EErr
    | DOut => EOut
    end.
End Env.
