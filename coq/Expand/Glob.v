(* Expand/Glob.v — model of pathname expansion in expand/expand.go: Config.glob,
   Config.globDir, and the part of FieldsSeq that decides whether a word globs
   (escapedGlobField on an unquoted literal word, nullglob, ReadDir2 == nil).

   * The file system is a flat finite map from absolute paths (lists of names) to
     file | dir | symlink target (an absolute path), equivalent to a tree
     (file | dir entries | symlink target).  ReadDir2 is a function of it: [read_dir]
     resolves symlinks in every component, returns the entries sorted by name with
     their own (unresolved) type, NotExist or NotDir.
   * Words: relative, made of `/`-separated components over * ? literal characters
     (no backslash, no brackets, no extglob, no `..`); base directory PWD = "/".
     Strings are lists of code points; names are ASCII or sort the same bytewise.
   * The component matcher is pattern.Regexp in mode Filenames|EntireString|NoGlobStar
     [|GlobLeadingDot] on this fragment, interpreted by the backtracking matcher of
     Expand/Param.v; nocaseglob and extglob are outside the model.
   NO PROOFS in this file. *)
From Verif Require Import Base.Str Expand.Param.
Open Scope N_scope.

Inductive kind := KFile | KDir | KLink (target : list str).
Definition fsys := list (list str * kind).

Definition SLASH : N := 47.
Definition DOT : N := 46.

Fixpoint path_eqb (a b : list str) : bool :=
  match a, b with
  | [], [] => true
  | x :: a', y :: b' => str_eqb x y && path_eqb a' b'
  | _, _ => false
  end.

Fixpoint fs_kind (fs : fsys) (p : list str) : option kind :=
  match p with
  | [] => Some KDir
  | _ => match fs with
         | [] => None
         | (q, k) :: r => if path_eqb q p then Some k else fs_kind r p
         end
  end.

Inductive rd_err := NotExist | NotDir.

(* follow symlinks in every component; "" and "." components are skipped (filepath.Join cleans) *)
Fixpoint resolve (fuel : nat) (fs : fsys) : list str -> list str -> rd_err + list str :=
  fix go (cur comps : list str) {struct comps} : rd_err + list str :=
    match comps with
    | [] => inr cur
    | c :: rest =>
        if str_eqb c [] || str_eqb c [DOT] then go cur rest
        else match fs_kind fs cur with
             | Some KDir =>
                 match fs_kind fs (cur ++ [c]) with
                 | None => inl NotExist
                 | Some (KLink t) =>
                     match fuel with
                     | O => inl NotExist
                     | S f => match resolve f fs [] t with
                              | inr p => go p rest
                              | inl e => inl e
                              end
                     end
                 | Some _ => go (cur ++ [c]) rest
                 end
             | _ => inl NotDir
             end
    end.

Fixpoint ins_ent (x : str * kind) (l : list (str * kind)) : list (str * kind) :=
  match l with
  | [] => [x]
  | y :: r => match cmp_str (fst x) (fst y) with Gt => y :: ins_ent x r | _ => x :: l end
  end.

Fixpoint is_prefix_path (p q : list str) : option str :=   (* q = p ++ [name] *)
  match p, q with
  | [], [n] => Some n
  | x :: p', y :: q' => if str_eqb x y then is_prefix_path p' q' else None
  | _, _ => None
  end.

Definition entries_of (fs : fsys) (p : list str) : list (str * kind) :=
  fold_right (fun e acc => match is_prefix_path p (fst e) with
                           | Some n => ins_ent (n, snd e) acc
                           | None => acc
                           end) [] fs.

(* strings.Split(path, "/") *)
Fixpoint split_slash (s : str) (cur : str) : list str :=
  match s with
  | [] => [rev cur]
  | c :: r => if c =? SLASH then rev cur :: split_slash r [] else split_slash r (c :: cur)
  end.

(* Config.ReadDir2 on the path filepath.Join("/", dir) *)
Definition read_dir (fs : fsys) (dir : str) : rd_err + list (str * kind) :=
  match resolve 8 fs [] (split_slash dir []) with
  | inl e => inl e
  | inr p => match fs_kind fs p with
             | Some KDir => inr (entries_of fs p)
             | _ => inl NotDir
             end
  end.

(* pathJoin2 *)
Definition path_join2 (a b : str) : str :=
  match a with
  | [] => b
  | _ => if (last a 0) =? SLASH then a ++ b else a ++ [SLASH] ++ b
  end.

(* pattern.HasMeta on the fragment *)
Definition has_meta (s : str) : bool := existsb (fun c => (c =? 42) || (c =? 63)) s.

(* the component matcher: "^" ++ translation ++ "$"; a `*` at the very start of the
   component is "(one non-dot non-slash character, then non-slash characters) or nothing"
   unless dotglob; two stars inside a component (NoGlobStar) are one star whose
   leading-ness was decided at the first star *)
Inductive gtok := GLit (c : N) | GAny | GStar | GStarNoDot.

Fixpoint comp_toks (first : bool) (dotglob : bool) (s : str) : list gtok :=
  match s with
  | [] => []
  | c :: r =>
      if c =? 42 then
        let t := if first && negb dotglob then GStarNoDot else GStar in
        match r with
        | d :: r' => if d =? 42 then t :: comp_toks false dotglob r' else t :: comp_toks false dotglob r
        | [] => [t]
        end
      else if c =? 63 then GAny :: comp_toks false dotglob r
      else GLit c :: comp_toks false dotglob r
  end.

Fixpoint any_suffix (f : str -> bool) (s : str) : bool :=
  f s || match s with [] => false | _ :: s' => any_suffix f s' end.

(* whole-string backtracking match (a boolean regexp match has no priorities to model) *)
Fixpoint gmatch (p : list gtok) (s : str) : bool :=
  match p with
  | [] => match s with [] => true | _ => false end
  | GLit c :: r => match s with d :: s' => (d =? c) && gmatch r s' | [] => false end
  | GAny :: r => match s with _ :: s' => gmatch r s' | [] => false end
  | GStar :: r => any_suffix (gmatch r) s
  | GStarNoDot :: r =>
      gmatch r s ||
      match s with
      | d :: s' => negb (d =? DOT) && any_suffix (gmatch r) s'
      | [] => false
      end
  end.

Definition starts_with_dot (s : str) : bool := match s with c :: _ => c =? DOT | [] => false end.

(* the matcher glob() builds for a component, including the explicit-leading-dot rule *)
Definition comp_matcher (dotglob : bool) (part : str) (name : str) : bool :=
  (dotglob || starts_with_dot part || negb (starts_with_dot name))
  && gmatch (comp_toks true dotglob part) name.

(* rxGlobStar / rxGlobStarDotGlob on names (names contain no slash) *)
Definition star_matcher (dotglob : bool) (name : str) : bool :=
  dotglob || match name with [] => false | c :: _ => negb (c =? DOT) end.

Inductive gres := GOk (l : list str) | GErr | GPanic | GOutOfFuel.

(* Config.globDir: Some (new matches, the symlinks among them) or None on a ReadDir2 error *)
Definition glob_dir (fs : fsys) (dir : str) (matcher : str -> bool) (want_dir : bool)
  : option (list str * list str) :=
  match read_dir fs dir with
  | inl _ => None
  | inr ents =>
      let keep := fun e : str * kind =>
        (if want_dir then
           match snd e with
           | KLink _ => match read_dir fs (path_join2 dir (fst e)) with inr _ => true | inl _ => false end
           | KDir => true
           | KFile => false
           end
         else true) && matcher (fst e) in
      let ms := filter keep ents in
      Some (map (fun e => path_join2 dir (fst e)) ms,
            map (fun e => path_join2 dir (fst e))
                (filter (fun e => match snd e with KLink _ => true | _ => false end) ms))
  end.

Definition in_strs (x : str) (l : list str) : bool := existsb (str_eqb x) l.

(* the "**" depth-first loop; stack head = next to pop *)
Fixpoint globstar_loop (fuel : nat) (fs : fsys) (dotglob want_dir look_inside : bool)
         (stack : list str) (links : list str) (acc : list str) : option (list str) :=
  match fuel with
  | O => None
  | S f =>
      match stack with
      | [] => Some acc
      | dir :: st =>
          if in_strs dir links then
            globstar_loop f fs dotglob want_dir look_inside st links
                          (if look_inside then acc else acc ++ [dir])
          else
            match glob_dir fs dir (star_matcher dotglob) want_dir with
            | None => globstar_loop f fs dotglob want_dir look_inside st links (acc ++ [dir])
            | Some (new, nl) =>
                globstar_loop f fs dotglob want_dir look_inside (new ++ st) (nl ++ links) (acc ++ [dir])
            end
      end
  end.

Definition is_special_part (p : str) : bool :=
  str_eqb p [] || str_eqb p [DOT] || str_eqb p [DOT; DOT].

Record gopts := mkO { o_dot : bool; o_null : bool; o_star : bool; o_noglob : bool }.

(* "for _, dir := range matches { newMatches, err = cfg.globDir(...) ; if err != nil { return nil, err } }" *)
Fixpoint glob_dirs (fs : fsys) (matcher : str -> bool) (want_dir : bool) (ds : list str) : option (list str) :=
  match ds with
  | [] => Some []
  | d :: ds' =>
      match glob_dir fs d matcher want_dir, glob_dirs fs matcher want_dir ds' with
      | Some (new, _), Some more => Some (new ++ more)
      | _, _ => None
      end
  end.

(* the component loop of Config.glob *)
Fixpoint glob_parts (fuel : nat) (fs : fsys) (o : gopts) (parts : list str) (matches : list str) : gres :=
  match parts with
  | [] => GOk matches
  | part :: rest =>
      let want_dir := match rest with [] => false | _ => true end in
      if is_special_part part then
        glob_parts fuel fs o rest (map (fun d => path_join2 d part) matches)
      else if negb (has_meta part) then
        glob_parts fuel fs o rest
          (flat_map (fun d =>
                       match read_dir fs (path_join2 d part) with
                       | inl NotExist => []
                       | inl NotDir => if want_dir then [] else [path_join2 d part]
                       | inr _ => [path_join2 d part]
                       end) matches)
      else if str_eqb part [42; 42] && o_star o then
        let look_inside := existsb (fun p => negb (str_eqb p [])) rest in
        match globstar_loop fuel fs (o_dot o) want_dir look_inside
                            (map (fun m => path_join2 m []) matches) [] [] with
        | None => GOutOfFuel
        | Some ms => glob_parts fuel fs o rest ms
        end
      else
        match glob_dirs fs (comp_matcher (o_dot o) part) want_dir matches with
        | None => GErr
        | Some ms => glob_parts fuel fs o rest ms
        end
  end.

Definition sort_paths (l : list str) : list str := sort_strs l.

(* Config.glob("/", pat) for a relative pat *)
Definition glob (fs : fsys) (o : gopts) (pat : str) : gres :=
  match glob_parts 4096 fs o (split_slash pat []) [[]] with
  | GOk ms => GOk (match sort_paths ms with [] :: r => r | l => l end)
  | r => r
  end.

(* expand.Fields on an unquoted literal word of the fragment *)
Definition glob_word (fs : fsys) (o : gopts) (w : str) : gres :=
  if has_meta w && negb (o_noglob o) then
    match glob fs o w with
    | GOk ms => match ms with
                | [] => if o_null o then GOk [] else GOk [w]
                | _ => GOk ms
                end
    | r => r
    end
  else GOk [w].
