(* Interp/Flags.v — Impl: the flag machine of interp/runner.go on the core language
   of Interp/Core.v, transliterated from the code at /repo HEAD (which includes the
   fix: commits recorded for C26 in known_findings.jsonl):

     Runner.stop, Runner.stmt, Runner.stmtSync, Runner.cmd (Block, Subshell, CallExpr,
     BinaryCmd &&/||, IfClause, WhileClause, ForClause/WordIter, CaseClause, FuncDecl),
     Runner.stmts, Runner.loopStmtsBroken, Runner.call, Runner.subshell, and of
     interp/builtin.go: echo, true, false, ":", break, continue, return, exit, set -e/+e.

   Control flow is NOT structured here: it is the Go flags (exit.returning,
   exit.exiting, breakEnclosing, contnEnclosing, inLoop, inFunc, noErrExit, lastExit)
   tested by stop() at every statement, command, loop head and call.

   The context passed to Run is an oracle [ctx]: None = never cancelled;
   Some k = the (k+1)-th call of stop() from now on is the first to see ctx.Err() != nil
   (and every later one does). [late] counts the calls of stop() that happen once the
   context is cancelled (C31).

   [stuck] is a model artefact: out of fuel, or the program left the modelled fragment
   (a builtin or option that is not modelled). Every theorem excludes it.
   NO PROOFS in this file. *)
From Verif Require Import Base.Str Interp.Core.
Open Scope N_scope.

Record exitT := mkExit { code : N; returning : bool; exiting : bool; fatalExit : bool }.
Definition exit0 : exitT := mkExit 0 false false false.
Definition exit_code (c : N) : exitT := mkExit c false false false.

Record st := mkSt {
  vars : list (str * str);      (* scalar variables (global scope) *)
  funcs : list (str * stmt);    (* r.Funcs *)
  out : str;                    (* bytes written to stdout so far *)
  ex : exitT;                   (* r.exit *)
  lastEx : exitT;               (* r.lastExit *)
  brk : Z;                      (* r.breakEnclosing *)
  cnt : Z;                      (* r.contnEnclosing *)
  inLoop : bool;
  inFunc : bool;
  noErrExit : bool;
  errexit : bool;               (* r.opts[optErrExit] *)
  pipefail : bool;              (* r.opts[optPipeFail] *)
  ctx : option nat;
  late : nat;
  stuck : bool }.

Definition set_vars v s := mkSt v (funcs s) (out s) (ex s) (lastEx s) (brk s) (cnt s) (inLoop s) (inFunc s) (noErrExit s) (errexit s) (pipefail s) (ctx s) (late s) (stuck s).
Definition set_funcs v s := mkSt (vars s) v (out s) (ex s) (lastEx s) (brk s) (cnt s) (inLoop s) (inFunc s) (noErrExit s) (errexit s) (pipefail s) (ctx s) (late s) (stuck s).
Definition set_out v s := mkSt (vars s) (funcs s) v (ex s) (lastEx s) (brk s) (cnt s) (inLoop s) (inFunc s) (noErrExit s) (errexit s) (pipefail s) (ctx s) (late s) (stuck s).
Definition set_ex v s := mkSt (vars s) (funcs s) (out s) v (lastEx s) (brk s) (cnt s) (inLoop s) (inFunc s) (noErrExit s) (errexit s) (pipefail s) (ctx s) (late s) (stuck s).
Definition set_lastEx v s := mkSt (vars s) (funcs s) (out s) (ex s) v (brk s) (cnt s) (inLoop s) (inFunc s) (noErrExit s) (errexit s) (pipefail s) (ctx s) (late s) (stuck s).
Definition set_brk v s := mkSt (vars s) (funcs s) (out s) (ex s) (lastEx s) v (cnt s) (inLoop s) (inFunc s) (noErrExit s) (errexit s) (pipefail s) (ctx s) (late s) (stuck s).
Definition set_cnt v s := mkSt (vars s) (funcs s) (out s) (ex s) (lastEx s) (brk s) v (inLoop s) (inFunc s) (noErrExit s) (errexit s) (pipefail s) (ctx s) (late s) (stuck s).
Definition set_inLoop v s := mkSt (vars s) (funcs s) (out s) (ex s) (lastEx s) (brk s) (cnt s) v (inFunc s) (noErrExit s) (errexit s) (pipefail s) (ctx s) (late s) (stuck s).
Definition set_inFunc v s := mkSt (vars s) (funcs s) (out s) (ex s) (lastEx s) (brk s) (cnt s) (inLoop s) v (noErrExit s) (errexit s) (pipefail s) (ctx s) (late s) (stuck s).
Definition set_noErrExit v s := mkSt (vars s) (funcs s) (out s) (ex s) (lastEx s) (brk s) (cnt s) (inLoop s) (inFunc s) v (errexit s) (pipefail s) (ctx s) (late s) (stuck s).
Definition set_errexit v s := mkSt (vars s) (funcs s) (out s) (ex s) (lastEx s) (brk s) (cnt s) (inLoop s) (inFunc s) (noErrExit s) v (pipefail s) (ctx s) (late s) (stuck s).
Definition set_pipefail v s := mkSt (vars s) (funcs s) (out s) (ex s) (lastEx s) (brk s) (cnt s) (inLoop s) (inFunc s) (noErrExit s) (errexit s) v (ctx s) (late s) (stuck s).
Definition set_ctx v s := mkSt (vars s) (funcs s) (out s) (ex s) (lastEx s) (brk s) (cnt s) (inLoop s) (inFunc s) (noErrExit s) (errexit s) (pipefail s) v (late s) (stuck s).
Definition set_late v s := mkSt (vars s) (funcs s) (out s) (ex s) (lastEx s) (brk s) (cnt s) (inLoop s) (inFunc s) (noErrExit s) (errexit s) (pipefail s) (ctx s) v (stuck s).
Definition set_stuck v s := mkSt (vars s) (funcs s) (out s) (ex s) (lastEx s) (brk s) (cnt s) (inLoop s) (inFunc s) (noErrExit s) (errexit s) (pipefail s) (ctx s) (late s) v.

Definition set_code (c : N) (s : st) : st :=
  set_ex (mkExit c (returning (ex s)) (exiting (ex s)) (fatalExit (ex s))) s.
Definition ok (s : st) : bool := code (ex s) =? 0.

(* exitStatus.clear *)
Definition exit_clear (e : exitT) : exitT :=
  if returning e || exiting e || fatalExit e then e else mkExit 0 false false false.
(* exitStatus.fatal(err) with err != nil *)
Definition exit_fatal (e : exitT) : exitT :=
  if fatalExit e then e else mkExit (if code e =? 0 then 1 else code e) (returning e) true true.

(* one observation of the context *)
Definition tick (s : st) : st :=
  match ctx s with Some O => set_late (S (late s)) s | _ => s end.

(* Runner.stop (handlingTrap = false: no traps in the core language; optNoExec off) *)
Definition stop (s : st) : bool * st :=
  let s := tick s in
  if stuck s then (true, s)
  else if returning (ex s) || exiting (ex s) then (true, s)
  else if (0 <? brk s)%Z || (0 <? cnt s)%Z then (true, s)
  else match ctx s with
       | None => (false, s)
       | Some O => (true, set_ex (exit_fatal (ex s)) s)
       | Some (S k) => (false, set_ctx (Some k) s)
       end.

(* Runner.subshell(false) as far as the core language can observe it: variables and
   functions are copied, stdout and the context are shared, the loop/function flags
   and the counters start from zero, exit/lastExit/noErrExit/opts are copied. *)
Definition subshell (s : st) : st :=
  mkSt (vars s) (funcs s) (out s) (ex s) (lastEx s) 0%Z 0%Z false false (noErrExit s) (errexit s) (pipefail s) (ctx s) (late s) (stuck s).
(* r2.exit.exiting = false; r.exit = r2.exit  (plus what is shared) *)
Definition subshell_join (s s2 : st) : st :=
  mkSt (vars s) (funcs s) (out s2)
       (mkExit (code (ex s2)) (returning (ex s2)) false (fatalExit (ex s2)))
       (lastEx s) (brk s) (cnt s) (inLoop s) (inFunc s) (noErrExit s) (errexit s) (pipefail s) (ctx s2) (late s2) (stuck s2).

(* ---- builtins (interp/builtin.go); [r.exit = r.builtin(...)], exit starts as exitStatus{} ---- *)
Definition builtin_loopctl (is_cont : bool) (args : list str) (s : st) : st :=
  if negb (inLoop s) then set_ex exit0 s                       (* failf(0, "... only useful in a loop") *)
  else
    let set_enclosing n s := if is_cont then set_cnt n s else set_brk n s in
    match args with
    | [] => set_ex exit0 (set_enclosing 1%Z s)
    | [a] =>
        match atoi a with
        | Some n => if (n <? 1)%Z then set_ex (exit_code 1) (set_brk max_int64 s)
                    else set_ex exit0 (set_enclosing n s)
        | None => set_ex (exit_code 2) s
        end
    | _ => set_ex (exit_code 2) s
    end.

Definition builtin_return (args : list str) (s : st) : st :=
  if negb (inFunc s) then set_ex (exit_code 1) s               (* inSource = false *)
  else match args with
       | [] => set_ex (mkExit (code (lastEx s)) true false false) s
       | [a] => match atoi a with
                | Some n => set_ex (mkExit (to_uint8 n) true false false) s
                | None => set_ex (exit_code 2) s
                end
       | _ => set_ex (exit_code 2) s
       end.

Definition builtin_exit (args : list str) (s : st) : st :=
  match args with
  | [] => set_ex (mkExit (code (lastEx s)) (returning (lastEx s)) true (fatalExit (lastEx s))) s
  | [a] => match atoi a with
           | Some n => set_ex (mkExit (to_uint8 n) false true false) s
           | None => set_ex (exit_code 2) s
           end
  | _ => set_ex (exit_code 1) s
  end.

Definition builtin (name : str) (args : list str) (s : st) : st :=
  if str_eqb name n_colon || str_eqb name n_true then set_ex exit0 s
  else if str_eqb name n_false then set_ex (exit_code 1) s
  else if str_eqb name n_echo then
    match args with
    | a :: _ => if is_echo_opt a then set_stuck true s
                else set_ex exit0 (set_out (out s ++ echo_bytes args) s)
    | [] => set_ex exit0 (set_out (out s ++ echo_bytes args) s)
    end
  else if str_eqb name n_break then builtin_loopctl false args s
  else if str_eqb name n_continue then builtin_loopctl true args s
  else if str_eqb name n_return then builtin_return args s
  else if str_eqb name n_exit then builtin_exit args s
  else if str_eqb name n_set then
    match args with
    | [a] => if str_eqb a n_me then set_ex exit0 (set_errexit true s)
             else if str_eqb a n_pe then set_ex exit0 (set_errexit false s)
             else set_stuck true s
    | [a; b] => if str_eqb b n_pipefail then
                  if str_eqb a n_mo then set_ex exit0 (set_pipefail true s)
                  else if str_eqb a n_po then set_ex exit0 (set_pipefail false s)
                  else set_stuck true s
                else set_stuck true s
    | _ => set_stuck true s
    end
  else if is_other_builtin name then set_stuck true s
  else (* Runner.exec: the harness' exec handler refuses with ExitStatus(127) *)
    set_ex (exit_code 127) s.

Section Inner.
(* [cmdf] is Runner.cmd with one unit of fuel less *)
Variable cmdf : cmd -> st -> st.

(* stmtSync, second half: negation, errexit (after r.cmd has run) *)
Definition sync_post (neg : bool) (c : cmd) (s1 : st) : st :=
  if neg then
    if returning (ex s1) || exiting (ex s1) then s1
    else if ok s1 then set_code 1 s1
    else set_ex (exit_clear (ex s1)) s1
  else if is_andor c then s1
  else if is_compound c then s1
  else if negb (ok s1) && negb (noErrExit s1) then
    (* trapCallback(callbackErr): no traps in the core language *)
    if errexit s1 then set_ex (mkExit (code (ex s1)) (returning (ex s1)) true (fatalExit (ex s1))) s1 else s1
  else s1.

(* stmtSync, first half: r.cmd, under noErrExit for a negated statement *)
Definition sync_run (neg : bool) (c : cmd) (s : st) : st :=
  if ok s then
    if neg then
      let old := noErrExit s in
      set_noErrExit old (cmdf c (set_noErrExit true s))
    else cmdf c s
  else s.

Definition stmt_sync (neg : bool) (c : cmd) (s : st) : st :=
  sync_post neg c (sync_run neg c s).

Definition rstmt (t : stmt) (s : st) : st :=
  let '(Stmt neg c) := t in
  let '(b, s) := stop s in
  if b then s else
  let s := set_ex exit0 s in
  let s := stmt_sync neg c s in
  set_lastEx (ex s) s.

Fixpoint rstmts (l : list stmt) (s : st) : st :=
  match l with
  | [] => s
  | t :: l' => rstmts l' (rstmt t s)
  end.

(* the statement loop of loopStmtsBroken; [old] = oldInLoop *)
Fixpoint loop_body (old : bool) (l : list stmt) (s : st) : st * bool :=
  match l with
  | [] => (s, false)
  | t :: l' =>
      let s := rstmt t s in
      if (0 <? cnt s)%Z then
        let s := set_cnt (cnt s - 1)%Z s in
        let s := if negb old then set_cnt 0%Z s else s in
        (s, (0 <? cnt s)%Z)
      else if (0 <? brk s)%Z then
        let s := set_brk (brk s - 1)%Z s in
        let s := if negb old then set_brk 0%Z s else s in
        (s, true)
      else loop_body old l' s
  end.

Definition loop_broken (l : list stmt) (s : st) : st * bool :=
  let old := inLoop s in
  let '(s, b) := loop_body old l (set_inLoop true s) in
  (set_inLoop old s, b).

(* case WhileClause; [n] bounds the number of iterations; [bodyCode] is the Go local *)
Fixpoint while_loop (n : nat) (u : bool) (c b : list stmt) (bodyCode : N) (s : st) : st :=
  let '(stp, s) := stop s in
  if stp then s else
  match n with
  | O => set_stuck true s
  | S n' =>
      let old := noErrExit s in
      let s := rstmts c (set_noErrExit true s) in
      let s := set_noErrExit old s in
      let stopb := Bool.eqb (ok s) u in
      let s := set_ex (exit_clear (ex s)) s in
      if stopb then
        (if negb (returning (ex s)) && negb (exiting (ex s)) && negb (fatalExit (ex s)) then set_code bodyCode s else s)
      else
        let '(s, broken) := loop_broken b s in
        let bodyCode := code (ex s) in
        if broken then s else while_loop n' u c b bodyCode s
  end.

(* case ForClause / WordIter, after the items have been expanded *)
Fixpoint for_loop (x : str) (items : list str) (b : list stmt) (s : st) : st :=
  match items with
  | [] => s
  | f :: items' =>
      let '(stp, s) := stop s in
      if stp then s else
      let s := set_vars (update x f (vars s)) s in
      let '(s, broken) := loop_broken b s in
      if broken then s else for_loop x items' b s
  end.

(* a pattern with a command substitution is outside the model *)
Definition pat_match (s : st) (subject : str) (p : pat) : bool :=
  match p with
  | PAny => true
  | PWord w => str_eqb (expand_pure (vars s) (code (lastEx s)) w) subject
  end.

Fixpoint case_items (subject : str) (items : list (list pat * list stmt)) (s : st) : st :=
  match items with
  | [] => s
  | (pats, body) :: rest =>
      if existsb pat_has_subst pats then set_stuck true s
      else if existsb (pat_match s subject) pats then rstmts body s
      else case_items subject rest s
  end.

(* Runner.call *)
Definition call (fields : list str) (s : st) : st :=
  let '(b, s) := stop s in
  if b then s else
  match fields with
  | [] => s
  | name :: args =>
      match lookup name (funcs s) with
      | Some body =>
          let oldInFunc := inFunc s in
          let oldInLoop := inLoop s in
          let s := set_inLoop false (set_inFunc true s) in
          let s := rstmt body s in
          let s := set_inLoop oldInLoop (set_inFunc oldInFunc s) in
          set_ex (mkExit (code (ex s)) false (exiting (ex s)) (fatalExit (ex s))) s
      | None => builtin name args s
      end
  end.

(* The CmdSubst callback of fillExpandConfig + expand.Config.cmdSubst: the list runs in
   r.subshell(false) with its stdout captured; r.lastExpandExit = r2.exit (exiting = false).
   [le] is r.lastExpandExit.  A fatal error inside (cancelled context) is outside the model. *)
Definition cmdsubst (l : list stmt) (s : st) (le : exitT) : str * st * exitT :=
  match l with
  | [] => ([], s, le)
  | _ =>
      let s2 := rstmts l (set_out [] (subshell s)) in
      let s' := set_stuck (stuck s2 || fatalExit (ex s2)) (set_late (late s2) (set_ctx (ctx s2) s)) in
      (subst_output (out s2), s',
       mkExit (code (ex s2)) (returning (ex s2)) false (fatalExit (ex s2)))
  end.

(* expand.Literal / one field of expand.Fields for a word whose expansions are all quoted *)
Fixpoint expand_word (w : word) (s : st) (le : exitT) : str * st * exitT :=
  match w with
  | [] => ([], s, le)
  | p :: w' =>
      let '(a, s1, le1) :=
        match p with
        | WSubst l => cmdsubst l s le
        | _ => (match part_pure (vars s) (code (lastEx s)) p with Some a => a | None => [] end, s, le)
        end in
      let '(b, s2, le2) := expand_word w' s1 le1 in
      (a ++ b, s2, le2)
  end.

Fixpoint expand_words (ws : list word) (s : st) (le : exitT) : list str * st * exitT :=
  match ws with
  | [] => ([], s, le)
  | w :: ws' =>
      let '(a, s1, le1) := expand_word w s le in
      let '(l, s2, le2) := expand_words ws' s1 le1 in
      (a :: l, s2, le2)
  end.

(* Runner.cmd, given the fuel for while loops *)
Definition cmd_step (fuel : nat) (c : cmd) (s : st) : st :=
  let '(b, s) := stop s in
  if b then s else
  match c with
  | CAssign x w =>
      let '(v, s, le) := expand_word w s exit0 in  (* r.lastExpandExit = exitStatus{} *)
      let s := set_vars (update x v (vars s)) s in
      if ok s then set_ex le s else s              (* r.exit = r.lastExpandExit *)
  | CCall w ws =>
      let '(fields, s, _) := expand_words (w :: ws) s exit0 in
      call fields s
  | CBlock l => rstmts l s
  | CSub l => subshell_join s (rstmts l (subshell s))
  | CAnd x y =>
      let old := noErrExit s in
      let s := set_noErrExit old (rstmt x (set_noErrExit true s)) in
      if ok s then rstmt y s else s
  | COr x y =>
      let old := noErrExit s in
      let s := set_noErrExit old (rstmt x (set_noErrExit true s)) in
      if negb (ok s) then rstmt y s else s
  | CIf c t e =>
      let old := noErrExit s in
      let s := set_noErrExit old (rstmts c (set_noErrExit true s)) in
      if ok s then rstmts t s
      else
        let s := set_ex (exit_clear (ex s)) s in
        match e with
        | Some e' => cmdf e' s
        | None => s
        end
  | CWhile u c b => while_loop fuel u c b 0 s
  | CFor x items b =>
      let '(fields, s, _) := expand_words items s exit0 in
      for_loop x fields b s
  | CCase w items =>
      let '(subject, s, _) := expand_word w s exit0 in
      case_items subject items s
  | CPipe x y =>
      (* case syntax.Pipe: X runs in r.subshell(true) writing into a pipe that no core builtin
         reads, concurrently with Y, which runs IN THIS SHELL; the two only share the context,
         so with a live context the interleaving does not matter.  A context that can be
         cancelled makes the interleaving observable: outside the model. *)
      match ctx s with
      | Some _ => set_stuck true s
      | None =>
          let s2 := rstmt x (set_out [] (subshell s)) in
          let s := set_stuck (stuck s || stuck s2) s in
          let s := rstmt y s in
          if pipefail s && negb (code (ex s2) =? 0) && ok s
          then set_ex (mkExit (code (ex s2)) (returning (ex s2)) false (fatalExit (ex s2))) s
          else s
      end
  | CFunc name body => set_funcs (update name body (funcs s)) s
  end.
End Inner.

(* out of fuel at the head of Runner.cmd (after its stop() test) *)
Definition cmd_nofuel (s : st) : st :=
  let '(b, s) := stop s in
  if b then s else set_stuck true s.

Fixpoint run (fuel : nat) (c : cmd) (s : st) {struct fuel} : st :=
  match fuel with
  | O => cmd_nofuel s
  | S fuel' => cmd_step (run fuel') fuel' c s
  end.

(* Runner.Run on a *syntax.File (no EXIT trap in the core language) *)
Definition run_prog (fuel : nat) (p : prog) (s : st) : st :=
  let s := set_ex exit0 s in
  let s := rstmts (run fuel) p s in
  set_lastEx (ex s) s.

Definition init_st : st :=
  mkSt [] [] [] exit0 exit0 0%Z 0%Z false false false false false None O false.

(* what the harness observes: stdout, exit status, final variables *)
Definition obs (s : st) : str * N * list (str * str) := (out s, code (ex s), vars s).
