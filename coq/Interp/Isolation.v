(* Interp/Isolation.v — model of the interpreter's mutable shell state and of
   Runner.subshell, for C27 (subshell isolation) and C32 (no shared writes).

   Transliterated from interp/api.go (Runner.subshell), interp/vars.go
   (overlayEnviron Get/Set/Each, lookupVar, setVar, setVarWithIndex, unsetElem,
   assignVal, setFunc), internal/sparse.go (IndexedMax, SetIndexedElem,
   DeleteIndexedElem, CanonicalIndexes), interp/builtin.go (shift, set --, unset,
   cd, pushd, popd, alias, unalias, set -o / shopt), interp/runner.go (naked
   assignments, DeclClause, function call scope, function definition).

   Two heaps: [ha] holds the backing arrays of Go slices (Base/GoSlice.v; cells
   are lists of [val] = string or int), [ho] holds the objects reached through
   Go pointers and maps: overlayEnviron objects (with their values map), the
   bottom Environ, map[string]string of associative arrays, Runner.Funcs,
   Runner.alias.  A Runner is a record of values and pointers into the heaps.

   Every heap change goes through hwrite/halloc (arrays) or o_set/o_alloc
   (objects).  Go panics are [Panic]; [Err 1] is Go's "readonly variable"
   error; [Err 254] marks a combination outside the modelled fragment
   (namerefs, -A with unkeyed elements, ...), never produced by the harness;
   [Err 255] is out-of-fuel on the parent-pointer chain.
   NO PROOFS in this file. *)
From Verif Require Import Base.Str Base.GoSlice.
Open Scope nat_scope.

Inductive val := VS (s : str) | VI (z : Z).
Definition zs : val := VS [].
Definition zi : val := VI 0%Z.
Definition val_str (v : val) : str := match v with VS s => s | VI _ => [] end.
Definition val_int (v : val) : Z := match v with VI z => z | VS _ => 0%Z end.

Inductive kind := KUnknown | KString | KNameRef | KIndexed | KAssoc | KKeep.
Definition kind_eqb (a b : kind) : bool :=
  match a, b with
  | KUnknown, KUnknown | KString, KString | KNameRef, KNameRef
  | KIndexed, KIndexed | KAssoc, KAssoc | KKeep, KKeep => true
  | _, _ => false
  end.

(* expand.Variable *)
Record variable := mkVar {
  v_set : bool; v_local : bool; v_exported : bool; v_readonly : bool;
  v_kind : kind; v_str : str;
  v_list : slice;          (* []string on ha *)
  v_idx : slice;           (* []int on ha; SNil = dense *)
  v_map : option loc       (* map[string]string on ho; None = nil map *)
}.
Definition var0 : variable := mkVar false false false false KUnknown [] SNil SNil None.
Definition declared (v : variable) : bool :=
  v_set v || v_local v || v_exported v || v_readonly v || negb (kind_eqb (v_kind v) KUnknown).

Definition with_set b v := mkVar b (v_local v) (v_exported v) (v_readonly v) (v_kind v) (v_str v) (v_list v) (v_idx v) (v_map v).
Definition with_local b v := mkVar (v_set v) b (v_exported v) (v_readonly v) (v_kind v) (v_str v) (v_list v) (v_idx v) (v_map v).
Definition with_exported b v := mkVar (v_set v) (v_local v) b (v_readonly v) (v_kind v) (v_str v) (v_list v) (v_idx v) (v_map v).
Definition with_readonly b v := mkVar (v_set v) (v_local v) (v_exported v) b (v_kind v) (v_str v) (v_list v) (v_idx v) (v_map v).
Definition with_kind k v := mkVar (v_set v) (v_local v) (v_exported v) (v_readonly v) k (v_str v) (v_list v) (v_idx v) (v_map v).
Definition with_str s v := mkVar (v_set v) (v_local v) (v_exported v) (v_readonly v) (v_kind v) s (v_list v) (v_idx v) (v_map v).
Definition with_lists l i v := mkVar (v_set v) (v_local v) (v_exported v) (v_readonly v) (v_kind v) (v_str v) l i (v_map v).
Definition with_map m v := mkVar (v_set v) (v_local v) (v_exported v) (v_readonly v) (v_kind v) (v_str v) (v_list v) (v_idx v) m.
(* vr.Kind, Str, List, Indexes, Map = prev's *)
Definition with_value_of (p v : variable) := mkVar (v_set v) (v_local v) (v_exported v) (v_readonly v) (v_kind p) (v_str p) (v_list p) (v_idx p) (v_map p).

Inductive ocell :=
| CMap (m : list (str * str))                                       (* map[string]string *)
| CEnv (parent : option loc) (fs : bool) (vals : list (str * variable)) (* *overlayEnviron *)
| CBase (vals : list (str * variable))                              (* read-only bottom Environ *)
| CFuncs (m : list (str * N))                                       (* Runner.Funcs; body = id *)
| CAlias (m : list (str * str)).                                    (* Runner.alias; value = source *)

Record heaps := mkH { ha : list (list val); ho : list ocell }.

(* Go maps as association lists with unique keys *)
Fixpoint al_get {A} (k : str) (l : list (str * A)) : option A :=
  match l with
  | [] => None
  | (k', v) :: t => if str_eqb k' k then Some v else al_get k t
  end.
Fixpoint al_put {A} (k : str) (v : A) (l : list (str * A)) : list (str * A) :=
  match l with
  | [] => [(k, v)]
  | (k', v') :: t => if str_eqb k' k then (k, v) :: t else (k', v') :: al_put k v t
  end.
Fixpoint al_del {A} (k : str) (l : list (str * A)) : list (str * A) :=
  match l with
  | [] => []
  | (k', v') :: t => if str_eqb k' k then t else (k', v') :: al_del k t
  end.

(* ---- the state monad over the two heaps ------------------------------ *)
Definition M (A : Type) := heaps -> res A * heaps.
Definition ret {A} (a : A) : M A := fun h => (Ok a, h).
Definition fail {A} (e : N) : M A := fun h => (Err e, h).
Definition panic {A} : M A := fun h => (Panic, h).
Definition bind {A B} (c : M A) (f : A -> M B) : M B :=
  fun h => match c h with
           | (Ok a, h') => f a h'
           | (Err e, h') => (Err e, h')
           | (Panic, h') => (Panic, h')
           end.
Notation "x <- c ;; f" := (bind c (fun x => f)) (at level 61, c at next level, right associativity).
Notation "' p <- c ;; f" := (bind c (fun p => f)) (at level 61, p pattern, c at next level, right associativity).
Definition lift {A} (r : res A) : M A := fun h => (r, h).
(* run c; a Go `error` result that the caller only reports (exit code 1) *)
Definition ignore_err (c : M unit) : M unit :=
  fun h => match c h with (Err _, h') => (Ok tt, h') | x => x end.

Definition UNMODELLED : N := 254%N.
Definition OUTOFFUEL : N := 255%N.
Definition READONLY : N := 1%N.

Section Model.
Variable grow : nat -> nat -> nat.

(* ---- slices in the monad ------------------------------------------------ *)
Definition m_elems (s : slice) : M (list val) := fun h => (Ok (elems (ha h) s), h).
Definition m_index (s : slice) (i : nat) : M val := fun h => (index (ha h) s i, h).
Definition m_store (s : slice) (i : nat) (v : val) : M unit :=
  fun h => match store (ha h) s i v with
           | Ok a' => (Ok tt, mkH a' (ho h))
           | Err e => (Err e, h)
           | Panic => (Panic, h)
           end.
Definition m_alloc_list (z : val) (l : list val) (c : nat) : M slice :=
  fun h => let '(a', s) := alloc_list z (ha h) l c in (Ok s, mkH a' (ho h)).
Definition m_append (z : val) (s : slice) (vs : list val) : M slice :=
  fun h => let '(a', s') := append z grow (ha h) s vs in (Ok s', mkH a' (ho h)).
Definition m_clone (z : val) (s : slice) : M slice :=
  fun h => let '(a', s') := clone z grow (ha h) s in (Ok s', mkH a' (ho h)).
Definition m_insert (z : val) (s : slice) (i : nat) (v : val) : M slice :=
  fun h => match insert z grow (ha h) s i v with
           | Ok (a', s') => (Ok s', mkH a' (ho h))
           | Err e => (Err e, h)
           | Panic => (Panic, h)
           end.
Definition m_delete (z : val) (s : slice) (i j : nat) : M slice :=
  fun h => match delete z (ha h) s i j with
           | Ok (a', s') => (Ok s', mkH a' (ho h))
           | Err e => (Err e, h)
           | Panic => (Panic, h)
           end.

(* ---- objects -------------------------------------------------------------- *)
Definition o_get (l : loc) : M ocell :=
  fun h => match nth_error (ho h) l with Some c => (Ok c, h) | None => (Panic, h) end.
Definition o_set (l : loc) (c : ocell) : M unit :=
  fun h => (Ok tt, mkH (ha h) (set_nth (ho h) l c)).
Definition o_alloc (c : ocell) : M loc :=
  fun h => (Ok (length (ho h)), mkH (ha h) (ho h ++ [c])).

(* map[string]string *)
Definition map_read (m : option loc) : M (list (str * str)) :=
  match m with
  | None => ret []
  | Some l => c <- o_get l ;; match c with CMap kv => ret kv | _ => panic end
  end.
(* maps.Clone: nil stays nil *)
Definition map_clone (m : option loc) : M (option loc) :=
  match m with
  | None => ret None
  | Some l => kv <- map_read m ;; l' <- o_alloc (CMap kv) ;; ret (Some l')
  end.
Definition map_put (l : loc) (k v : str) : M unit :=
  c <- o_get l ;; match c with CMap kv => o_set l (CMap (al_put k v kv)) | _ => panic end.
Definition map_del (l : loc) (k : str) : M unit :=
  c <- o_get l ;; match c with CMap kv => o_set l (CMap (al_del k kv)) | _ => panic end.

(* ---- overlayEnviron ------------------------------------------------------- *)
(* Get: fuel = number of parent hops allowed *)
Fixpoint env_get (fuel : nat) (e : loc) (name : str) : M variable :=
  match fuel with
  | O => fail OUTOFFUEL
  | S f =>
      c <- o_get e ;;
      match c with
      | CEnv p _ vals =>
          match al_get name vals with
          | Some v => ret v
          | None => match p with Some p' => env_get f p' name | None => ret var0 end
          end
      | CBase vals => ret (match al_get name vals with Some v => v | None => var0 end)
      | _ => panic
      end
  end.

(* Each: parent first, then the own values *)
Fixpoint env_each (fuel : nat) (e : loc) : M (list (str * variable)) :=
  match fuel with
  | O => fail OUTOFFUEL
  | S f =>
      c <- o_get e ;;
      match c with
      | CEnv p _ vals =>
          match p with
          | Some p' => up <- env_each f p' ;; ret (up ++ vals)
          | None => ret vals
          end
      | CBase vals => ret vals
      | _ => panic
      end
  end.

(* o.values[name] = vr / delete(o.values, name), keeping parent and funcScope *)
Definition env_put (e : loc) (name : str) (v : variable) : M unit :=
  c <- o_get e ;;
  match c with CEnv p fs vals => o_set e (CEnv p fs (al_put name v vals)) | _ => panic end.
Definition env_del (e : loc) (name : str) : M unit :=
  c <- o_get e ;;
  match c with CEnv p fs vals => o_set e (CEnv p fs (al_del name vals)) | _ => panic end.

(* Set *)
Fixpoint env_set (fuel : nat) (e : loc) (name : str) (vr : variable) : M unit :=
  match fuel with
  | O => fail OUTOFFUEL
  | S f =>
      c <- o_get e ;;
      match c with
      | CEnv p fs vals =>
          let inov := al_get name vals in
          let prev0 := match inov with Some v => v | None => var0 end in
          if fs && negb (v_local vr) && negb (v_local prev0) then
            match p with
            | Some p' => env_set f p' name vr
            | None => panic
            end
          else
            prev <- match inov, p with
                    | None, Some p' => env_get f p' name
                    | _, _ => ret prev0
                    end ;;
            vr1 <- (if kind_eqb (v_kind vr) KKeep then ret (with_value_of prev vr)
                    else if v_readonly prev then fail READONLY
                    else ret vr) ;;
            if negb (v_set vr1) then
              if v_local prev then env_put e name (with_local true vr1)
              else
                _ <- env_del e name ;;
                env_put e name (with_local (v_local prev || v_local vr1) vr1)
            else env_put e name (with_local (v_local prev || v_local vr1) vr1)
      | _ => panic                          (* the bottom Environ is not a WriteEnviron *)
      end
  end.

(* ---- internal/sparse.go ---------------------------------------------------- *)
Definition Zlen (s : slice) : Z := Z.of_nat (s_len s).

Definition indexed_max (list idx : slice) : M Z :=
  if Nat.ltb 0 (s_len idx) then v <- m_index idx (s_len idx - 1) ;; ret (val_int v)
  else ret (Zlen list - 1)%Z.

(* slices.BinarySearch(indexes, k) on the current contents *)
Fixpoint bs_loop (fuel : nat) (x : list val) (k : Z) (i j : nat) : nat :=
  match fuel with
  | O => i
  | S f =>
      if Nat.ltb i j then
        let h := Nat.div2 (i + j) in
        if Z.ltb (val_int (nth h x zi)) k then bs_loop f x k (S h) j else bs_loop f x k i h
      else i
  end.
Definition bsearch_ints (x : list val) (k : Z) : nat * bool :=
  let i := bs_loop (S (length x)) x k 0 (length x) in
  (i, Nat.ltb i (length x) && Z.eqb (val_int (nth i x zi)) k).

Fixpoint is_iota (x : list val) (i : Z) : bool :=
  match x with
  | [] => true
  | v :: t => Z.eqb (val_int v) i && is_iota t (i + 1)%Z
  end.
Definition canonical_indexes (idx : slice) : M slice :=
  x <- m_elems idx ;; ret (if is_iota x 0%Z then SNil else idx).

Fixpoint iota (n : nat) (from : Z) : list val :=
  match n with O => [] | S n' => VI from :: iota n' (from + 1)%Z end.

Definition set_sparse (list idx : slice) (k : Z) (v : str) : M (slice * slice) :=
  x <- m_elems idx ;;
  let '(pos, found) := bsearch_ints x k in
  if found then _ <- m_store list pos (VS v) ;; ret (list, idx)
  else
    list' <- m_insert zs list pos (VS v) ;;
    idx' <- m_insert zi idx pos (VI k) ;;
    idx'' <- canonical_indexes idx' ;;
    ret (list', idx'').

(* k >= 0 *)
Definition set_indexed_elem (list idx : slice) (k : Z) (v : str) : M (slice * slice) :=
  if s_is_nil idx then
    if Z.ltb k (Zlen list) then _ <- m_store list (Z.to_nat k) (VS v) ;; ret (list, SNil)
    else if Z.eqb k (Zlen list) then list' <- m_append zs list [VS v] ;; ret (list', SNil)
    else
      (* make([]int, len(list), len(list)+1) filled with 0..len-1 *)
      idx' <- m_alloc_list zi (iota (s_len list) 0%Z) (s_len list + 1) ;;
      set_sparse list idx' k v
  else set_sparse list idx k v.

Definition delete_indexed_elem (list idx : slice) (k : Z) : M (slice * slice) :=
  let sparse (idx : slice) : M (slice * slice) :=
    x <- m_elems idx ;;
    let '(pos, found) := bsearch_ints x k in
    if negb found then ret (list, idx)
    else
      list' <- m_delete zs list pos (pos + 1) ;;
      idx' <- m_delete zi idx pos (pos + 1) ;;
      idx'' <- canonical_indexes idx' ;;
      ret (list', idx'') in
  if s_is_nil idx then
    if Z.ltb k 0 || Z.leb (Zlen list) k then ret (list, SNil)
    else if Z.eqb k (Zlen list - 1) then
      list' <- lift (reslice list 0 (Z.to_nat k)) ;; ret (list', SNil)
    else
      idx' <- m_alloc_list zi (iota (s_len list) 0%Z) (s_len list) ;;
      sparse idx'
  else sparse idx.

(* ---- the Runner -------------------------------------------------------------- *)
Record frame := mkFrame { f_env : loc; f_params : slice; f_infunc : bool }.
Record runner := mkR {
  r_env : loc;                 (* writeEnv *)
  r_funcs : option loc;        (* Funcs (nil map = None) *)
  r_alias : option loc;
  r_opts : list bool;          (* runnerOpts, an array value *)
  r_dir : str;
  r_dirstack : slice;
  r_params : slice;
  r_infunc : bool;
  r_stack : list frame         (* Go call stack of Runner.call: saved writeEnv, Params, inFunc *)
}.
Definition set_env e r := mkR e (r_funcs r) (r_alias r) (r_opts r) (r_dir r) (r_dirstack r) (r_params r) (r_infunc r) (r_stack r).
Definition set_funcs f r := mkR (r_env r) f (r_alias r) (r_opts r) (r_dir r) (r_dirstack r) (r_params r) (r_infunc r) (r_stack r).
Definition set_alias a r := mkR (r_env r) (r_funcs r) a (r_opts r) (r_dir r) (r_dirstack r) (r_params r) (r_infunc r) (r_stack r).
Definition set_opts o r := mkR (r_env r) (r_funcs r) (r_alias r) o (r_dir r) (r_dirstack r) (r_params r) (r_infunc r) (r_stack r).
Definition set_dir d r := mkR (r_env r) (r_funcs r) (r_alias r) (r_opts r) d (r_dirstack r) (r_params r) (r_infunc r) (r_stack r).
Definition set_dirstack d r := mkR (r_env r) (r_funcs r) (r_alias r) (r_opts r) (r_dir r) d (r_params r) (r_infunc r) (r_stack r).
Definition set_params p r := mkR (r_env r) (r_funcs r) (r_alias r) (r_opts r) (r_dir r) (r_dirstack r) p (r_infunc r) (r_stack r).

Definition OPT_ALLEXPORT : nat := 0.

(* fuel for walking the parent chain from e: parents are older objects *)
Definition chain_fuel (e : loc) : nat := S e.

Definition lookup_var (r : runner) (name : str) : M variable :=
  v <- env_get (chain_fuel (r_env r)) (r_env r) name ;;
  ret (if declared v then v else var0).

Definition set_var (r : runner) (name : str) (vr : variable) : M unit :=
  let vr := if nth OPT_ALLEXPORT (r_opts r) false then with_exported true vr else vr in
  ignore_err (env_set (chain_fuel (r_env r)) (r_env r) name vr).
Definition del_var (r : runner) (name : str) : M unit :=
  ignore_err (env_set (chain_fuel (r_env r)) (r_env r) name var0).
Definition set_var_string (r : runner) (name s : str) : M unit :=
  set_var r name (mkVar true false false false KString s SNil SNil None).

(* Variable.String() *)
Definition var_string (v : variable) : M str :=
  match v_kind v with
  | KString => ret (v_str v)
  | KIndexed =>
      if s_is_nil (v_idx v) then
        if Nat.ltb 0 (s_len (v_list v)) then x <- m_index (v_list v) 0 ;; ret (val_str x) else ret []
      else
        x <- m_elems (v_idx v) ;;
        let '(pos, found) := bsearch_ints x 0%Z in
        if found then y <- m_index (v_list v) pos ;; ret (val_str y) else ret []
  | _ => ret []
  end.

(* ---- assignments ----------------------------------------------------------- *)
Inductive rhs :=
| RStr (s : str)                               (* name=word *)
| RNone                                        (* name= with no value word *)
| RArr (elems : list (option Z * str))         (* name=(w [i]=w ...) *)
| RAssocLit (elems : list (str * str)).        (* name=(["k"]=w ...) *)
Inductive vtype := VNone | VA | VAA.            (* "", -a, -A *)

(* the element loop of an indexed array assignment; (list, idx, next index, stopped) *)
Fixpoint arr_loop (elems : list (option Z * str)) (list idx : slice) (index : Z) : M (slice * slice) :=
  match elems with
  | [] => ret (list, idx)
  | (Some i, v) :: rest =>
      mx <- indexed_max list idx ;;
      let i' := if Z.ltb i 0 then (i + (mx + 1))%Z else i in
      if Z.ltb i' 0 then ret (list, idx)              (* bad array subscript: break *)
      else
        '(l', ix') <- set_indexed_elem list idx i' v ;;
        arr_loop rest l' ix' (i' + 1)%Z
  | (None, v) :: rest =>
      '(l', ix') <- set_indexed_elem list idx index v ;;
      arr_loop rest l' ix' (index + 1)%Z
  end.

(* Runner.assignVal (namerefs not modelled); has_index: the Assign has an index *)
Definition assign_val (prev : variable) (app has_index : bool) (rh : rhs) (vt : vtype) : M variable :=
  let prev := with_set true prev in
  match rh with
  | RStr s =>
      if negb app || has_index then ret (with_str s (with_kind KString prev))
      else
        match v_kind prev with
        | KString | KUnknown => ret (with_str (v_str prev ++ s) (with_kind KString prev))
        | KIndexed =>
            (* fix d35f0af: clone before writing *)
            l <- m_clone zs (v_list prev) ;;
            ix <- m_clone zi (v_idx prev) ;;
            first0 <- (if negb (Nat.ltb 0 (s_len l)) then ret false
                       else if s_is_nil ix then ret true
                       else x <- m_index ix 0 ;; ret (Z.eqb (val_int x) 0)) ;;
            if first0 then
              old <- m_index l 0 ;;
              _ <- m_store l 0 (VS (val_str old ++ s)) ;;
              ret (with_lists l ix prev)
            else
              '(l', ix') <- set_indexed_elem l ix 0%Z s ;;
              ret (with_lists l' ix' prev)
        | _ => ret prev
        end
  | RNone => ret (with_str [] (with_kind KString prev))
  | _ =>
      let assoc := match vt, rh with
                   | VAA, _ => true
                   | VNone, RAssocLit (_ :: _) => true
                   | _, _ => false
                   end in
      if assoc then
        match rh with
        | RAssocLit es =>
            if negb app then
              m <- o_alloc (CMap (fold_left (fun acc kv => al_put (fst kv) (snd kv) acc) es [])) ;;
              ret (with_map (Some m) (with_kind KAssoc prev))
            else ret prev
        | RArr [] =>
            if negb app then
              m <- o_alloc (CMap []) ;; ret (with_map (Some m) (with_kind KAssoc prev))
            else ret prev
        | _ => fail UNMODELLED
        end
      else
        match rh with
        | RArr es =>
            base <- (if app then
                       match v_kind prev with
                       | KUnknown => ret (Some (SNil, SNil))
                       | KString => l <- m_alloc_list zs [VS (v_str prev)] 1 ;; ret (Some (l, SNil))
                       | KIndexed =>
                           l <- m_clone zs (v_list prev) ;;
                           ix <- m_clone zi (v_idx prev) ;;
                           ret (Some (l, ix))
                       | KAssoc => ret None
                       | _ => panic
                       end
                     else ret (Some (SNil, SNil))) ;;
            match base with
            | None => ret prev
            | Some (l0, ix0) =>
                mx <- indexed_max l0 ix0 ;;
                '(l, ix) <- arr_loop es l0 ix0 (mx + 1)%Z ;;
                l' <- (if s_is_nil l then m_alloc_list zs [] 0 else ret l) ;;
                ret (with_lists l' ix (with_kind KIndexed prev))
            end
        | RAssocLit [] =>
            l' <- m_alloc_list zs [] 0 ;;
            ret (with_lists l' SNil (with_kind KIndexed prev))
        | _ => fail UNMODELLED
        end
  end.

(* an index as written: its arithmetic value and its literal text *)
Definition key := (Z * str)%type.

(* Runner.setVarWithIndex *)
Definition set_var_with_index (r : runner) (prev : variable) (name : str) (index : option key)
           (vr : variable) (append_elem : bool) : M unit :=
  let index := match index with
               | Some k => Some k
               | None =>
                   if kind_eqb (v_kind vr) KString then
                     match v_kind prev with
                     | KIndexed => Some (0%Z, [48%N])
                     | KAssoc => Some (0%Z, [])
                     | _ => None
                     end
                   else None
               end in
  match index with
  | None => set_var r name vr
  | Some (kz, ktext) =>
      let val_str0 := v_str vr in
      let prev := with_set true prev in
      match v_kind prev with
      | KAssoc =>
          (* Go: the index must be a syntax.Word (type assertion, else return): a negative
             literal parses as a unary arithmetic expression, not as a Word *)
          if Z.ltb kz 0 then ret tt else
          m <- map_clone (v_map prev) ;;
          m' <- (match m with Some l => ret l | None => o_alloc (CMap []) end) ;;
          kv <- map_read (Some m') ;;
          let v := if append_elem then (match al_get ktext kv with Some o => o | None => [] end) ++ val_str0
                   else val_str0 in
          _ <- map_put m' ktext v ;;
          set_var r name (with_map (Some m') prev)
      | _ =>
          '(l0, ix0) <- (match v_kind prev with
                         | KString => l <- m_append zs SNil [VS (v_str prev)] ;; ret (l, SNil)
                         | KIndexed =>
                             l <- m_clone zs (v_list prev) ;;
                             ix <- m_clone zi (v_idx prev) ;;
                             ret (l, ix)
                         | _ => ret (SNil, SNil)
                         end) ;;
          mx <- indexed_max l0 ix0 ;;
          let k := if Z.ltb kz 0 then (kz + (mx + 1))%Z else kz in
          if Z.ltb k 0 then ret tt                    (* bad array subscript *)
          else
            v <- (if append_elem then
                    if s_is_nil ix0 then
                      if Z.ltb k (Zlen l0) then o <- m_index l0 (Z.to_nat k) ;; ret (val_str o ++ val_str0)
                      else ret val_str0
                    else
                      x <- m_elems ix0 ;;
                      let '(pos, found) := bsearch_ints x k in
                      if found then o <- m_index l0 pos ;; ret (val_str o ++ val_str0) else ret val_str0
                  else ret val_str0) ;;
            '(l, ix) <- set_indexed_elem l0 ix0 k v ;;
            set_var r name (with_lists l ix (with_kind KIndexed prev))
      end
  end.

(* Runner.unsetElem with a numeric subscript *)
Definition unset_elem (r : runner) (name : str) (sub : key) : M unit :=
  vr <- lookup_var r name ;;
  match v_kind vr with
  | KIndexed =>
      mx <- indexed_max (v_list vr) (v_idx vr) ;;
      let k := if Z.ltb (fst sub) 0 then (fst sub + (mx + 1))%Z else fst sub in
      if Z.ltb k 0 then ret tt
      else
        l <- m_clone zs (v_list vr) ;;
        ix <- m_clone zi (v_idx vr) ;;
        '(l', ix') <- delete_indexed_elem l ix k ;;
        set_var r name (with_lists l' ix' vr)
  | KAssoc =>
      m <- map_clone (v_map vr) ;;
      match m with
      | Some l => _ <- map_del l (snd sub) ;; set_var r name (with_map m vr)
      | None => set_var r name (with_map None vr)      (* delete on a nil map is a no-op *)
      end
  | KString =>
      if str_eqb (snd sub) [48%N] then del_var r name else ret tt
  | _ => ret tt
  end.
(* unset 'name[@]' *)
Definition unset_all (r : runner) (name : str) : M unit :=
  vr <- lookup_var r name ;;
  match v_kind vr with
  | KIndexed | KAssoc => del_var r name
  | _ => ret tt                                           (* String: "not an array variable" *)
  end.

(* ---- operations of a shell ------------------------------------------------- *)
Inductive dvariant := DDeclare | DLocal | DExport | DReadonly.

Inductive op :=
| OAssign (name : str) (index : option key) (app : bool) (rh : rhs)   (* name[idx]?[+]=rhs *)
| ODecl (v : dvariant) (fx fr fg : bool) (vt : vtype) (name : str) (asg : option (bool * rhs))
| OUnset (name : str)                    (* unset name *)
| OUnsetElem (name : str) (sub : key)    (* unset 'name[k]' *)
| OUnsetAll (name : str)                 (* unset 'name[@]' *)
| OUnsetF (name : str)                   (* unset -f name *)
| OShift (n : nat)
| OSetParams (args : list str)           (* set -- args *)
| OCd (apath : str)                      (* cd to an existing absolute clean path *)
| OPushd (apath : str)
| OPushdSwap                             (* pushd without arguments *)
| OPopd
| OAlias (name src : str)
| OUnalias (name : str)
| OFuncDef (name : str) (body : N)
| OSetOpt (i : nat) (b : bool)           (* set -o/+o name, shopt -s/-u name *)
| OSetString (name s : str)              (* Runner.setVar(name, string): read NAME, (( NAME = n )),
                                            for NAME in w, ... *)
| OCallBegin (args : list str)           (* enter a function body: Runner.call *)
| OCallEnd.                              (* leave it *)

Definition change_dir (r : runner) (apath : str) : M runner :=
  let r' := set_dir apath r in
  pwd <- lookup_var r' [80;87;68]%N ;;                      (* PWD *)
  old <- var_string pwd ;;
  _ <- set_var_string r' [79;76;68;80;87;68]%N old ;;       (* OLDPWD *)
  _ <- set_var_string r' [80;87;68]%N apath ;;
  ret r'.

Definition funcs_read (f : option loc) : M (list (str * N)) :=
  match f with
  | None => ret []
  | Some l => c <- o_get l ;; match c with CFuncs m => ret m | _ => panic end
  end.
Definition alias_read (a : option loc) : M (list (str * str)) :=
  match a with
  | None => ret []
  | Some l => c <- o_get l ;; match c with CAlias m => ret m | _ => panic end
  end.

Definition step (o : op) (r : runner) : M runner :=
  match o with
  | OAssign name index app rh =>
      prev0 <- lookup_var r name ;;
      let prev := with_local false prev0 in
      vr <- assign_val prev app (match index with Some _ => true | None => false end) rh VNone ;;
      _ <- set_var_with_index r prev name index vr
             (app && match index with Some _ => true | None => false end) ;;
      ret r
  | ODecl dv fx fr fg vt name asg =>
      match dv, r_infunc r with
      | DLocal, false => ret r                              (* local: can only be used in a function *)
      | _, _ =>
          let local := match dv with DDeclare => r_infunc r | DLocal => true | _ => false end in
          let fx := fx || match dv with DExport => true | _ => false end in
          let fr := fr || match dv with DReadonly => true | _ => false end in
          vr0 <- lookup_var r name ;;
          vr1 <- (match asg with
                  | None => ret (match vt with VAA => with_kind KAssoc vr0 | _ => with_kind KKeep vr0 end)
                  | Some (app, rh) => assign_val vr0 app false rh vt
                  end) ;;
          let vr2 := if fg then with_local false vr1 else if local then with_local true vr1 else vr1 in
          let vr3 := if fx then with_exported true vr2 else vr2 in
          let vr4 := if fr then with_readonly true vr3 else vr3 in
          _ <- set_var r name vr4 ;;
          ret r
      end
  | OUnset name =>
      vr <- lookup_var r name ;;
      if v_set vr then _ <- del_var r name ;; ret r
      else
        match r_funcs r with
        | None => ret r
        | Some l =>
            m <- funcs_read (Some l) ;;
            match al_get name m with
            | Some _ => _ <- o_set l (CFuncs (al_del name m)) ;; ret r
            | None => ret r
            end
        end
  | OUnsetElem name sub => _ <- unset_elem r name sub ;; ret r
  | OUnsetAll name => _ <- unset_all r name ;; ret r
  | OUnsetF name =>
      match r_funcs r with
      | None => ret r
      | Some l =>
          m <- funcs_read (Some l) ;;
          match al_get name m with
          | Some _ => _ <- o_set l (CFuncs (al_del name m)) ;; ret r
          | None => ret r
          end
      end
  | OShift n =>
      if Nat.leb (s_len (r_params r)) n then ret (set_params SNil r)
      else p <- lift (reslice (r_params r) n (s_len (r_params r))) ;; ret (set_params p r)
  | OSetParams args =>
      p <- m_alloc_list zs (map VS args) 0 ;; ret (set_params p r)
  | OCd apath => change_dir r apath
  | OPushd apath =>
      r' <- change_dir r apath ;;
      d <- m_append zs (r_dirstack r') [VS (r_dir r')] ;;
      ret (set_dirstack d r')
  | OPushdSwap =>
      let n := s_len (r_dirstack r) in
      if Nat.ltb n 2 then ret r
      else
        oldtop <- m_index (r_dirstack r) (n - 1) ;;
        top <- m_index (r_dirstack r) (n - 2) ;;
        _ <- m_store (r_dirstack r) (n - 1) top ;;
        _ <- m_store (r_dirstack r) (n - 2) oldtop ;;
        change_dir r (val_str top)
  | OPopd =>
      let n := s_len (r_dirstack r) in
      if Nat.ltb n 2 then ret r
      else
        d <- lift (reslice (r_dirstack r) 0 (n - 1)) ;;
        newtop <- m_index d (n - 2) ;;
        change_dir (set_dirstack d r) (val_str newtop)
  | OAlias name src =>
      match r_alias r with
      | Some l =>
          m <- alias_read (Some l) ;; _ <- o_set l (CAlias (al_put name src m)) ;; ret r
      | None =>
          l <- o_alloc (CAlias [(name, src)]) ;; ret (set_alias (Some l) r)
      end
  | OUnalias name =>
      match r_alias r with
      | Some l => m <- alias_read (Some l) ;; _ <- o_set l (CAlias (al_del name m)) ;; ret r
      | None => ret r
      end
  | OFuncDef name body =>
      match r_funcs r with
      | Some l =>
          m <- funcs_read (Some l) ;; _ <- o_set l (CFuncs (al_put name body m)) ;; ret r
      | None =>
          l <- o_alloc (CFuncs [(name, body)]) ;; ret (set_funcs (Some l) r)
      end
  | OSetOpt i b => ret (set_opts (set_nth (r_opts r) i b) r)
  | OSetString name s => _ <- set_var_string r name s ;; ret r
  | OCallBegin args =>
      p <- m_alloc_list zs (map VS args) 0 ;;
      e <- o_alloc (CEnv (Some (r_env r)) true []) ;;
      ret (mkR e (r_funcs r) (r_alias r) (r_opts r) (r_dir r) (r_dirstack r) p true
               (mkFrame (r_env r) (r_params r) (r_infunc r) :: r_stack r))
  | OCallEnd =>
      match r_stack r with
      | [] => ret r
      | fr :: rest =>
          ret (mkR (f_env fr) (r_funcs r) (r_alias r) (r_opts r) (r_dir r) (r_dirstack r)
                   (f_params fr) (f_infunc fr) rest)
      end
  end.

(* a thread's state: its Runner, the heaps, and whether a Go panic happened
   (after a panic nothing else runs) *)
Record state := mkSt { st_r : runner; st_h : heaps; st_panic : bool }.

(* an operation that fails with a Go error / outside the fragment leaves the
   Runner as it was (the builtin reports and returns); heap changes made before
   the failure stay *)
Definition step_state (s : state) (o : op) : state :=
  if st_panic s then s
  else match step o (st_r s) (st_h s) with
       | (Ok r', h') => mkSt r' h' false
       | (Err _, h') => mkSt (st_r s) h' false
       | (Panic, h') => mkSt (st_r s) h' true
       end.
Definition run_ops (ops : list op) (s : state) : state := fold_left step_state ops s.

(* ---- Runner.subshell(background) --------------------------------------------- *)
Fixpoint set_all (e : loc) (l : list (str * variable)) : M unit :=
  match l with
  | [] => ret tt
  | (n, v) :: t => _ <- ignore_err (env_set 1 e n v) ;; set_all e t
  end.

Definition map_clone_funcs (f : option loc) : M (option loc) :=
  match f with
  | None => ret None
  | Some _ => m <- funcs_read f ;; l <- o_alloc (CFuncs m) ;; ret (Some l)
  end.
Definition map_clone_alias (a : option loc) : M (option loc) :=
  match a with
  | None => ret None
  | Some _ => m <- alias_read a ;; l <- o_alloc (CAlias m) ;; ret (Some l)
  end.

Definition subshell (bg : bool) (r : runner) : M runner :=
  e <- (if bg then
          e <- o_alloc (CEnv None false []) ;;
          all <- env_each (chain_fuel (r_env r)) (r_env r) ;;
          _ <- set_all e all ;;
          ret e
        else o_alloc (CEnv (Some (r_env r)) false [])) ;;
  f <- map_clone_funcs (r_funcs r) ;;
  a <- map_clone_alias (r_alias r) ;;
  (* append(r2.dirBootstrap[:0], r.dirStack...) : dirBootstrap is r2's own [1]string *)
  boot <- m_alloc_list zs [] 1 ;;
  ds <- m_elems (r_dirstack r) ;;
  d <- m_append zs boot ds ;;
  ret (mkR e f a (r_opts r) (r_dir r) d (r_params r) false []).

Definition subshell_state (bg : bool) (r : runner) (h : heaps) : state :=
  match subshell bg r h with
  | (Ok r2, h1) => mkSt r2 h1 false
  | (_, h1) => mkSt r h1 true
  end.

(* ---- what the parent can observe ----------------------------------------------- *)
Record ovar := mkOV {
  ov_set : bool; ov_local : bool; ov_exported : bool; ov_readonly : bool;
  ov_kind : kind; ov_str : str;
  ov_list : list val;
  ov_idx : option (list val);
  ov_map : option (res (list (str * str)))
}.
Definition resolve_var (h : heaps) (v : variable) : ovar :=
  mkOV (v_set v) (v_local v) (v_exported v) (v_readonly v) (v_kind v) (v_str v)
       (elems (ha h) (v_list v))
       (if s_is_nil (v_idx v) then None else Some (elems (ha h) (v_idx v)))
       (match v_map v with None => None | Some l => Some (fst (map_read (Some l) h)) end).

(* the value of one name as seen from Runner r *)
Definition observe_var (r : runner) (h : heaps) (name : str) : res ovar :=
  match lookup_var r name h with
  | (Ok v, _) => Ok (resolve_var h v)
  | (Err e, _) => Err e
  | (Panic, _) => Panic
  end.

Record obs := mkObs {
  ob_vars : res (list (str * res ovar));     (* Each, every name resolved through Get *)
  ob_funcs : res (list (str * N));
  ob_alias : res (list (str * str));
  ob_opts : list bool;
  ob_dir : str;
  ob_dirstack : list val;
  ob_params : list val
}.
Definition observe (r : runner) (h : heaps) : obs :=
  mkObs
    (match env_each (chain_fuel (r_env r)) (r_env r) h with
     | (Ok l, _) => Ok (map (fun nv => (fst nv, observe_var r h (fst nv))) l)
     | (Err e, _) => Err e
     | (Panic, _) => Panic
     end)
    (fst (funcs_read (r_funcs r) h))
    (fst (alias_read (r_alias r) h))
    (r_opts r) (r_dir r)
    (elems (ha h) (r_dirstack r))
    (elems (ha h) (r_params r)).


(* ---- pipelines ---------------------------------------------------------------------- *)
(* BinaryCmd Pipe in Runner.cmd: the left stage runs in r.subshell(true), the LAST
   stage runs in r itself (sequential view; C32 is about the concurrency) *)
Definition pipeline (left right : list op) (r : runner) (h : heaps) : state :=
  let sl := run_ops left (subshell_state true r h) in
  run_ops right (mkSt r (st_h sl) (st_panic sl)).

(* ---- two threads on one heap (C32) ------------------------------------------------------- *)
(* The parent Runner and a background copy take steps in any interleaving on the
   shared heaps.  cf_ta / cf_to are ghost state (they never influence a step): for
   every array cell / object, which thread allocated it after the fork (TParent,
   TChild), or how the cells that existed at the fork are classified (TParent = the
   parent's private roots, TShared = everything else). *)
Inductive tid := TParent | TChild | TShared.
Definition tid_eqb (a b : tid) : bool :=
  match a, b with TParent, TParent | TChild, TChild | TShared, TShared => true | _, _ => false end.

Record conf := mkConf {
  cf_p : runner; cf_pp : bool;       (* parent Runner, its panic flag *)
  cf_c : runner; cf_cp : bool;       (* the copy *)
  cf_h : heaps;
  cf_ta : list tid; cf_to : list tid }.

Definition retag (tags : list tid) (t : tid) (n : nat) : list tid :=
  tags ++ repeat t (n - length tags).

(* an event: (true, o) = the parent runs o, (false, o) = the copy runs o *)
Definition sched_step (cf : conf) (ev : bool * op) : conf :=
  if fst ev then
    let s := step_state (mkSt (cf_p cf) (cf_h cf) (cf_pp cf)) (snd ev) in
    mkConf (st_r s) (st_panic s) (cf_c cf) (cf_cp cf) (st_h s)
           (retag (cf_ta cf) TParent (length (ha (st_h s)))) (retag (cf_to cf) TParent (length (ho (st_h s))))
  else
    let s := step_state (mkSt (cf_c cf) (cf_h cf) (cf_cp cf)) (snd ev) in
    mkConf (cf_p cf) (cf_pp cf) (st_r s) (st_panic s) (st_h s)
           (retag (cf_ta cf) TChild (length (ha (st_h s)))) (retag (cf_to cf) TChild (length (ho (st_h s)))).
Definition run_sched (evs : list (bool * op)) (cf : conf) : conf := fold_left sched_step evs cf.

(* Runner.subshell(true) at the fork; ta/to classify the cells that exist *)
Definition fork_conf (r : runner) (h : heaps) (ta to : list tid) : conf :=
  let s := subshell_state true r h in
  mkConf r false (st_r s) (st_panic s) (st_h s)
         (retag ta TChild (length (ha (st_h s)))) (retag to TChild (length (ho (st_h s)))).

End Model.

(* ---- bgProcs and wait ------------------------------------------------------------------ *)
(* Runner.bgProcs is append-only; the goroutine of job i first writes *bg.exit and
   then closes bg.done (runner.go: `*bg.exit = r2.exit; close(bg.done)`); `wait gN`
   receives from done and then reads *bg.exit. *)
Record job := mkJob { j_exit : N; j_done : bool; j_pc : nat; j_status : N }.
Inductive event :=
| ESpawn (status : N)       (* the parent starts a job whose shell will end with status *)
| EStep (i : nat).          (* the goroutine of job i (0-based) takes its next step *)
Definition job_step (j : job) : job :=
  match j_pc j with
  | 0 => mkJob (j_status j) (j_done j) 1 (j_status j)        (* *bg.exit = r2.exit *)
  | 1 => mkJob (j_exit j) true 2 (j_status j)                 (* close(bg.done) *)
  | _ => j
  end.
Definition ev_step (js : list job) (e : event) : list job :=
  match e with
  | ESpawn s => js ++ [mkJob 0 false 0 s]
  | EStep i => match nth_error js i with Some j => set_nth js i (job_step j) | None => js end
  end.
Definition run_events (evs : list event) (js : list job) : list job := fold_left ev_step evs js.
Fixpoint spawned (evs : list event) : list N :=
  match evs with
  | [] => []
  | ESpawn s :: t => s :: spawned t
  | EStep _ :: t => spawned t
  end.
(* `wait g<n>` (n is 1-based): None = still blocked on done; Err 1 = "not a child of this shell" *)
Definition wait_result (js : list job) (n : nat) : option (res N) :=
  match n with
  | 0 => Some (Err 1%N)
  | S i =>
      match nth_error js i with
      | None => Some (Err 1%N)
      | Some j => if j_done j then Some (Ok (j_exit j)) else None
      end
  end.
