(* Interp/TreeRegion.v — C29: what the interpreter does to the slices of the
   syntax tree and to the caller's Environ, on the Go heap of Base/GoSliceLite.v.

   The tree (Words' Parts, CallExpr.Args/Assigns, DeclClause.Args, here-document
   words) and the caller's Environ are whatever objects exist before the run;
   the operations below are transliterations of
     interp/runner.go   Runner.cmd, case *syntax.CallExpr (alias expansion loop)
     expand/expand.go   FieldsSeq (word := *word; syntax.SplitBraces(&word))
     expand/braces.go   bracesSeqRec
     interp/runner.go   flattenAssigns, hdocString (the <<- loop)
     interp/vars.go     overlayEnviron.Get/Set, setVarWithIndex, assignVal (+= on an array)
   Every store goes through hwrite/hset of GoSliceLite, which log their target.
   Pure computations whose result does not matter for aliasing (what SplitBraces
   parses, what a word expands to, the values of a {x..y} sequence) are Section
   variables.  NO PROOFS in this file. *)
From Verif Require Import Base.Str Base.GoSliceLite.

Inductive kind := KUnknown | KString | KIndexed | KKeepValue.

Record var := mkvar {
  v_set : bool; v_local : bool; v_exported : bool; v_readonly : bool;
  v_kind : kind; v_str : str; v_list : slice }.

Definition zero_var : var := mkvar false false false false KUnknown [] SNil.

Inductive val :=
| VTag (n : nat)            (* node kind, first cell of every tree object *)
| VStr (s : str)
| VSl (s : slice)
| VPtr (l : loc)
| VBool (b : bool)
| VNilv
| VEnt (name : str) (v : var).   (* an entry of a map[string]Variable / of the Environ *)

Definition state := st val.
Definition zero : val := VNilv.

(* object layouts
   Lit        [VTag 0; VStr value]
   Word       [VTag 1; VSl parts]                 parts : VPtr to Lit / BraceExp / other
   BraceExp   [VTag 2; VBool sequence; VSl elems] elems : VPtr to Word
   Assign     [VTag 3; name; value; VBool naked]  name : VPtr Lit | VNilv ; value : VPtr Word | VNilv
   CallExpr   [VTag 4; VSl assigns; VSl args]
   DeclClause [VTag 5; VSl args]                  args : VPtr to Assign
   Redirect   [VTag 6; hdoc]                      hdoc : VPtr Word | VNilv
   anything else is an opaque word part (ParamExp, CmdSubst, ...) *)

Definition OutOfFuel {A} : res A := Err 1.
Definition ReadOnlyVar {A} : res A := Err 2.

Notation "'do' x <- a ; b" := (res_bind a (fun x => b)) (at level 200, x pattern, a at level 100, b at level 200).

Definition lit_value (s : state) (l : loc) : option str :=
  match obj s l with [VTag 0; VStr v] => Some v | _ => None end.

Definition word_parts (s : state) (w : loc) : res slice :=
  match obj s w with [VTag 1; VSl p] => Ok p | _ => Panic end.

Definition ptr_of (v : val) : res loc := match v with VPtr l => Ok l | _ => Panic end.

(* syntax.Word.Lit: the concatenated literals, "" as soon as a part is not a Lit *)
Fixpoint all_lits (s : state) (ps : list val) : option str :=
  match ps with
  | [] => Some []
  | VPtr l :: ps' =>
      match lit_value s l, all_lits s ps' with
      | Some v, Some r => Some (v ++ r)
      | _, _ => None
      end
  | _ => None
  end.
Definition word_lit (s : state) (w : loc) : res str :=
  do p <- word_parts s w;
  Ok (match all_lits s (elems s p) with Some v => v | None => [] end).

(* ------------------------------------------------------------------ *)
(* 1. alias expansion: Runner.cmd, case *syntax.CallExpr               *)

Definition alias_tab := list (str * (slice * bool)).

Fixpoint alias_find (a : alias_tab) (k : str) : option (slice * bool) :=
  match a with
  | [] => None
  | (n, e) :: a' => if str_eqb n k then Some e else alias_find a' k
  end.

(* for i := 0; i < len(args); { if !expand_aliases {break}; als, ok := r.alias[args[i].Lit()];
     if !ok {break}; args = slices.Concat(args[:i], als.args, args[i+1:]);
     if !als.blank {break}; i += len(als.args) } *)
Fixpoint alias_loop (fuel : nat) (ea : bool) (al : alias_tab) (s : state) (args : slice) (i : nat)
  : res (state * slice) :=
  match fuel with
  | O => OutOfFuel
  | S fuel' =>
      if negb (Nat.ltb i (s_len args)) then Ok (s, args)
      else if negb ea then Ok (s, args)
      else
        match nth_error (elems s args) i with
        | None => Panic
        | Some wv =>
            do w <- ptr_of wv;
            do k <- word_lit s w;
            match alias_find al k with
            | None => Ok (s, args)
            | Some (aargs, blank) =>
                do a1 <- reslice args 0 i;
                do a2 <- reslice args (i + 1) (s_len args);
                let '(s', args') := concat zero s [a1; aargs; a2] in
                if negb blank then Ok (s', args')
                else alias_loop fuel' ea al s' args' (i + s_len aargs)
            end
        end
  end.

(* THE MUTANT (not the code): the same loop written with append, as in
   args = append(args[:i], append(als.args, args[i+1:]...)...) *)
Definition alias_step_append (al : alias_tab) (s : state) (args : slice) (i : nat) : res (state * slice) :=
  match nth_error (elems s args) i with
  | None => Panic
  | Some wv =>
      do w <- ptr_of wv;
      do k <- word_lit s w;
      match alias_find al k with
      | None => Ok (s, args)
      | Some (aargs, _) =>
          do a1 <- reslice args 0 i;
          do a2 <- reslice args (i + 1) (s_len args);
          let '(s1, inner) := go_append zero s aargs (elems s a2) in
          Ok (go_append zero s1 a1 (elems s1 inner))
      end
  end.

Definition call_args (s : state) (c : loc) : res slice :=
  match obj s c with [VTag 4; VSl _; VSl args] => Ok args | _ => Panic end.

(* the alias builtin: parser.WordsSeq yields new words; stored in r.alias *)
Fixpoint alloc_lit_words (s : state) (ws : list str) : state * list val :=
  match ws with
  | [] => (s, [])
  | w :: ws' =>
      let '(s1, l) := halloc s [VTag 0; VStr w] in
      let '(s2, ps) := alloc_list zero s1 [VPtr l] 1 in
      let '(s3, wl) := halloc s2 [VTag 1; VSl ps] in
      let '(s4, r) := alloc_lit_words s3 ws' in
      (s4, VPtr wl :: r)
  end.

(* words = append(words, w) from nil *)
Fixpoint append_each (s : state) (sl : slice) (vs : list val) : state * slice :=
  match vs with
  | [] => (s, sl)
  | v :: vs' => let '(s', sl') := go_append zero s sl [v] in append_each s' sl' vs'
  end.

Definition alias_def (s : state) (al : alias_tab) (name : str) (ws : list str) (blank : bool)
  : state * alias_tab :=
  let '(s1, wl) := alloc_lit_words s ws in
  let '(s2, sl) := append_each s1 SNil wl in
  (s2, (name, (sl, blank)) :: al).

(* ------------------------------------------------------------------ *)
(* 2. FieldsSeq: word := *word; syntax.SplitBraces(&word)              *)

Inductive leaf := LOld (i : nat) | LLit (v : str).
Inductive newpart := NLeaf (l : leaf) | NBrace (seq : bool) (elems : list (list leaf)).

Section Abstract.
(* what SplitBraces parses out of the parts (Some v = a Lit with value v, None = another part);
   None = "no braces, word left untouched" *)
Variable splitter : list (option str) -> option (list newpart).
(* the strings a {x..y[..z]} sequence stands for, from the literals of its elements *)
Variable seq_values : list str -> list str.
(* the fields a word expands to (reads the whole state, writes nothing) *)
Variable expand_word : state -> loc -> list str.

Definition part_view (s : state) (v : val) : option str :=
  match v with VPtr l => lit_value s l | _ => None end.

(* acc.Parts = append(acc.Parts, wp) / addLit(&l2) *)
Definition build_leaf (s : state) (orig : list val) (acc : slice) (lf : leaf) : state * slice :=
  match lf with
  | LOld i => go_append zero s acc [nth i orig VNilv]
  | LLit v => let '(s1, l) := halloc s [VTag 0; VStr v] in go_append zero s1 acc [VPtr l]
  end.

Fixpoint build_leaves (s : state) (orig : list val) (acc : slice) (lfs : list leaf) : state * slice :=
  match lfs with
  | [] => (s, acc)
  | lf :: r => let '(s1, acc1) := build_leaf s orig acc lf in build_leaves s1 orig acc1 r
  end.

(* the element words of one BraceExp: acc = &Word{}; cur.Elems = append(cur.Elems, acc) *)
Fixpoint build_elems (s : state) (orig : list val) (acc : slice) (es : list (list leaf)) : state * slice :=
  match es with
  | [] => (s, acc)
  | e :: r =>
      let '(s1, ps) := build_leaves s orig SNil e in
      let '(s2, w) := halloc s1 [VTag 1; VSl ps] in
      let '(s3, acc1) := go_append zero s2 acc [VPtr w] in
      build_elems s3 orig acc1 r
  end.

Fixpoint build_parts (s : state) (orig : list val) (acc : slice) (nps : list newpart) : state * slice :=
  match nps with
  | [] => (s, acc)
  | NLeaf lf :: r => let '(s1, acc1) := build_leaf s orig acc lf in build_parts s1 orig acc1 r
  | NBrace sq es :: r =>
      let '(s1, el) := build_elems s orig SNil es in
      let '(s2, b) := halloc s1 [VTag 2; VBool sq; VSl el] in
      let '(s3, acc1) := go_append zero s2 acc [VPtr b] in
      build_parts s3 orig acc1 r
  end.

(* SplitBraces(word): builds top from fresh slices, then *word = *top *)
Definition split_braces (s : state) (w : loc) : res (state * bool) :=
  do p <- word_parts s w;
  let orig := elems s p in
  match splitter (map (part_view s) orig) with
  | None => Ok (s, false)
  | Some nps =>
      let '(s1, top) := build_parts s orig SNil nps in
      Ok (hwrite s1 w 1 [VSl top], true)
  end.

(* THE MUTANT: FieldsSeq without the copy would call split_braces on the tree's word *)
(* the code: word := *word (a new Word object with the same Parts header) *)
Definition fields_word (s : state) (w : loc) : res (state * loc * bool) :=
  match obj s w with
  | [VTag 1; VSl p] =>
      let '(s1, c) := halloc s [VTag 1; VSl p] in
      do r <- split_braces s1 c;
      let '(s2, b) := r in Ok (s2, c, b)
  | _ => Panic
  end.

(* ------------------------------------------------------------------ *)
(* 3. bracesSeqRec                                                      *)

Definition brace_view (s : state) (v : val) : option (bool * slice) :=
  match v with
  | VPtr l => match obj s l with [VTag 2; VBool sq; VSl el] => Some (sq, el) | _ => None end
  | _ => None
  end.

(* w.Parts = slices.Concat(left, w.Parts) for every yielded word *)
Fixpoint prepend_left (s : state) (left : slice) (ws : list loc) : res state :=
  match ws with
  | [] => Ok s
  | w :: r =>
      do p <- word_parts s w;
      let '(s1, c) := concat zero s [left; p] in
      prepend_left (hwrite s1 w 1 [VSl c]) left r
  end.

Fixpoint elem_lits (s : state) (es : list val) : list str :=
  match es with
  | [] => []
  | VPtr w :: r => (match word_lit s w with Ok v => v | _ => [] end) :: elem_lits s r
  | _ :: r => [] :: elem_lits s r
  end.

(* the recursion of bracesSeqRec is tied through [rec] (= braces_rec with less fuel) *)
Section BracesBody.
Variable rec : state -> loc -> res (state * list loc).

(* expand(&next): recurse, then w.Parts = Concat(left, w.Parts) for what it yields *)
Definition expand_next (left : slice) (s : state) (next : loc) (acc : list loc) : res (state * list loc) :=
  do r <- rec s next;
  let '(s1, ws) := r in
  do s2 <- prepend_left s1 left ws;
  Ok (s2, acc ++ ws).

(* for n := from; ...; n += incr { next := *word; lit := &Lit{...};
     next.Parts = append([]WordPart{lit}, rest...); expand(&next) } *)
Fixpoint each_seq (w : loc) (left rest : slice) (vs : list str) (s : state) (acc : list loc)
  : res (state * list loc) :=
  match vs with
  | [] => Ok (s, acc)
  | v :: vs' =>
      let '(s1, next) := halloc s (obj s w) in
      let '(s2, lit) := halloc s1 [VTag 0; VStr v] in
      let '(s3, one) := alloc_list zero s2 [VPtr lit] 1 in
      let '(s4, np) := go_append zero s3 one (elems s3 rest) in
      do r <- expand_next left (hwrite s4 next 1 [VSl np]) next acc;
      let '(s5, acc') := r in each_seq w left rest vs' s5 acc'
  end.

(* for _, elem := range br.Elems { next := *word; next.Parts = Concat(elem.Parts, rest); expand(&next) } *)
Fixpoint each_elem (w : loc) (left rest : slice) (es : list val) (s : state) (acc : list loc)
  : res (state * list loc) :=
  match es with
  | [] => Ok (s, acc)
  | ev :: es' =>
      do e <- ptr_of ev;
      do ep <- word_parts s e;
      let '(s1, next) := halloc s (obj s w) in
      let '(s2, np) := concat zero s1 [ep; rest] in
      do r <- expand_next left (hwrite s2 next 1 [VSl np]) next acc;
      let '(s3, acc') := r in each_elem w left rest es' s3 acc'
  end.

(* for i, wp := range word.Parts { ... } ; return yield(&syntax.Word{Parts: left}) *)
Fixpoint scan (w : loc) (parts : slice) (todo : list val) (i : nat) (s : state) (left : slice)
  : res (state * list loc) :=
  match todo with
  | [] => let '(s1, nw) := halloc s [VTag 1; VSl left] in Ok (s1, [nw])
  | wp :: todo' =>
      match brace_view s wp with
      | None => let '(s1, left1) := go_append zero s left [wp] in scan w parts todo' (S i) s1 left1
      | Some (sq, el) =>
          do rest <- reslice parts (i + 1) (s_len parts);
          if sq then each_seq w left rest (seq_values (elem_lits s (elems s el))) s []
          else each_elem w left rest (elems s el) s []
      end
  end.
End BracesBody.

Fixpoint braces_rec (fuel : nat) (s : state) (w : loc) : res (state * list loc) :=
  match fuel with
  | O => OutOfFuel
  | S fuel' =>
      do parts <- word_parts s w;
      scan (braces_rec fuel') w parts (elems s parts) 0 s SNil
  end.

(* FieldsSeq on one word: copy, split, expand braces when there are any *)
Definition fields_one (fuel : nat) (s : state) (w : loc) : res state :=
  do r <- fields_word s w;
  let '(s1, c, b) := r in
  if b then do r2 <- braces_rec fuel s1 c; Ok (fst r2) else Ok s1.

Fixpoint fields_all (fuel : nat) (s : state) (ws : list val) : res state :=
  match ws with
  | [] => Ok s
  | wv :: r => do w <- ptr_of wv; do s1 <- fields_one fuel s w; fields_all fuel s1 r
  end.

(* ------------------------------------------------------------------ *)
(* 4. flattenAssigns ("declare $x")                                    *)

Definition new_assign (s : state) (field : str) : state * loc :=
  match cut_byte 61 field with
  | None =>
      let '(s1, n) := halloc s [VTag 0; VStr field] in
      halloc s1 [VTag 3; VPtr n; VNilv; VBool true]
  | Some (name, v) =>
      let '(s1, n) := halloc s [VTag 0; VStr name] in
      let '(s2, lv) := halloc s1 [VTag 0; VStr v] in
      let '(s3, ps) := alloc_list zero s2 [VPtr lv] 1 in
      let '(s4, w) := halloc s3 [VTag 1; VSl ps] in
      halloc s4 [VTag 3; VPtr n; VPtr w; VBool false]
  end.

Fixpoint new_assigns (s : state) (fields : list str) : state * list loc :=
  match fields with
  | [] => (s, [])
  | f :: r => let '(s1, a) := new_assign s f in let '(s2, l) := new_assigns s1 r in (s2, a :: l)
  end.

(* yields the assigns, in order *)
Fixpoint flatten_assigns (fuel : nat) (s : state) (args : list val) : res (state * list loc) :=
  match args with
  | [] => Ok (s, [])
  | av :: r =>
      do a <- ptr_of av;
      match obj s a with
      | [VTag 3; VPtr _; _; _] =>                         (* as.Name != nil *)
          do x <- flatten_assigns fuel s r; let '(s1, l) := x in Ok (s1, a :: l)
      | [VTag 3; VNilv; VPtr w; _] =>
          do s1 <- fields_one fuel s w;                   (* r.fields(as.Value) *)
          let '(s2, l1) := new_assigns s1 (expand_word s1 w) in
          do x <- flatten_assigns fuel s2 r; let '(s3, l2) := x in Ok (s3, l1 ++ l2)
      | _ => Panic
      end
  end.

(* ------------------------------------------------------------------ *)
(* 5. hdocString, the <<- loop                                          *)

Fixpoint split_nl (v : str) (cur : str) : list str :=
  match v with
  | [] => [rev cur]
  | c :: r => if N.eqb c 10 then rev cur :: split_nl r [] else split_nl r (c :: cur)
  end.

Fixpoint trim_tabs (v : str) : str :=
  match v with c :: r => if N.eqb c 9 then trim_tabs r else v | [] => [] end.

(* flushLine: r.hdocWord(&syntax.Word{Parts: cur}, quoted); cur = cur[:0] *)
Definition flush_line (s : state) (cur : slice) : res (state * slice) :=
  let '(s1, _) := halloc s [VTag 1; VSl cur] in
  do c0 <- reslice cur 0 0; Ok (s1, c0).

Fixpoint hdoc_pieces (s : state) (cur : slice) (pieces : list str) (first : bool) : res (state * slice) :=
  match pieces with
  | [] => Ok (s, cur)
  | p :: r =>
      do x <- (if first then Ok (s, cur) else flush_line s cur);
      let '(s1, cur1) := x in
      let '(s2, l) := halloc s1 [VTag 0; VStr (trim_tabs p)] in
      let '(s3, cur2) := go_append zero s2 cur1 [VPtr l] in
      hdoc_pieces s3 cur2 r false
  end.

Fixpoint hdoc_parts (s : state) (cur : slice) (ps : list val) : res (state * slice) :=
  match ps with
  | [] => Ok (s, cur)
  | wp :: r =>
      match part_view s wp with
      | None => let '(s1, cur1) := go_append zero s cur [wp] in hdoc_parts s1 cur1 r
      | Some v => do x <- hdoc_pieces s cur (split_nl v []) true;
                  let '(s1, cur1) := x in hdoc_parts s1 cur1 r
      end
  end.

Definition hdoc_dash (s : state) (rd : loc) : res state :=
  match obj s rd with
  | [VTag 6; VNilv] => Ok s
  | [VTag 6; VPtr h] =>
      do p <- word_parts s h;
      do x <- hdoc_parts s SNil (elems s p);
      let '(s1, cur) := x in
      do y <- flush_line s1 cur; Ok (fst y)
  | _ => Panic
  end.

End Abstract.

(* ------------------------------------------------------------------ *)
(* 6. the environment: overlayEnviron over the caller's Environ        *)

(* innermost first: (object holding the values map, funcScope); the parent of
   the last overlay is the caller's Environ, the object [caller] *)
Definition env_stack := list (loc * bool).

Fixpoint ent_find (o : list val) (name : str) : option var :=
  match o with
  | [] => None
  | VEnt n v :: r => if str_eqb n name then Some v else ent_find r name
  | _ :: r => ent_find r name
  end.

Fixpoint ent_del (o : list val) (name : str) : list val :=
  match o with
  | [] => []
  | VEnt n v :: r => if str_eqb n name then ent_del r name else VEnt n v :: ent_del r name
  | x :: r => x :: ent_del r name
  end.

Definition ent_put (o : list val) (name : str) (v : var) : list val := VEnt name v :: ent_del o name.

Fixpoint env_get (s : state) (caller : loc) (e : env_stack) (name : str) : var :=
  match e with
  | [] => match ent_find (obj s caller) name with Some v => v | None => zero_var end
  | (l, _) :: parent =>
      match ent_find (obj s l) name with Some v => v | None => env_get s caller parent name end
  end.

Definition is_set (v : var) : bool := v_set v.   (* IsSet *)

(* overlayEnviron.Set.  With an empty stack the receiver would be the caller's
   Environ itself (o.parent.(expand.WriteEnviron).Set): a store into its object. *)
Fixpoint env_set (s : state) (caller : loc) (e : env_stack) (name : str) (vr : var) : res state :=
  match e with
  | [] => Ok (hset s caller (ent_put (obj s caller) name vr))
  | (l, fscope) :: parent =>
      let in_overlay := ent_find (obj s l) name in
      let prev0 := match in_overlay with Some p => p | None => zero_var end in
      if fscope && negb (v_local vr) && negb (v_local prev0) then env_set s caller parent name vr
      else
        let prev := match in_overlay with Some p => p | None => env_get s caller parent name end in
        let keep := match v_kind vr with KKeepValue => true | _ => false end in
        let vr1 := if keep then mkvar (v_set vr) (v_local vr) (v_exported vr) (v_readonly vr)
                                      (v_kind prev) (v_str prev) (v_list prev) else vr in
        if negb keep && v_readonly prev then ReadOnlyVar
        else if negb (is_set vr1) && v_local prev then
          Ok (hset s l (ent_put (obj s l) name
                 (mkvar (v_set vr1) true (v_exported vr1) (v_readonly vr1) (v_kind vr1) (v_str vr1) (v_list vr1))))
        else
          Ok (hset s l (ent_put (obj s l) name
                 (mkvar (v_set vr1) (v_local prev || v_local vr1) (v_exported vr1) (v_readonly vr1)
                        (v_kind vr1) (v_str vr1) (v_list vr1))))
  end.

(* setVarWithIndex, prev.Kind == Indexed: list = slices.Clone(prev.List);
   SetIndexedElem on the clone (k < len: list[k] = v, otherwise append) *)
Definition set_index (s : state) (caller : loc) (e : env_stack) (name : str) (k : nat) (v : str) : res state :=
  let prev := env_get s caller e name in
  let '(s1, l) := clone zero s (v_list prev) in
  do x <- (if Nat.ltb k (s_len l) then do s2 <- store s1 l k (VStr v); Ok (s2, l)
           else Ok (go_append zero s1 l [VStr v]));
  let '(s2, l2) := x in
  env_set s2 caller e name (mkvar true (v_local prev) (v_exported prev) (v_readonly prev) KIndexed (v_str prev) l2).

(* assignVal, name+=scalar on an indexed array: prev.List = slices.Clone(prev.List); prev.List[0] += s *)
Definition append_scalar (s : state) (caller : loc) (e : env_stack) (name : str) (v : str) : res state :=
  let prev := env_get s caller e name in
  let '(s1, l) := clone zero s (v_list prev) in
  do x <- (match elems s1 l with
           | VStr old :: _ => do s2 <- store s1 l 0 (VStr (old ++ v)); Ok (s2, l)
           | _ => Ok (go_append zero s1 l [VStr v])
           end);
  let '(s2, l2) := x in
  env_set s2 caller e name (mkvar true (v_local prev) (v_exported prev) (v_readonly prev) KIndexed (v_str prev) l2).

(* THE MUTANT (the code before fix d35f0af): no clone *)
Definition append_scalar_noclone (s : state) (caller : loc) (e : env_stack) (name : str) (v : str) : res state :=
  let prev := env_get s caller e name in
  let l := v_list prev in
  match elems s l with
  | VStr old :: _ => store s l 0 (VStr (old ++ v))
  | _ => Ok s
  end.

(* ------------------------------------------------------------------ *)
(* 7. programs: arbitrary sequences of these operations                *)

Inductive op :=
| OAliasDef (name : str) (ws : list str) (blank : bool)
| OCall (c : loc) (ea : bool)            (* alias expansion + fields of every argument *)
| OFields (w : loc)                      (* any other word handed to expand.Fields *)
| ODeclare (d : loc)                     (* flattenAssigns over a DeclClause *)
| OHdoc (rd : loc)
| OPushFunc | OPushSub | OPop
| OSetVar (name : str) (v : var)
| OSetIndex (name : str) (k : nat) (v : str)
| OAppendScalar (name : str) (v : str).

Record run_state := mkrs { rs_heap : state; rs_alias : alias_tab; rs_env : env_stack; rs_caller : loc }.

(* Reset: r.writeEnv = &overlayEnviron{parent: r.Env}.  The tree and the caller's
   Environ are everything that is on the heap before. *)
Definition start (h0 : list (list val)) (caller : loc) : run_state :=
  let '(s1, l) := halloc (mkst h0 []) [] in
  mkrs s1 [] [(l, false)] caller.

Section Run.
Variable splitter : list (option str) -> option (list newpart).
Variable seq_values : list str -> list str.
Variable expand_word : state -> loc -> list str.
Variable fuel : nat.

Definition exec_op (o : op) (r : run_state) : res run_state :=
  let s := rs_heap r in
  match o with
  | OAliasDef name ws blank =>
      let '(s1, al) := alias_def s (rs_alias r) name ws blank in
      Ok (mkrs s1 al (rs_env r) (rs_caller r))
  | OCall c ea =>
      do args <- call_args s c;
      do x <- alias_loop (S (s_len args)) ea (rs_alias r) s args 0;
      let '(s1, args1) := x in
      do s2 <- fields_all splitter seq_values fuel s1 (elems s1 args1);
      Ok (mkrs s2 (rs_alias r) (rs_env r) (rs_caller r))
  | OFields w =>
      do s1 <- fields_one splitter seq_values fuel s w;
      Ok (mkrs s1 (rs_alias r) (rs_env r) (rs_caller r))
  | ODeclare d =>
      match obj s d with
      | [VTag 5; VSl args] =>
          do x <- flatten_assigns splitter seq_values expand_word fuel s (elems s args);
          Ok (mkrs (fst x) (rs_alias r) (rs_env r) (rs_caller r))
      | _ => Panic
      end
  | OHdoc rd =>
      do s1 <- hdoc_dash s rd;
      Ok (mkrs s1 (rs_alias r) (rs_env r) (rs_caller r))
  | OPushFunc =>
      let '(s1, l) := halloc s [] in Ok (mkrs s1 (rs_alias r) ((l, true) :: rs_env r) (rs_caller r))
  | OPushSub =>
      let '(s1, l) := halloc s [] in Ok (mkrs s1 (rs_alias r) ((l, false) :: rs_env r) (rs_caller r))
  | OPop =>
      match rs_env r with
      | _ :: (_ :: _) as rest => Ok (mkrs s (rs_alias r) rest (rs_caller r))
      | _ => Ok r
      end
  | OSetVar name v =>
      match env_set s (rs_caller r) (rs_env r) name v with
      | Ok s1 => Ok (mkrs s1 (rs_alias r) (rs_env r) (rs_caller r))
      | Err _ => Ok r                                   (* readonly: an error message, no store *)
      | Panic => Panic
      end
  | OSetIndex name k v =>
      match set_index s (rs_caller r) (rs_env r) name k v with
      | Ok s1 => Ok (mkrs s1 (rs_alias r) (rs_env r) (rs_caller r))
      | Err _ => Ok r
      | Panic => Panic
      end
  | OAppendScalar name v =>
      match append_scalar s (rs_caller r) (rs_env r) name v with
      | Ok s1 => Ok (mkrs s1 (rs_alias r) (rs_env r) (rs_caller r))
      | Err _ => Ok r
      | Panic => Panic
      end
  end.

Fixpoint exec_ops (os : list op) (r : run_state) : res run_state :=
  match os with
  | [] => Ok r
  | o :: os' => do r1 <- exec_op o r; exec_ops os' r1
  end.

End Run.

(* ---- Spec ---- *)
(* the region (all objects below [b]) has the same contents *)
Definition region_same (b : nat) (h h' : list (list val)) : Prop :=
  forall l, l < b -> nth l h' [] = nth l h [].
(* no logged store targets the region *)
Definition no_store_below (b : nat) (lg : list (loc * nat * nat)) : Prop :=
  Forall (fun w => b <= fst (fst w)) lg.
