(* Interp/Reuse.v — C30: Runner reuse.

   Part 1 (Reset): the Runner as a list of field values, positionally aligned
   with a table of rows (one per field of interp.Runner that is not mere
   storage).  The table is GENERATED on every run (coq/Gen/RunnerFields.v) from
   the behaviour of the real code:
     f_written  some Run left the field different from its fresh value
     f_carried  Reset keeps the field's value (the composite literal in
                Runner.Reset copies it: Env, the handlers, orig*, usedNew, ...)
     f_reads    the fields whose value before Reset influences this field's
                value after Reset (Dir <- origDir, writeEnv <- Env, origDir, ...)
   [run] may read every field and writes only the fields the table marks
   written; [reset] keeps carried fields and recomputes every other field from
   the fields it reads.  Both are otherwise arbitrary (Section variables).

   Part 2 (incremental Run): Runner.Run on a File vs one Run per top-level
   statement, transliterated from interp/api.go (Run, Exited) and
   interp/runner.go (stmts, stmt, stop, trapCallback); what a statement does
   (stmtSync) is an arbitrary function of the whole state.
   NO PROOFS in this file. *)
From Verif Require Import Base.Str.
From Coq Require Import String.

(* ------------------------------------------------------------------ *)
(* Part 1                                                              *)

Record row := mkrow {
  f_name : string;
  f_written : bool;
  f_carried : bool;
  f_reads : list nat;      (* positions in the table *)
  f_pokeable : bool        (* the analysis could perturb and observe the field *)
}.
Definition table := list row.

Fixpoint mapi_from {A B} (f : nat -> A -> B) (i : nat) (l : list A) : list B :=
  match l with [] => [] | a :: r => f i a :: mapi_from f (S i) r end.
Definition mapi {A B} (f : nat -> A -> B) (l : list A) : list B := mapi_from f 0 l.

Definition mem_nat (i : nat) (l : list nat) : bool := existsb (Nat.eqb i) l.

(* every field was analysed; no field is both carried over by Reset and written
   by Run; Reset reads only fields that are carried and never written *)
Definition row_covered (tab : table) (r : row) : bool :=
  f_pokeable r && negb (f_carried r && f_written r) &&
  forallb (fun g => match nth_error tab g with
                    | Some rg => f_carried rg && negb (f_written rg)
                    | None => false
                    end) (f_reads r).
Definition fields_covered (tab : table) : bool := forallb (row_covered tab) tab.

Section Reset.
Variable val : Type.          (* field values (canonical snapshots) *)
Variable dflt : val.
Variable prog obs : Type.
Variable tab : table.
(* what Reset computes for field i, given the fields it may read *)
Variable reset_fn : nat -> list val -> val.
(* what running a program computes: new values for every field and the
   observations (stdout, stderr, exit status); it reads the whole runner *)
Variable step : prog -> list val -> list val * obs.

Definition runner := list val.
Definition get (r : runner) (i : nat) : val := nth i r dflt.

(* the part of the runner visible to the recomputation of one field *)
Definition mask (reads : list nat) (r : runner) : runner :=
  mapi (fun j (_ : row) => if mem_nat j reads then get r j else dflt) tab.

Definition reset (r : runner) : runner :=
  mapi (fun i rw => if f_carried rw then get r i else reset_fn i (mask (f_reads rw) r)) tab.

Definition run (p : prog) (r : runner) : runner * obs :=
  let '(r1, o) := step p r in
  (mapi (fun i rw => if f_written rw then get r1 i else get r i) tab, o).

Definition runs (hist : list prog) (r : runner) : runner :=
  fold_left (fun r p => fst (run p r)) hist r.

End Reset.

(* ------------------------------------------------------------------ *)
(* Part 2                                                              *)

Record exitst := mkex { e_code : N; e_returning : bool; e_exiting : bool }.
Definition ex0 : exitst := mkex 0 false false.

Section Incr.
Variable Sigma : Type.        (* everything else: variables, functions, aliases, options, traps, cwd, output *)
Variable stmt_t : Type.

Record rs := mkrs { sg : Sigma; ex : exitst; lastex : exitst; htrap : bool; fname : str }.

Variable body : stmt_t -> rs -> rs.                  (* stmtSync, or starting a background job *)
Variable noexec : Sigma -> bool.                     (* r.opts[optNoExec] *)
Variable exit_trap : Sigma -> option (list stmt_t).  (* r.callbackExit, parsed; None: "" or a parse error *)

Definition set_ex (r : rs) (e : exitst) : rs := mkrs (sg r) e (lastex r) (htrap r) (fname r).
Definition set_lastex (r : rs) (e : exitst) : rs := mkrs (sg r) (ex r) e (htrap r) (fname r).
Definition set_htrap (r : rs) (b : bool) : rs := mkrs (sg r) (ex r) (lastex r) b (fname r).
Definition set_fname (r : rs) (n : str) : rs := mkrs (sg r) (ex r) (lastex r) (htrap r) n.

(* Runner.stop (the context is not cancelled) *)
Definition stop (r : rs) : bool :=
  (negb (htrap r) && (e_returning (ex r) || e_exiting (ex r))) || noexec (sg r).

(* Runner.stmt *)
Definition stmt (st : stmt_t) (r : rs) : rs :=
  if stop r then r
  else let r1 := body st (set_ex r ex0) in set_lastex r1 (ex r1).

Definition stmts (sts : list stmt_t) (r : rs) : rs := fold_left (fun r st => stmt st r) sts r.

(* Runner.trapCallback(ctx, r.callbackExit, "exit") *)
Definition trap_callback (r : rs) : rs :=
  match exit_trap (sg r) with
  | None => r
  | Some sts =>
      if htrap r then r
      else
        let r1 := set_htrap r true in
        let r2 := stmts sts (set_lastex r1 (ex r1)) in
        set_htrap (set_lastex (set_ex r2 (ex r1)) (lastex r1)) false
  end.

(* Runner.Run(ctx, *syntax.File) *)
Definition run_file (name : str) (sts : list stmt_t) (r : rs) : rs :=
  let r1 := set_fname (set_ex r ex0) name in
  let r2 := stmts sts r1 in
  trap_callback (set_lastex r2 (ex r2)).

(* Runner.Run(ctx, *syntax.Stmt) *)
Definition run_stmt (st : stmt_t) (r : rs) : rs :=
  let r1 := set_fname (set_ex r ex0) [] in
  let r2 := stmt st r1 in
  let r3 := set_lastex r2 (ex r2) in
  if e_exiting (ex r3) then trap_callback r3 else r3.

(* for _, stmt := range file.Stmts { r.Run(ctx, stmt); if r.Exited() { break } } *)
Fixpoint run_incr (sts : list stmt_t) (r : rs) : rs :=
  match sts with
  | [] => r
  | st :: rest => let r1 := run_stmt st r in if e_exiting (ex r1) then r1 else run_incr rest r1
  end.

(* what a statement body may be assumed to do at the top level of a program *)
Record body_ok : Prop := {
  (* `return` outside a function or sourced file fails without setting returning *)
  b_noreturn : forall st r, e_returning (ex (body st r)) = false;
  b_fname : forall st r, fname (body st r) = fname r;
  (* trapCallback (ERR) restores handlingTrap *)
  b_htrap : forall st r, htrap (body st r) = htrap r;
}.
(* KNOWN CLASS (KF-C30-1): a statement that turns noexec on and itself ends with a
   non-zero status, e.g. `! set -n` or `set -n -Z` *)
Definition noexec_clean : Prop :=
  forall st r, noexec (sg (body st r)) = true -> ex (body st r) = ex0.

(* a Runner right after Reset, at the top level *)
Definition fresh_top (r : rs) : Prop :=
  ex r = ex0 /\ lastex r = ex0 /\ htrap r = false /\ fname r = [].

End Incr.
