(* Interp/Core.v — the core shell language shared by Interp/Flags.v (Impl: the flag
   machine of interp/runner.go) and Interp/Sem.v (Spec: structured big-step
   semantics in the style of the POSIX/bash description), plus the pure helpers
   both use (word expansion, strconv.Atoi, variable/function tables).
   NO PROOFS in this file. *)
From Verif Require Import Base.Str.
From Coq Require Import Ascii String.
Open Scope N_scope.

(* ---- strings -------------------------------------------------------------- *)
Definition bs (s : string) : str := List.map N_of_ascii (list_ascii_of_string s).

(* ---- syntax ---------------------------------------------------------------- *)
(* A word is a concatenation of literal text, "$x" (double-quoted, so exactly
   one field, no splitting, no globbing), "$?" and "$(list)" (double-quoted command
   substitution). *)
Inductive wpart :=
| WLit (s : str)
| WVar (x : str)
| WStatus
| WSubst (l : list stmt)                       (* "$( l )"                       CmdSubst              *)

(* case patterns: a word compared literally (its expansions are quoted, its
   literal text has no pattern metacharacters) or "*" *)
with pat := PWord (w : list wpart) | PAny

with cmd :=
| CAssign (x : str) (w : list wpart)           (* x=w                            CallExpr without args *)
| CCall (w : list wpart) (ws : list (list wpart)) (* w ws...                     CallExpr              *)
| CBlock (ss : list stmt)                      (* { ss; }                        Block                 *)
| CSub (ss : list stmt)                        (* ( ss )                         Subshell              *)
| CAnd (x y : stmt)                            (* x && y                         BinaryCmd AndStmt     *)
| COr (x y : stmt)                             (* x || y                         BinaryCmd OrStmt      *)
| CPipe (x y : stmt)                           (* x | y                          BinaryCmd Pipe        *)
| CIf (c t : list stmt) (e : option cmd)       (* if c; then t; [else-part] fi   IfClause; else = CIf [] t None *)
| CWhile (until : bool) (c b : list stmt)      (* while/until c; do b; done      WhileClause           *)
| CFor (x : str) (items : list (list wpart)) (b : list stmt)   (* for x in items; do b; done    ForClause/WordIter *)
| CCase (w : list wpart) (items : list (list pat * list stmt)) (* case w in p|p) ss;; ... esac  CaseClause, ";;" only *)
| CFunc (name : str) (body : stmt)             (* name() body                    FuncDecl              *)
with stmt :=
| Stmt (neg : bool) (c : cmd).                 (* [!] c                          Stmt{Negated, Cmd}    *)

Definition word := list wpart.

Definition prog := list stmt.

(* ---- tables ---------------------------------------------------------------- *)
Fixpoint lookup {A} (k : str) (l : list (str * A)) : option A :=
  match l with
  | [] => None
  | (k', v) :: l' => if str_eqb k k' then Some v else lookup k l'
  end.

(* update in place if present, else append: the result is a function of the
   map contents only through [lookup]; the order is kept canonical so that two
   machines doing the same assignments produce equal lists *)
Fixpoint update {A} (k : str) (v : A) (l : list (str * A)) : list (str * A) :=
  match l with
  | [] => [(k, v)]
  | (k', v') :: l' => if str_eqb k k' then (k, v) :: l' else (k', v') :: update k v l'
  end.

(* ---- decimal ---------------------------------------------------------------- *)
Definition is_digit (c : N) : bool := (48 <=? c) && (c <=? 57).

Fixpoint digits_val (s : str) (acc : N) : option N :=
  match s with
  | [] => Some acc
  | c :: s' => if is_digit c then digits_val s' (acc * 10 + (c - 48)) else None
  end.

Definition max_int64 : Z := 9223372036854775807%Z.

(* strconv.Atoi: optional sign, at least one digit, digits only, range of int (64 bit).
   None = error. *)
Definition atoi (s : str) : option Z :=
  let body (neg : bool) (d : str) :=
    match d with
    | [] => None
    | _ => match digits_val d 0 with
           | None => None
           | Some n =>
               let z := Z.of_N n in
               if neg then (if (z <=? max_int64 + 1)%Z then Some (- z)%Z else None)
               else (if (z <=? max_int64)%Z then Some z else None)
           end
    end in
  match s with
  | 45 :: d => body true d       (* '-' *)
  | 43 :: d => body false d      (* '+' *)
  | _ => body false s
  end.

(* uint8(n) *)
Definition to_uint8 (z : Z) : N := Z.to_N (z mod 256).

(* strconv.Itoa of a uint8 status *)
Definition digit_char (n : N) : N := 48 + n.
Definition itoa_u8 (n : N) : str :=
  if n <? 10 then [digit_char n]
  else if n <? 100 then [digit_char (n / 10); digit_char (n mod 10)]
  else [digit_char (n / 100); digit_char ((n / 10) mod 10); digit_char (n mod 10)].

(* ---- expansion -------------------------------------------------------------- *)
Definition getvar (vars : list (str * str)) (x : str) : str :=
  match lookup x vars with Some v => v | None => [] end.

(* the parts that expand without running anything *)
Definition part_pure (vars : list (str * str)) (last : N) (p : wpart) : option str :=
  match p with
  | WLit s => Some s
  | WVar x => Some (getvar vars x)
  | WStatus => Some (itoa_u8 last)
  | WSubst _ => None
  end.

Definition has_subst (w : word) : bool :=
  existsb (fun p => match p with WSubst _ => true | _ => false end) w.

Definition pat_has_subst (p : pat) : bool := match p with PWord w => has_subst w | PAny => false end.

(* expansion of a word without command substitutions (case patterns) *)
Fixpoint expand_pure (vars : list (str * str)) (last : N) (w : word) : str :=
  match w with
  | [] => []
  | p :: w' =>
      match part_pure vars last p with Some a => a | None => [] end ++ expand_pure vars last w'
  end.

(* cfg.cmdSubst: NUL bytes removed, then strings.TrimRight(out, "\n") *)
Fixpoint trim_right_nl (s : str) : str :=
  match s with
  | [] => []
  | c :: s' => match trim_right_nl s' with
               | [] => if N.eqb c 10 then [] else [c]
               | t => c :: t
               end
  end.
Definition subst_output (out : str) : str := trim_right_nl (List.filter (fun c => negb (N.eqb c 0)) out).

(* echo: arguments joined by one space, then newline *)
Fixpoint join_sp (l : list str) : str :=
  match l with
  | [] => []
  | [a] => a
  | a :: l' => a ++ 32 :: join_sp l'
  end.
Definition echo_bytes (args : list str) : str := join_sp args ++ [10].

(* ---- names of the builtins -------------------------------------------------- *)
Definition n_echo := Eval vm_compute in bs "echo".
Definition n_true := Eval vm_compute in bs "true".
Definition n_false := Eval vm_compute in bs "false".
Definition n_colon := Eval vm_compute in bs ":".
Definition n_break := Eval vm_compute in bs "break".
Definition n_continue := Eval vm_compute in bs "continue".
Definition n_return := Eval vm_compute in bs "return".
Definition n_exit := Eval vm_compute in bs "exit".
Definition n_set := Eval vm_compute in bs "set".
Definition n_me := Eval vm_compute in bs "-e".
Definition n_pe := Eval vm_compute in bs "+e".
Definition n_mo := Eval vm_compute in bs "-o".
Definition n_po := Eval vm_compute in bs "+o".
Definition n_pipefail := Eval vm_compute in bs "pipefail".
Definition n_dn := Eval vm_compute in bs "-n".
Definition n_dE := Eval vm_compute in bs "-E".
Definition is_echo_opt (a : str) : bool :=
  str_eqb a n_dn || str_eqb a n_me || str_eqb a n_dE.

(* interp.IsBuiltin minus the builtins modelled here: a call to one of these is
   outside the model (result flagged [unsup]) *)
Definition other_builtins : list str := Eval vm_compute in List.map bs
  ["alias"; "bg"; "cd"; "command"; "fc"; "fg"; "getopts"; "hash"; "jobs"; "kill"; "newgrp"; "pwd";
   "read"; "umask"; "unalias"; "wait"; "."; "eval"; "exec"; "export"; "readonly"; "shift"; "times";
   "trap"; "unset"; "source"; "bind"; "builtin"; "caller"; "compgen"; "complete"; "compopt";
   "declare"; "typeset"; "dirs"; "disown"; "enable"; "history"; "help"; "let"; "local"; "logout";
   "mapfile"; "readarray"; "popd"; "printf"; "pushd"; "shopt"; "suspend"; "test"; "["; "type"; "ulimit"]%string.

Definition is_other_builtin (name : str) : bool := existsb (str_eqb name) other_builtins.

(* statement kinds that stmtSync treats specially *)
Definition is_andor (c : cmd) : bool := match c with CAnd _ _ | COr _ _ => true | _ => false end.
(* compoundNoErrExit: Block, IfClause, WhileClause, ForClause, CaseClause *)
Definition is_compound (c : cmd) : bool :=
  match c with CBlock _ | CIf _ _ _ | CWhile _ _ _ | CFor _ _ _ | CCase _ _ => true | _ => false end.
