(* Interp/Builtins.v — model of the argument handling and indexing logic of the
   builtins of interp/builtin.go that index slices and strings, of interp.Params
   (api.go, the `set` builtin) with its flagParser, of Runner.lookupVar's
   positional parameters, of cutElemSubscript/unsetElem (vars.go) with
   internal.DeleteIndexedElem, and of the ${v:o:l} / ${@:o:l} / ${a[@]:o:l}
   slicing of expand/param.go and expand.sliceElems.

   Transliteration: EVERY Go index expression x[i], slice expression x[i:j] and
   slices.Delete in the modelled code is one of the partial operations
   idx / slice_from / slice_to / set_idx / delete_at below, which yield Panic when
   Go's run-time check fails.  (slice_to is stricter than Go, which allows
   x[:j] up to cap(x); a model that is stricter can only panic more often.)
   Library functions (strconv.Atoi, interp.atoi, strconv.Itoa, []rune(s),
   string(runes), strings.IndexRune, syntax.ValidName, Runner.changeDir) are
   Section variables: the theorems hold for every such function.  Concrete
   ASCII instances for the in-kernel evaluation by the check are at the end.
   The model describes the tree AFTER the fix: commits for shift / getopts
   (bounds checks); the pre-fix transliterations shift_prefix / getopts_next_prefix
   are kept for the refutation witnesses.
   Err is used only as "out of fuel" (OutOfFuel); builtin failures are Ok results
   with a non-zero status.  NO PROOFS in this file. *)
From Verif Require Import Base.Str.
From Coq Require Import Strings.String Strings.Ascii.
From Coq Require Import List.   (* again, so that length/concat are the List ones *)
Import ListNotations.
Open Scope Z_scope.

Definition b (s : String.string) : str :=
  map Ascii.N_of_ascii (String.list_ascii_of_string s).
Arguments b s%string.

Definition OutOfFuel {A} : res A := Err 4294967295%N.

Notation "x <- e ;; f" := (res_bind e (fun x => f))
  (at level 61, e at next level, right associativity).

(* ---------------------------------------------------------------- Go slices *)
Definition zlen {A} (l : list A) : Z := Z.of_nat (length l).

Definition idx {A} (l : list A) (i : Z) : res A :=
  if i <? 0 then Panic
  else match nth_error l (Z.to_nat i) with Some x => Ok x | None => Panic end.

Definition slice_from {A} (l : list A) (i : Z) : res (list A) :=
  if (i <? 0) || (zlen l <? i) then Panic else Ok (skipn (Z.to_nat i) l).

Definition slice_to {A} (l : list A) (j : Z) : res (list A) :=
  if (j <? 0) || (zlen l <? j) then Panic else Ok (firstn (Z.to_nat j) l).

Definition slice {A} (l : list A) (i j : Z) : res (list A) :=
  if (i <? 0) || (j <? i) || (zlen l <? j) then Panic
  else Ok (firstn (Z.to_nat (j - i)) (skipn (Z.to_nat i) l)).

(* x[i] = v *)
Definition set_idx {A} (l : list A) (i : Z) (v : A) : res (list A) :=
  if (i <? 0) || (zlen l <=? i) then Panic
  else Ok (firstn (Z.to_nat i) l ++ v :: skipn (S (Z.to_nat i)) l).

(* slices.Delete(l, i, i+1) *)
Definition delete_at {A} (l : list A) (i : Z) : res (list A) :=
  if (i <? 0) || (zlen l <? i + 1) then Panic
  else Ok (firstn (Z.to_nat i) l ++ skipn (S (Z.to_nat i)) l).

Definition is_empty {A} (l : list A) : bool := match l with [] => true | _ => false end.

Definition uint8 (n : Z) : Z := n mod 256.

(* ---------------------------------------------------------------- state *)
Record state := {
  params : list str;            (* r.Params *)
  og_arg : Z; og_rune : Z;      (* r.optState.argidx / runeidx *)
  vars : list (str * str);      (* scalar shell variables (OPTIND, OPTARG, PWD, ...) *)
  dirstack : list str;          (* r.dirStack *)
  dir : str;                    (* r.Dir *)
  in_loop : bool; in_func : bool; in_source : bool;
  brk : Z; cnt : Z;             (* breakEnclosing / contnEnclosing *)
  last_exit : Z;                (* r.lastExit.code *)
  bg : list Z;                  (* exit codes of r.bgProcs *)
  opts : list bool              (* r.opts[0..6], the posixOptsTable entries *)
}.

Definition set_params st v := {| params := v; og_arg := og_arg st; og_rune := og_rune st; vars := vars st;
  dirstack := dirstack st; dir := dir st; in_loop := in_loop st; in_func := in_func st; in_source := in_source st;
  brk := brk st; cnt := cnt st; last_exit := last_exit st; bg := bg st; opts := opts st |}.
Definition set_og st a r := {| params := params st; og_arg := a; og_rune := r; vars := vars st;
  dirstack := dirstack st; dir := dir st; in_loop := in_loop st; in_func := in_func st; in_source := in_source st;
  brk := brk st; cnt := cnt st; last_exit := last_exit st; bg := bg st; opts := opts st |}.
Definition set_vars st v := {| params := params st; og_arg := og_arg st; og_rune := og_rune st; vars := v;
  dirstack := dirstack st; dir := dir st; in_loop := in_loop st; in_func := in_func st; in_source := in_source st;
  brk := brk st; cnt := cnt st; last_exit := last_exit st; bg := bg st; opts := opts st |}.
Definition set_dirstack st v := {| params := params st; og_arg := og_arg st; og_rune := og_rune st; vars := vars st;
  dirstack := v; dir := dir st; in_loop := in_loop st; in_func := in_func st; in_source := in_source st;
  brk := brk st; cnt := cnt st; last_exit := last_exit st; bg := bg st; opts := opts st |}.
Definition set_dir st v := {| params := params st; og_arg := og_arg st; og_rune := og_rune st; vars := vars st;
  dirstack := dirstack st; dir := v; in_loop := in_loop st; in_func := in_func st; in_source := in_source st;
  brk := brk st; cnt := cnt st; last_exit := last_exit st; bg := bg st; opts := opts st |}.
Definition set_in_loop st v := {| params := params st; og_arg := og_arg st; og_rune := og_rune st; vars := vars st;
  dirstack := dirstack st; dir := dir st; in_loop := v; in_func := in_func st; in_source := in_source st;
  brk := brk st; cnt := cnt st; last_exit := last_exit st; bg := bg st; opts := opts st |}.
Definition set_in_func st v := {| params := params st; og_arg := og_arg st; og_rune := og_rune st; vars := vars st;
  dirstack := dirstack st; dir := dir st; in_loop := in_loop st; in_func := v; in_source := in_source st;
  brk := brk st; cnt := cnt st; last_exit := last_exit st; bg := bg st; opts := opts st |}.
Definition set_brk st v := {| params := params st; og_arg := og_arg st; og_rune := og_rune st; vars := vars st;
  dirstack := dirstack st; dir := dir st; in_loop := in_loop st; in_func := in_func st; in_source := in_source st;
  brk := v; cnt := cnt st; last_exit := last_exit st; bg := bg st; opts := opts st |}.
Definition set_cnt st v := {| params := params st; og_arg := og_arg st; og_rune := og_rune st; vars := vars st;
  dirstack := dirstack st; dir := dir st; in_loop := in_loop st; in_func := in_func st; in_source := in_source st;
  brk := brk st; cnt := v; last_exit := last_exit st; bg := bg st; opts := opts st |}.
Definition set_last st v := {| params := params st; og_arg := og_arg st; og_rune := og_rune st; vars := vars st;
  dirstack := dirstack st; dir := dir st; in_loop := in_loop st; in_func := in_func st; in_source := in_source st;
  brk := brk st; cnt := cnt st; last_exit := v; bg := bg st; opts := opts st |}.
Definition set_bg st v := {| params := params st; og_arg := og_arg st; og_rune := og_rune st; vars := vars st;
  dirstack := dirstack st; dir := dir st; in_loop := in_loop st; in_func := in_func st; in_source := in_source st;
  brk := brk st; cnt := cnt st; last_exit := last_exit st; bg := v; opts := opts st |}.
Definition set_opts st v := {| params := params st; og_arg := og_arg st; og_rune := og_rune st; vars := vars st;
  dirstack := dirstack st; dir := dir st; in_loop := in_loop st; in_func := in_func st; in_source := in_source st;
  brk := brk st; cnt := cnt st; last_exit := last_exit st; bg := bg st; opts := v |}.

(* variables: association list, first binding wins *)
Fixpoint var_get (vs : list (str * str)) (name : str) : option str :=
  match vs with
  | [] => None
  | (n, v) :: r => if str_eqb n name then Some v else var_get r name
  end.
Fixpoint var_del (vs : list (str * str)) (name : str) : list (str * str) :=
  match vs with
  | [] => []
  | (n, v) :: r => if str_eqb n name then var_del r name else (n, v) :: var_del r name
  end.
Definition var_set (vs : list (str * str)) (name val : str) : list (str * str) :=
  (name, val) :: var_del vs name.
(* r.envGet(name): "" when unset *)
Definition env_get (st : state) (name : str) : str :=
  match var_get (vars st) name with Some v => v | None => [] end.

(* what a builtin returns: the new state, exit.code, exit.exiting/returning, bytes written to stdout *)
Inductive flow := FNone | FExit | FReturn.
Record bres := { r_st : state; r_code : Z; r_flow : flow; r_out : str }.
Definition ret (st : state) (c : Z) : res bres :=
  Ok {| r_st := st; r_code := c; r_flow := FNone; r_out := [] |}.
Definition ret_out (st : state) (c : Z) (o : str) : res bres :=
  Ok {| r_st := st; r_code := c; r_flow := FNone; r_out := o |}.

(* ---------------------------------------------------------------- flagParser *)
Record fparser := { fp_cur : str; fp_rem : list str; fp_nil : bool }.
Definition fp_init (args : list str) : fparser := {| fp_cur := []; fp_rem := args; fp_nil := false |}.

Definition MINUS : N := 45.  Definition PLUS : N := 43.

Definition fp_more (p : fparser) : res (fparser * bool) :=
  if negb (is_empty (fp_cur p)) then Ok (p, true)
  else if zlen (fp_rem p) =? 0 then Ok ({| fp_cur := fp_cur p; fp_rem := []; fp_nil := true |}, false)
  else
    arg <- idx (fp_rem p) 0 ;;
    if str_eqb arg (b "--") then
      rem' <- slice_from (fp_rem p) 1 ;;
      Ok ({| fp_cur := fp_cur p; fp_rem := rem'; fp_nil := false |}, false)
    else if zlen arg =? 0 then Ok (p, false)
    else
      c <- idx arg 0 ;;
      if negb (N.eqb c MINUS) && negb (N.eqb c PLUS) then Ok (p, false) else Ok (p, true).

Definition fp_flag (p : fparser) : res (fparser * str) :=
  ap <- (if is_empty (fp_cur p) then
           a <- idx (fp_rem p) 0 ;;
           rem' <- slice_from (fp_rem p) 1 ;;
           Ok (a, {| fp_cur := []; fp_rem := rem'; fp_nil := fp_nil p |})
         else Ok (fp_cur p, {| fp_cur := []; fp_rem := fp_rem p; fp_nil := fp_nil p |})) ;;
  let (arg, p1) := ap in
  if 2 <? zlen arg then
    a1 <- slice_to arg 1 ;;
    a2 <- slice_from arg 2 ;;
    f <- slice_to arg 2 ;;
    Ok ({| fp_cur := a1 ++ a2; fp_rem := fp_rem p1; fp_nil := fp_nil p1 |}, f)
  else Ok (p1, arg).

Definition fp_value (p : fparser) : res (fparser * str) :=
  if zlen (fp_rem p) =? 0 then Ok (p, [])
  else
    a <- idx (fp_rem p) 0 ;;
    rem' <- slice_from (fp_rem p) 1 ;;
    Ok ({| fp_cur := fp_cur p; fp_rem := rem'; fp_nil := fp_nil p |}, a).

(* ---------------------------------------------------------------- set / interp.Params *)
(* posixOptsTable: index -> (flag byte, name) *)
Definition posix_tbl : list (N * str) :=
  [ (97%N, b "allexport"); (101%N, b "errexit"); (110%N, b "noexec"); (102%N, b "noglob");
    (117%N, b "nounset"); (120%N, b "xtrace"); (32%N, b "pipefail") ].

Fixpoint find_idx {A} (f : A -> bool) (l : list A) (i : nat) : option nat :=
  match l with [] => None | x :: r => if f x then Some i else find_idx f r (S i) end.
Definition opt_by_flag (c : N) : option nat := find_idx (fun e => N.eqb (fst e) c) posix_tbl 0.
Definition opt_by_name (n : str) : option nat := find_idx (fun e => str_eqb (snd e) n) posix_tbl 0.

Fixpoint set_nth {A} (l : list A) (i : nat) (v : A) : list A :=
  match l, i with
  | [], _ => []
  | _ :: r, O => v :: r
  | x :: r, S i' => x :: set_nth r i' v
  end.
Definition opt_on (st : state) (i : nat) : bool := nth i (opts st) false.

Definition TAB : N := 9.  Definition NL : N := 10.  Definition SP : N := 32.
(* printOptLine(name, enabled, true) for every posix option *)
Definition print_opts (st : state) : str :=
  concat (map (fun ie => snd (snd ie) ++ [TAB] ++ (if opt_on st (fst ie) then b "on" else b "off") ++ [NL])
              (combine (seq 0 7) posix_tbl)).
Definition print_set_opts (st : state) : str :=
  concat (map (fun ie => b "set " ++ (if opt_on st (fst ie) then b "-o" else b "+o") ++ [SP] ++ snd (snd ie) ++ [NL])
              (combine (seq 0 7) posix_tbl)).

(* result: state, stdout, 0 = nil error / 2 = error (the options set so far stay set) *)
Fixpoint params_loop (fuel : nat) (p : fparser) (st : state) (out : str) : res (state * str * Z) :=
  match fuel with
  | O => OutOfFuel
  | S fuel' =>
      pm <- fp_more p ;;
      let (p1, more) := pm in
      if negb more then
        Ok (if fp_nil p1 then st else set_params st (fp_rem p1), out, 0)
      else
        pf <- fp_flag p1 ;;
        let (p2, flag) := pf in
        if str_eqb flag [MINUS] || str_eqb flag [PLUS] then
          Ok (if 0 <? zlen (fp_rem p2) then set_params st (fp_rem p2) else st, out, 0)
        else
          c0 <- idx flag 0 ;;
          c1 <- idx flag 1 ;;
          let enable := N.eqb c0 MINUS in
          if negb (N.eqb c1 111) then                       (* flag[1] != 'o' *)
            match opt_by_flag c1 with
            | None => Ok (st, out, 2)
            | Some i => params_loop fuel' p2 (set_opts st (set_nth (opts st) i enable)) out
            end
          else
            pv <- fp_value p2 ;;
            let (p3, value) := pv in
            if is_empty value && enable then params_loop fuel' p3 st (out ++ print_opts st)
            else if is_empty value then params_loop fuel' p3 st (out ++ print_set_opts st)
            else match opt_by_name value with
                 | None => Ok (st, out, 2)
                 | Some i => params_loop fuel' p3 (set_opts st (set_nth (opts st) i enable)) out
                 end
  end.

(* every iteration consumes at least one byte of an argument or one argument *)
Definition params_fuel (args : list str) : nat :=
  S (fold_right (fun a n => (length a + 2 + n)%nat) O args).

Definition bi_set (args : list str) (st : state) : res bres :=
  r <- params_loop (params_fuel args) (fp_init args) st [] ;;
  let '(st', out, code) := r in ret_out st' code out.

(* ---------------------------------------------------------------- positional parameters *)
(* lookupVar case "1".."9": i := int(name[0]-'1'); if i < len(r.Params) { r.Params[i] } *)
Definition positional (c : N) (st : state) : res (option str) :=
  if (49 <=? Z.of_N c) && (Z.of_N c <=? 57) then
    let i := Z.of_N c - 49 in
    if i <? zlen (params st) then v <- idx (params st) i ;; Ok (Some v) else Ok None
  else Ok None.

(* ---------------------------------------------------------------- cutElemSubscript *)
(* cutElemSubscript *)
Definition cut_elem_subscript (valid_name : str -> bool) (arg : str) : res (option (str * str)) :=
  match index_byte 91 arg with            (* '[' *)
  | None => Ok None
  | Some i0 =>
      let i := Z.of_nat i0 in
      let has_suffix := match rev arg with c :: _ => N.eqb c 93 | [] => false end in   (* "]" *)
      if (0 <? i) && has_suffix then
        name <- slice_to arg i ;;
        if valid_name name then
          sub <- slice arg (i + 1) (zlen arg - 1) ;;
          Ok (Some (name, sub))
        else Ok None
      else Ok None
  end.

Definition MAXI : Z := 9223372036854775807.
Definition MINI : Z := -9223372036854775808.

Section Ext.
(* strconv.Atoi: (value, err == nil); on a range error the value is the clamped one *)
Variable atoi : str -> Z * bool.
(* interp.atoi: TrimSpace + ParseInt, errors ignored *)
Variable atoi64 : str -> Z.
Variable itoa : Z -> str.
Variable runes_of : str -> list N.       (* []rune(s) *)
Variable str_of_runes : list N -> str.   (* string(runes) *)
Variable index_rune : str -> N -> Z.     (* strings.IndexRune: byte offset or -1 *)
Variable valid_name : str -> bool.       (* syntax.ValidName *)
(* Runner.changeDir(path) from r.Dir: Some newdir on success, None = status 1 *)
Variable change_dir : str -> str -> option str.
(* expand.Format(cfg, arg, nil) as used by echo -e: the expanded string *)
Variable format : str -> str.
(* filepath.EvalSymlinks: None = error *)
Variable eval_symlinks : str -> option str.

(* ---------------------------------------------------------------- shift *)
Definition shift_n (st : state) (n : Z) : res bres :=
  if n <? 0 then ret st 1                                      (* added by the fix *)
  else if zlen (params st) <=? n then ret (set_params st []) 0
  else p <- slice_from (params st) n ;; ret (set_params st p) 0.

Definition bi_shift (args : list str) (st : state) : res bres :=
  match args with
  | [] => shift_n st 1
  | [_] => a0 <- idx args 0 ;;
           let (n, ok) := atoi a0 in
           if ok then shift_n st n else ret st 2
  | _ => ret st 2
  end.

(* the code before the fix *)
Definition shift_n_prefix (st : state) (n : Z) : res bres :=
  if zlen (params st) <=? n then ret (set_params st []) 0
  else p <- slice_from (params st) n ;; ret (set_params st p) 0.
Definition bi_shift_prefix (args : list str) (st : state) : res bres :=
  match args with
  | [] => shift_n_prefix st 1
  | [_] => a0 <- idx args 0 ;;
           let (n, ok) := atoi a0 in
           if ok then shift_n_prefix st n else ret st 2
  | _ => ret st 2
  end.

(* ---------------------------------------------------------------- exit / return / break / continue *)
Definition bi_exit (args : list str) (st : state) : res bres :=
  match args with
  | [] => Ok {| r_st := st; r_code := last_exit st; r_flow := FExit; r_out := [] |}
  | [_] => a0 <- idx args 0 ;;
           let (n, ok) := atoi a0 in
           if ok then Ok {| r_st := st; r_code := uint8 n; r_flow := FExit; r_out := [] |}
           else ret st 2
  | _ => ret st 1
  end.

Definition bi_return (args : list str) (st : state) : res bres :=
  if negb (in_func st) && negb (in_source st) then ret st 1
  else match args with
       | [] => Ok {| r_st := st; r_code := last_exit st; r_flow := FReturn; r_out := [] |}
       | [_] => a0 <- idx args 0 ;;
                let (n, ok) := atoi a0 in
                if ok then Ok {| r_st := st; r_code := uint8 n; r_flow := FReturn; r_out := [] |}
                else ret st 2
       | _ => ret st 2
       end.

Definition bi_break (cont : bool) (args : list str) (st : state) : res bres :=
  if negb (in_loop st) then ret st 0
  else
    let enc n := if cont then set_cnt st n else set_brk st n in
    match args with
    | [] => ret (enc 1) 0
    | [_] => a0 <- idx args 0 ;;
             let (n, ok) := atoi a0 in
             if ok then
               if n <? 1 then ret (set_brk st MAXI) 1      (* r.breakEnclosing = math.MaxInt *)
               else ret (enc n) 0
             else ret st 2
    | _ => ret st 2
    end.

(* ---------------------------------------------------------------- wait *)
Definition cut_prefix_g (s : str) : str * bool :=
  match s with c :: r => if N.eqb c 103 then (r, true) else (s, false) | [] => (s, false) end.

Fixpoint wait_loop (l : list str) (st : state) (code : Z) : res bres :=
  match l with
  | [] => ret st code
  | a :: r =>
      let (a', ok) := cut_prefix_g a in
      let pid := atoi64 a' in
      if negb ok || (pid <=? 0) || (zlen (bg st) <? pid) then ret st 1
      else e <- idx (bg st) (pid - 1) ;; wait_loop r st e
  end.

Definition bi_wait (args : list str) (st : state) : res bres :=
  pm <- fp_more (fp_init args) ;;
  let (p1, more) := pm in
  if more then (_ <- fp_flag p1 ;; ret st 2)
  else if zlen args =? 0 then ret st 0
  else wait_loop args st 0.

(* ---------------------------------------------------------------- dirs / pushd / popd *)
Fixpoint join_sp (l : list str) : str :=
  match l with
  | [] => []
  | [x] => x
  | x :: r => x ++ [SP] ++ join_sp r
  end.
Definition dirs_out (ds : list str) : str := join_sp (rev ds) ++ [NL].

Definition bi_dirs (args : list str) (st : state) : res bres := ret_out st 0 (dirs_out (dirstack st)).

Definition swap (ds : list str) : res (list str * str) :=
  let n := zlen ds in
  oldtop <- idx ds (n - 1) ;;
  top <- idx ds (n - 2) ;;
  ds1 <- set_idx ds (n - 1) top ;;
  ds2 <- set_idx ds1 (n - 2) oldtop ;;
  Ok (ds2, top).

(* changeDir: on success r.Dir, OLDPWD, PWD are updated *)
Definition do_chdir (st : state) (path : str) : option state :=
  match change_dir (dir st) path with
  | None => None
  | Some d =>
      let vs1 := var_set (vars st) (b "OLDPWD") (env_get st (b "PWD")) in
      Some (set_vars (set_dir st d) (var_set vs1 (b "PWD") d))
  end.

Definition strip_n (args : list str) : res (bool * list str) :=
  if 0 <? zlen args then
    a0 <- idx args 0 ;;
    if str_eqb a0 (b "-n") then r <- slice_from args 1 ;; Ok (false, r) else Ok (true, args)
  else Ok (true, args).

Definition bi_pushd (args : list str) (st : state) : res bres :=
  ca <- strip_n args ;;
  let (change, args) := ca in
  match args with
  | [] =>
      if negb change then ret st 0
      else if zlen (dirstack st) <? 2 then ret st 1
      else
        sw <- swap (dirstack st) ;;
        let (ds, newtop) := sw in
        let st1 := set_dirstack st ds in
        match do_chdir st1 newtop with
        | None => ret st1 1
        | Some st2 => ret_out st2 0 (dirs_out (dirstack st2))
        end
  | [_] =>
      a0 <- idx args 0 ;;
      if change then
        match do_chdir st a0 with
        | None => ret st 1
        | Some st1 =>
            let st2 := set_dirstack st1 (dirstack st1 ++ [dir st1]) in
            ret_out st2 0 (dirs_out (dirstack st2))
        end
      else
        sw <- swap (dirstack st ++ [a0]) ;;
        let st2 := set_dirstack st (fst sw) in
        ret_out st2 0 (dirs_out (dirstack st2))
  | _ => ret st 2
  end.

Definition bi_popd (args : list str) (st : state) : res bres :=
  ca <- strip_n args ;;
  let (change, args) := ca in
  match args with
  | [] =>
      let ds := dirstack st in
      if zlen ds <? 2 then ret st 1
      else
        oldtop <- idx ds (zlen ds - 1) ;;
        ds1 <- slice_to ds (zlen ds - 1) ;;
        if change then
          newtop <- idx ds1 (zlen ds1 - 1) ;;
          let st1 := set_dirstack st ds1 in
          match do_chdir st1 newtop with
          | None => ret st1 1
          | Some st2 => ret_out st2 0 (dirs_out (dirstack st2))
          end
        else
          ds2 <- set_idx ds1 (zlen ds1 - 1) oldtop ;;
          let st2 := set_dirstack st ds2 in
          ret_out st2 0 (dirs_out ds2)
  | _ => ret st 2
  end.

(* ---------------------------------------------------------------- getopts *)
Definition QMARK : N := 63.  Definition COLON : N := 58.

Record gstate := { g_arg : Z; g_rune : Z }.
(* (state, opt, optarg, done) *)
Definition g_done (g : gstate) : res (gstate * N * str * bool) := Ok (g, QMARK, [], true).

Definition getopts_next_gen (fixed : bool) (optstr : str) (args : list str) (g : gstate)
  : res (gstate * N * str * bool) :=
  if (zlen args =? 0) || (zlen args <=? g_arg g) then g_done g
  else
    a <- idx args (g_arg g) ;;
    let arg := runes_of a in
    if zlen arg <? 2 then g_done g
    else
      a0 <- idx arg 0 ;;
      if negb (N.eqb a0 MINUS) then g_done g
      else
        a1 <- idx arg 1 ;;
        if N.eqb a1 MINUS then g_done g
        else
          opts <- slice_from arg 1 ;;
          let g := if fixed && (zlen opts <=? g_rune g)
                   then {| g_arg := g_arg g; g_rune := 0 |} else g in   (* added by the fix *)
          opt <- idx opts (g_rune g) ;;
          let i := index_rune optstr opt in
          needarg <- (if (0 <=? i) && (i + 1 <? zlen optstr)
                      then c <- idx optstr (i + 1) ;; Ok (N.eqb c COLON) else Ok false) ;;
          if needarg then
            if g_rune g + 1 <? zlen opts then
              rest <- slice_from opts (g_rune g + 1) ;;
              Ok ({| g_arg := g_arg g + 1; g_rune := 0 |}, opt, str_of_runes rest, false)
            else if g_arg g + 1 <? zlen args then
              oa <- idx args (g_arg g + 1) ;;
              Ok ({| g_arg := g_arg g + 2; g_rune := 0 |}, opt, oa, false)
            else
              Ok ({| g_arg := g_arg g + 1; g_rune := 0 |}, COLON, str_of_runes [opt], false)
          else
            let g' := if g_rune g + 1 <? zlen opts
                      then {| g_arg := g_arg g; g_rune := g_rune g + 1 |}
                      else {| g_arg := g_arg g + 1; g_rune := 0 |} in
            if i <? 0 then Ok (g', QMARK, str_of_runes [opt], false)
            else Ok (g', opt, [], false).

Definition getopts_next := getopts_next_gen true.
Definition getopts_next_prefix := getopts_next_gen false.

Definition has_prefix_colon (s : str) : bool :=
  match s with c :: _ => N.eqb c COLON | [] => false end.

Definition bi_getopts_gen (fixed : bool) (args : list str) (st : state) : res bres :=
  if zlen args <? 2 then ret st 2
  else
    let optind0 := fst (atoi (env_get st (b "OPTIND"))) in
    let reset := negb (optind0 - 1 =? og_arg st) in
    let optind := if reset && (optind0 <? 1) then 1 else optind0 in
    let st := if reset then set_og st (optind - 1) 0 else st in
    optstr <- idx args 0 ;;
    name <- idx args 1 ;;
    if negb (valid_name name) then ret st 2
    else
      rest <- slice_from args 2 ;;
      let gargs := if zlen rest =? 0 then params st else rest in
      let diagnostics := negb (has_prefix_colon optstr) in
      r <- getopts_next_gen fixed optstr gargs {| g_arg := og_arg st; g_rune := og_rune st |} ;;
      let '(g', opt, optarg, done) := r in
      let st := set_og st (g_arg g') (g_rune g') in
      let vs := var_del (var_set (vars st) name (str_of_runes [opt])) (b "OPTARG") in
      let vs := if N.eqb opt QMARK && diagnostics && negb done then vs
                else if N.eqb opt COLON && diagnostics then vs
                else if negb (is_empty optarg) then var_set vs (b "OPTARG") optarg else vs in
      let vs := if negb (optind - 1 =? g_arg g') then var_set vs (b "OPTIND") (itoa (g_arg g' + 1)) else vs in
      ret (set_vars st vs) (if done then 1 else 0).

Definition bi_getopts := bi_getopts_gen true.
Definition bi_getopts_prefix := bi_getopts_gen false.

(* ---------------------------------------------------------------- echo / pwd / unset *)
(* for len(args) > 0 { opts := args[0];
     if len(opts) < 2 || opts[0] != '-' || strings.Trim(opts[1:], "neE") != "" { break }
     for _, opt := range opts[1:] { n: newline = false; e: doExpand = true; E: doExpand = false }
     args = args[1:] } ;  Err = out of fuel.
   strings.Trim(s, "neE") != "" iff some byte of s is not one of n, e, E *)
Definition is_neE (c : N) : bool := N.eqb c 110 || N.eqb c 101 || N.eqb c 69.
Definition echo_flag (acc : bool * bool) (c : N) : bool * bool :=
  let (nl, de) := acc in
  if N.eqb c 110 then (false, de) else if N.eqb c 101 then (nl, true) else if N.eqb c 69 then (nl, false) else (nl, de).

Fixpoint echo_opts (fuel : nat) (args : list str) (newline doexpand : bool) : res (list str * bool * bool) :=
  match fuel with
  | O => OutOfFuel
  | S f =>
      if 0 <? zlen args then
        opts <- idx args 0 ;;
        if zlen opts <? 2 then Ok (args, newline, doexpand)
        else
          o0 <- idx opts 0 ;;
          if negb (N.eqb o0 MINUS) then Ok (args, newline, doexpand)
          else
            letters <- slice_from opts 1 ;;
            if negb (forallb is_neE letters) then Ok (args, newline, doexpand)
            else
              let (nl, de) := fold_left echo_flag letters (newline, doexpand) in
              r <- slice_from args 1 ;; echo_opts f r nl de
      else Ok (args, newline, doexpand)
  end.

Definition bi_echo (args : list str) (st : state) : res bres :=
  r <- echo_opts (S (length args)) args true false ;;
  let '(rest, newline, doexpand) := r in
  let words := if doexpand then map format rest else rest in
  ret_out st 0 (join_sp words ++ (if newline then [NL] else [])).

(* for len(args) > 0 { switch args[0] { "-L", "-P", default: fail }; args = args[1:] }; Some evalSymlinks / None = status 2 *)
Fixpoint pwd_opts (fuel : nat) (args : list str) (evalsym : bool) : res (option bool) :=
  match fuel with
  | O => OutOfFuel
  | S f =>
      if 0 <? zlen args then
        a0 <- idx args 0 ;;
        if str_eqb a0 (b "-L") then r <- slice_from args 1 ;; pwd_opts f r false
        else if str_eqb a0 (b "-P") then r <- slice_from args 1 ;; pwd_opts f r true
        else Ok None
      else Ok (Some evalsym)
  end.

(* the fatal exit of a failing EvalSymlinks is reported as status 1 with FExit *)
Definition bi_pwd (args : list str) (st : state) : res bres :=
  r <- pwd_opts (S (length args)) args false ;;
  match r with
  | None => ret st 2
  | Some evalsym =>
      let pwd := env_get st (b "PWD") in
      if evalsym then
        match eval_symlinks pwd with
        | Some p => ret_out st 0 (p ++ [NL])
        | None => Ok {| r_st := st; r_code := 1; r_flow := FExit; r_out := [] |}
        end
      else ret_out st 0 (pwd ++ [NL])
  end.

(* unsetOpts: for i, arg := range args { "-v" / "-f" / default: args = args[i:]; break };
   result: the arguments that remain, vars, funcs *)
Fixpoint unset_opts (all : list str) (l : list str) (i : Z) (vars_ funcs : bool) : res (list str * bool * bool) :=
  match l with
  | [] => Ok (all, vars_, funcs)                 (* only flags: args is not re-sliced *)
  | a :: r =>
      if str_eqb a (b "-v") then unset_opts all r (i + 1) vars_ false
      else if str_eqb a (b "-f") then unset_opts all r (i + 1) false funcs
      else rest <- slice_from all i ;; Ok (rest, vars_, funcs)
  end.

(* the loop over the remaining arguments, for scalar variables (the model has no arrays, functions) *)
Fixpoint unset_names (l : list str) (vars_ : bool) (st : state) : res state :=
  match l with
  | [] => Ok st
  | a :: r =>
      c <- cut_elem_subscript valid_name a ;;
      match c with
      | Some (name, sub) =>
          if vars_ then
            (* unsetElem: a set scalar is deleted via subscript 0 only; an unset name is a no-op *)
            match var_get (vars st) name with
            | Some _ => if str_eqb sub (b "0") then unset_names r vars_ (set_vars st (var_del (vars st) name))
                        else unset_names r vars_ st
            | None => unset_names r vars_ st
            end
          else unset_names r vars_ st
      | None =>
          if vars_ then unset_names r vars_ (set_vars st (var_del (vars st) a)) else unset_names r vars_ st
      end
  end.

Definition bi_unset (args : list str) (st : state) : res bres :=
  o <- unset_opts args args 0 true true ;;
  let '(rest, vars_, funcs) := o in
  st' <- unset_names rest vars_ st ;;
  ret st' 0.

(* ---------------------------------------------------------------- calls and histories *)
Inductive lstmt :=
| LObs (tag : str)                         (* __obs TAG "$?" *)
| LBrk (cont : bool) (args : list str)     (* break ARGS / continue ARGS *)
| LFor (n : nat) (body : list lstmt).      (* for v in <n words>; do body; done *)

(* Runner.stop: a break or continue is unwinding to its loop *)
Definition unwinding (st : state) : bool := (0 <? brk st) || (0 <? cnt st).

Section Loop.
(* r.stmt *)
Variable exec : lstmt -> state -> res (state * list (list str)).

(* loopStmtsBroken; old_in_loop = the inLoop saved on entry *)
Fixpoint stmts_broken (old_in_loop : bool) (l : list lstmt) (st : state)
  : res (state * list (list str) * bool) :=
  match l with
  | [] => Ok (st, [], false)
  | s :: l' =>
      r <- exec s st ;;
      let (st1, ev) := r in
      if 0 <? cnt st1 then
        let st2 := set_cnt st1 (if old_in_loop then cnt st1 - 1 else 0) in
        Ok (st2, ev, 0 <? cnt st2)
      else if 0 <? brk st1 then
        Ok (set_brk st1 (if old_in_loop then brk st1 - 1 else 0), ev, true)
      else
        r2 <- stmts_broken old_in_loop l' st1 ;;
        let '(st2, ev2, bk) := r2 in Ok (st2, ev ++ ev2, bk)
  end.

End Loop.

Section ForLoop.
(* one run of the loop body: loopStmtsBroken(cm.Do) with the saved inLoop *)
Variable run_body : bool -> state -> res (state * list (list str) * bool).

(* the ForClause loop over k remaining words *)
Fixpoint for_iter (k : nat) (st : state) : res (state * list (list str)) :=
  match k with
  | O => Ok (st, [])
  | S k' =>
      if unwinding st then Ok (st, []) else       (* the loop head calls stop() *)
      let old := in_loop st in
      r <- run_body old (set_in_loop st true) ;;
      let '(st1, ev, bk) := r in
      let st1 := set_in_loop st1 old in
      if bk then Ok (st1, ev)
      else r2 <- for_iter k' st1 ;; let (st2, ev2) := r2 in Ok (st2, ev ++ ev2)
  end.
End ForLoop.

(* r.stmt for the three statement kinds; events = the argument vectors of the __obs calls *)
Fixpoint exec_stmt (s : lstmt) (st : state) {struct s} : res (state * list (list str)) :=
  if unwinding st then Ok (st, []) else
  match s with
  | LObs tag => Ok (set_last st 0, [[[]; tag; itoa (last_exit st)]])
  | LBrk cont args =>
      r <- bi_break cont args st ;;
      Ok (set_last (r_st r) (r_code r), [])
  | LFor n body => for_iter (fun old st' => stmts_broken exec_stmt old body st') n st
  end.

Inductive call :=
| CSet (args : list str)
| CShift (args : list str)
| CGetopts (args : list str)
| CAssign (name val : str)        (* name=val *)
| CUnsetVar (name : str)          (* unset -v name *)
| CPushd (args : list str)
| CPopd (args : list str)
| CDirs (args : list str)
| CWait (args : list str)
| CBg (code : Z)                  (* (exit code) & *)
| CBreak (cont : bool) (args : list str)   (* break/continue outside of a loop *)
| CReturn (args : list str)       (* return outside of a function *)
| CLoop (cont : bool) (args : list str)    (* the nested-loop program, see loop_prog *)
| CFunc (args : list str)         (* f() { return ARGS; __obs B "$?"; }; f *)
| CExit (args : list str)
| CEcho (args : list str)
| CPwd (args : list str)
| CUnset (args : list str).

Definition loop_prog (cont : bool) (args : list str) : lstmt :=
  LFor 2 [ LFor 2 [ LObs (b "A"); LBrk cont args; LObs (b "B") ]; LObs (b "C") ].

(* "$-": flags of the enabled options, sorted (a e f n u x; pipefail has none) *)
Definition opt_flags (st : state) : str :=
  (if opt_on st 0 then [97%N] else []) ++ (if opt_on st 1 then [101%N] else []) ++
  (if opt_on st 3 then [102%N] else []) ++ (if opt_on st 2 then [110%N] else []) ++
  (if opt_on st 4 then [117%N] else []) ++ (if opt_on st 5 then [120%N] else []).

Definition show_var (st : state) (name : str) : str :=
  match var_get (vars st) name with Some v => 83%N :: v | None => [85%N] end.   (* "S"+value / "U" *)

(* the argument vector of the __obs call after a step:
   stdout of the step, $?, $-, OPTIND, OPTARG, x, y, PWD, $!, then "$@" *)
Definition observe (st : state) (code : Z) (out : str) : list str :=
  [ out; itoa code; opt_flags st; show_var st (b "OPTIND"); show_var st (b "OPTARG");
    show_var st (b "x"); show_var st (b "y"); show_var st (b "PWD");
    (if is_empty (bg st) then [] else 103%N :: itoa (zlen (bg st))) ] ++ params st.

(* one step: new state, the __obs vectors it produces, Some code if the shell exits *)
Definition run_call (c : call) (st : state) : res (state * list (list str) * option Z) :=
  let fin (r : bres) := Ok (set_last (r_st r) 0, [observe (r_st r) (r_code r) (r_out r)], None) in
  match c with
  | CSet args => r <- bi_set args st ;; fin r
  | CShift args => r <- bi_shift args st ;; fin r
  | CGetopts args => r <- bi_getopts args st ;; fin r
  | CAssign n v => let st1 := set_vars st (var_set (vars st) n v) in
                   Ok (set_last st1 0, [observe st1 0 []], None)
  | CUnsetVar n => let st1 := set_vars st (var_del (vars st) n) in
                   Ok (set_last st1 0, [observe st1 0 []], None)
  | CPushd args => r <- bi_pushd args st ;; fin r
  | CPopd args => r <- bi_popd args st ;; fin r
  | CDirs args => r <- bi_dirs args st ;; fin r
  | CWait args => r <- bi_wait args st ;; fin r
  | CBg code => let st1 := set_bg st (bg st ++ [code]) in
                Ok (set_last st1 0, [observe st1 0 []], None)
  | CBreak cont args => r <- bi_break cont args st ;; fin r
  | CReturn args => r <- bi_return args st ;; fin r
  | CLoop cont args =>
      r <- exec_stmt (loop_prog cont args) (set_last st 0) ;;
      let (st1, ev) := r in
      Ok (set_last st1 0, ev ++ [observe st1 (last_exit st1) []], None)
  | CFunc args =>
      r <- bi_return args (set_in_func st true) ;;
      let st1 := set_in_func (r_st r) (in_func st) in
      match r_flow r with
      | FReturn => Ok (set_last st1 0, [observe st1 (r_code r) []], None)
      | _ => Ok (set_last st1 0, [[[]; b "B"; itoa (r_code r)]; observe st1 0 []], None)
      end
  | CExit args =>
      r <- bi_exit args st ;;
      match r_flow r with
      | FExit => Ok (r_st r, [], Some (r_code r))
      | _ => fin r
      end
  | CEcho args => r <- bi_echo args st ;; fin r
  | CPwd args =>
      r <- bi_pwd args st ;;
      match r_flow r with
      | FExit => Ok (r_st r, [], Some (r_code r))
      | _ => fin r
      end
  | CUnset args => r <- bi_unset args st ;; fin r
  end.

(* a history: the calls of a program in order; stops at exit *)
Fixpoint run_calls (cs : list call) (st : state) : res (state * list (list str) * Z) :=
  match cs with
  | [] => Ok (st, [], 0)
  | c :: rest =>
      r <- run_call c st ;;
      let '(st1, ev, ex) := r in
      match ex with
      | Some code => Ok (st1, ev, code)
      | None => r2 <- run_calls rest st1 ;;
                let '(st2, ev2, code) := r2 in Ok (st2, ev ++ ev2, code)
      end
  end.

End Ext.

(* the state after Runner.Reset: OPTIND=1, dirStack = [Dir], PWD = Dir *)
Definition init_state (d : str) : state :=
  {| params := []; og_arg := 0; og_rune := 0;
     vars := [ (b "OPTIND", b "1"); (b "PWD", d) ];
     dirstack := [d]; dir := d; in_loop := false; in_func := false; in_source := false;
     brk := 0; cnt := 0; last_exit := 0; bg := []; opts := repeat false 7 |}.

(* the invariant of reachable states that the builtins rely on *)
Definition inv (st : state) : Prop :=
  0 <= og_arg st /\ 0 <= og_rune st /\ 1 <= zlen (dirstack st).

(* ---------------------------------------------------------------- unset 'a[i]' (cutElemSubscript is above) *)
(* slices.BinarySearch on a sorted []int: the first position whose element is >= k *)
Fixpoint lower_bound (l : list Z) (k : Z) : Z :=
  match l with
  | [] => 0
  | x :: r => if x <? k then 1 + lower_bound r k else 0
  end.

Definition canonical_indexes (ix : list Z) : list Z :=
  if forallb (fun p => Z.of_nat (fst p) =? snd p) (combine (seq 0 (length ix)) ix) then [] else ix.

Definition indexed_max (l : list str) (ix : list Z) : res Z :=
  if 0 <? zlen ix then idx ix (zlen ix - 1) else Ok (zlen l - 1).

(* internal.DeleteIndexedElem; nil indexes = [] *)
Definition delete_indexed_elem (l : list str) (ix : list Z) (k : Z) : res (list str * list Z) :=
  let sparse (ix : list Z) :=
    let pos := lower_bound ix k in
    found <- (if pos <? zlen ix then e <- idx ix pos ;; Ok (e =? k) else Ok false) ;;
    if negb found then Ok (l, ix)
    else
      l' <- delete_at l pos ;;
      ix' <- delete_at ix pos ;;
      Ok (l', canonical_indexes ix') in
  if is_empty ix then
    if (k <? 0) || (zlen l <=? k) then Ok (l, [])
    else if k =? zlen l - 1 then l' <- slice_to l k ;; Ok (l', [])
    else sparse (map Z.of_nat (seq 0 (length l)))
  else sparse ix.

(* unsetElem, case expand.Indexed, after the subscript was evaluated to k.
   None = "bad array subscript" (status 1) *)
Definition unset_indexed (l : list str) (ix : list Z) (k : Z) : res (option (list str * list Z)) :=
  if k <? 0 then
    m <- indexed_max l ix ;;
    let k' := k + m + 1 in
    if k' <? 0 then Ok None
    else r <- delete_indexed_elem l ix k' ;; Ok (Some r)
  else r <- delete_indexed_elem l ix k ;; Ok (Some r).

(* the invariant of expand.Variable for Kind Indexed *)
Definition var_wf (l : list str) (ix : list Z) : Prop := ix = [] \/ length ix = length l.

(* ---------------------------------------------------------------- ${v:o:l} and ${@:o:l} *)
Definition slice_pos (len n : Z) : Z :=
  if n <? 0 then (let n' := len + n in if n' <? 0 then len else n')
  else if len <? n then len else n.

(* paramExp, case pe.Slice != nil with callVarInd: rs = []rune(str); set = the parameter is set.
   None = the error "substring expression < 0" (the command fails, no panic) *)
Definition slice_str (rs : list N) (set : bool) (off len : option Z) : res (option (list N)) :=
  let in_range := match off with
                  | Some o => (o <=? zlen rs) && (- zlen rs <=? o)
                  | None => true
                  end in
  rs1 <- match off with Some o => slice_from rs (slice_pos (zlen rs) o) | None => Ok rs end ;;
  match len with
  | Some l =>
      if (l <? 0) && (zlen rs1 + l <? 0) && set && in_range then Ok None
      else r <- slice_to rs1 (slice_pos (zlen rs1) l) ;; Ok (Some r)
  | None => Ok (Some rs1)
  end.

(* Config.sliceElems *)
Definition slice_elems (arg0 : str) (elems : list str) (ix : list Z) (positional : bool)
           (off len : option Z) : res (list str) :=
  let elems := if positional then arg0 :: elems else elems in
  e1 <- match off with
        | None => Ok elems
        | Some o =>
            if 0 <? zlen ix then
              last <- idx ix (zlen ix - 1) ;;
              let o' := if o <? 0
                        then (let o1 := o + (last + 1) in if o1 <? 0 then last + 1 else o1)
                        else o in
              slice_from elems (lower_bound ix o')
            else slice_from elems (slice_pos (zlen elems) o)
        end ;;
  match len with Some l => slice_to e1 (slice_pos (zlen e1) l) | None => Ok e1 end.

(* ---------------------------------------------------------------- concrete ASCII instances
   (used by the in-kernel evaluation of the check; valid for arguments made of bytes < 0x80) *)
Definition is_digit (c : N) : bool := (48 <=? c)%N && (c <=? 57)%N.

Fixpoint digits_val (s : str) (acc : Z) : option Z :=
  match s with
  | [] => Some acc
  | c :: r => if is_digit c then digits_val r (acc * 10 + (Z.of_N c - 48)) else None
  end.

(* strconv.ParseInt(s, 10, 64) / strconv.Atoi: (value, ok) *)
Definition parse_int (s : str) : Z * bool :=
  let '(neg, ds) := match s with
                    | c :: r => if N.eqb c MINUS then (true, r) else if N.eqb c PLUS then (false, r) else (false, s)
                    | [] => (false, s)
                    end in
  match ds with
  | [] => (0, false)
  | _ => match digits_val ds 0 with
         | None => (0, false)
         | Some v => let v := if neg then - v else v in
                     if MAXI <? v then (MAXI, false) else if v <? MINI then (MINI, false) else (v, true)
         end
  end.
Definition atoi_c : str -> Z * bool := parse_int.

Definition is_space (c : N) : bool :=
  N.eqb c 32 || N.eqb c 9 || N.eqb c 10 || N.eqb c 11 || N.eqb c 12 || N.eqb c 13.
Fixpoint trim_left (s : str) : str :=
  match s with c :: r => if is_space c then trim_left r else s | [] => [] end.
Definition trim_space (s : str) : str := rev (trim_left (rev (trim_left s))).
Definition atoi64_c (s : str) : Z := fst (parse_int (trim_space s)).

Fixpoint pos_digits (fuel : nat) (n : Z) (acc : str) : str :=
  match fuel with
  | O => acc
  | S f => if n <? 10 then Z.to_N (n + 48) :: acc
           else pos_digits f (n / 10) (Z.to_N (n mod 10 + 48) :: acc)
  end.
Definition itoa_c (n : Z) : str :=
  if n <? 0 then MINUS :: pos_digits 80 (- n) [] else pos_digits 80 n [].

Definition runes_of_c (s : str) : list N := s.
Definition str_of_runes_c (r : list N) : str := r.
Definition index_rune_c (s : str) (r : N) : Z :=
  match index_byte r s with Some i => Z.of_nat i | None => -1 end.

Definition is_letter (c : N) : bool :=
  ((65 <=? c)%N && (c <=? 90)%N) || ((97 <=? c)%N && (c <=? 122)%N) || N.eqb c 95.
Definition valid_name_c (s : str) : bool :=
  match s with
  | [] => false
  | c :: r => is_letter c && forallb (fun d => is_letter d || is_digit d) r
  end.

(* changeDir over a file system given as the list of existing directories; paths are
   "simple" (no ".", "..", "//", trailing "/"), so filepath.Join/Clean is concatenation *)
Definition change_dir_c (fs : list str) (d path : str) : option str :=
  match path with
  | [] => None
  | c :: _ =>
      let apath := if N.eqb c 47 then path else d ++ [47%N] ++ path in
      if existsb (str_eqb apath) fs then Some apath else None
  end.

Definition run_calls_c (fs : list str) :=
  run_calls atoi_c atoi64_c itoa_c runes_of_c str_of_runes_c index_rune_c valid_name_c (change_dir_c fs)
            (fun s => s) (fun s => Some s).
