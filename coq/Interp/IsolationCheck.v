(* Interp/IsolationCheck.v — evaluation helpers for the code leg of C27/C32:
   builds the initial Runner state from the harness' `init` snapshot, runs the
   model, and compares observe with the snapshots taken in the real Runner.
   Only used by generated Cases files (vm_compute); no theorem depends on it. *)
From Verif Require Import Base.Str Base.GoSlice Interp.Isolation.
Open Scope nat_scope.

(* growth policy used for evaluation (Go's growslice without size-class
   rounding; capacities are not observable unless an in-place write is shared) *)
Definition go_grow (old need : nat) : nat :=
  if Nat.ltb (2 * old) need then need
  else if Nat.ltb old 256 then 2 * old
  else old + Nat.div (old + 768) 4.

Record evar := mkEV {
  e_set : bool; e_local : bool; e_exported : bool; e_readonly : bool;
  e_kind : kind; e_str : str; e_list : list str;
  e_idx : option (list Z); e_map : option (list (str * str)) }.
Record esnap := mkES {
  es_vars : list (str * evar); es_funcs : list (str * N); es_alias : list (str * str);
  es_opts : list bool; es_dir : str; es_dirstack : list str; es_params : list str }.

Fixpoint list_eqb {A} (eqb : A -> A -> bool) (a b : list A) : bool :=
  match a, b with
  | [], [] => true
  | x :: a', y :: b' => eqb x y && list_eqb eqb a' b'
  | _, _ => false
  end.
Definition val_is_str (v : val) (s : str) : bool := match v with VS x => str_eqb x s | VI _ => false end.
Definition val_is_int (v : val) (z : Z) : bool := match v with VI x => Z.eqb x z | VS _ => false end.
Fixpoint vals_eqb {A} (f : val -> A -> bool) (a : list val) (b : list A) : bool :=
  match a, b with
  | [], [] => true
  | x :: a', y :: b' => f x y && vals_eqb f a' b'
  | _, _ => false
  end.
(* equal as finite maps: same size, every binding of b found in a *)
Definition al_eqb {A} (eqb : A -> A -> bool) (a b : list (str * A)) : bool :=
  Nat.eqb (length a) (length b) &&
  forallb (fun kv => match al_get (fst kv) a with Some v => eqb v (snd kv) | None => false end) b.

Definition ovar_matches (o : ovar) (e : evar) : bool :=
  Bool.eqb (ov_set o) (e_set e) && Bool.eqb (ov_local o) (e_local e) &&
  Bool.eqb (ov_exported o) (e_exported e) && Bool.eqb (ov_readonly o) (e_readonly e) &&
  kind_eqb (ov_kind o) (e_kind e) && str_eqb (ov_str o) (e_str e) &&
  vals_eqb val_is_str (ov_list o) (e_list e) &&
  match ov_idx o, e_idx e with
  | None, None => true
  | Some a, Some b => vals_eqb val_is_int a b
  | _, _ => false
  end &&
  match ov_map o, e_map e with
  | None, None => true
  | Some (Ok a), Some b => al_eqb str_eqb a b
  | _, _ => false
  end.

(* component codes: 1 vars listed by Go, 2 names the model has but Go lacks,
   3 funcs, 4 alias, 5 opts, 6 dir, 7 dirstack, 8 params *)
Definition check_snap (r : runner) (h : heaps) (e : esnap) : list nat :=
  let o := observe r h in
  (if forallb (fun ne => match observe_var r h (fst ne) with
                         | Ok ov => ovar_matches ov (snd ne)
                         | _ => false end) (es_vars e) then [] else [1]) ++
  (match ob_vars o with
   | Ok l => if forallb (fun nv => match snd nv with
                                   | Ok ov => match al_get (fst nv) (es_vars e) with
                                              | Some _ => true
                                              | None => negb (ov_set ov || ov_local ov || ov_exported ov || ov_readonly ov
                                                              || negb (kind_eqb (ov_kind ov) KUnknown))
                                              end
                                   | _ => false end) l then [] else [2]
   | _ => [2]
   end) ++
  (match ob_funcs o with Ok m => if al_eqb N.eqb m (es_funcs e) then [] else [3] | _ => [3] end) ++
  (match ob_alias o with Ok m => if al_eqb str_eqb m (es_alias e) then [] else [4] | _ => [4] end) ++
  (if list_eqb Bool.eqb (ob_opts o) (es_opts e) then [] else [5]) ++
  (if str_eqb (ob_dir o) (es_dir e) then [] else [6]) ++
  (if vals_eqb val_is_str (ob_dirstack o) (es_dirstack e) then [] else [7]) ++
  (if vals_eqb val_is_str (ob_params o) (es_params e) then [] else [8]).

(* initial state from the `init` snapshot: all variables are plain strings in
   the root overlay (checked by the driver), dirStack = [Dir], no functions,
   no aliases, Params as given *)
Definition init_var (e : evar) : variable :=
  mkVar (e_set e) (e_local e) (e_exported e) (e_readonly e) (e_kind e) (e_str e) SNil SNil None.
Definition init_state (e : esnap) : state :=
  let np := length (es_params e) in
  mkSt (mkR 1 None None (es_opts e) (es_dir e)
            (Sl 0 0 (length (es_dirstack e)) (length (es_dirstack e)))
            (match np with O => SNil | _ => Sl 1 0 np np end) false [])
       (mkH [map VS (es_dirstack e); map VS (es_params e)]
            [CBase []; CEnv (Some 0) false (map (fun ne => (fst ne, init_var (snd ne))) (es_vars e))])
       false.

Record ccase := mkCase {
  c_init : esnap; c_parent : list op; c_bg : bool; c_child : list op;
  c_p0 : esnap; c_c : esnap; c_p1 : esnap }.

(* stage*10 + component; stage 1 = parent before, 2 = child at its end,
   3 = parent after (on the heap the child left), 4 = model panicked,
   5 = model says the parent's observation changed *)
Definition run_case (c : ccase) : list nat :=
  let s0 := init_state (c_init c) in
  let sp := run_ops go_grow (c_parent c) s0 in
  let sc0 := subshell_state go_grow (c_bg c) (st_r sp) (st_h sp) in
  let sc := run_ops go_grow (c_child c) sc0 in
  (if st_panic sp || st_panic sc then [40] else []) ++
  map (fun k => 10 + k) (check_snap (st_r sp) (st_h sp) (c_p0 c)) ++
  map (fun k => 20 + k) (check_snap (st_r sc) (st_h sc) (c_c c)) ++
  map (fun k => 30 + k) (check_snap (st_r sp) (st_h sc) (c_p1 c)).

Fixpoint run_cases (i : nat) (cs : list ccase) : list (nat * list nat) :=
  match cs with
  | [] => []
  | c :: rest =>
      match run_case c with
      | [] => run_cases (S i) rest
      | l => (i, l) :: run_cases (S i) rest
      end
  end.
