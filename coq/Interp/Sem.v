(* Interp/Sem.v — Spec: a structured big-step semantics of the core language of
   Interp/Core.v in the style of the POSIX / bash description.

   A command yields a new shell state, an exit status, and an OUTCOME:
     ONormal            ran to completion
     OBrk n / OCnt n    a `break n` / `continue n` is looking for its loop (n >= 1)
     ORet e             a `return` is looking for its function call; e = the call will
                        then fail under an active errexit (see [sem_stmt])
     OExit              the shell exits
     OAbort why         the program left the scope of the semantics (named classes below)
   There are no flags: loops consume OBrk/OCnt, function calls consume ORet, a subshell
   turns everything into (output, status).  errexit is a RULE on outcomes: a simple
   command, function call or subshell that completes with a non-zero status while
   errexit is on and not ignored (condition of if/while/until, operand of !, left
   operand of && ||: inherited dynamically) makes the shell exit.

   Scope (OAbort): the known divergences between the interpreter and bash inside the
   core language that are NOT repaired by a fix: commit are aborts here, so the
   refinement theorem (Props/C26.v) excludes exactly these named classes:
     AFuel           out of fuel (not a property of the program)
     AUnsupported    builtin/option outside the core language (echo -n/-e/-E, set other
                     than -e/+e, any other builtin of interp.IsBuiltin)
     ABadCount       break/continue with a count < 1, non-numeric, or several arguments
                     (bash: fatal for non-numeric / too many; the interpreter continues)
     ABadStatus      return/exit with a non-numeric argument or several arguments
                     (bash: status 2 and exits/returns; the interpreter continues)
     AReturnOutside  return outside any function of the current (sub)shell, which includes
                     a return directly inside a subshell inside a function
                     (bash: status 2 resp. leaves the subshell; interpreter: status 1, goes on)
     ABreakInCond    a break/continue reaches the condition list of an if/while/until
                     (bash counts the loop whose condition is running; the interpreter
                     uses the enclosing inLoop; an `until` keeps a stale counter)
     AEmptyCond      while/until with an empty condition list (not expressible in source)
     ASetInIgnored   set -e / set +e executed where errexit is being ignored (bash: inside a
                     negated command the new setting acts at once, `! { set -e; false; }` exits;
                     the interpreter keeps ignoring until the context ends)
     ANegatedInSubshell  a subshell whose list has a negated statement at its top level: under errexit
                     bash lets a failure inside that negated command end the subshell
                     (`set -e; ( ! { false; echo a; } ); echo $?` prints 0), the interpreter ignores it
     AErrexitInSubst a command substitution whose result depends on errexit being inherited: bash
                     switches errexit off inside $( ), the interpreter keeps it (KF-C26-5)
     APipeLastStage  the last stage of a pipeline has a lasting effect (assignment, function
                     definition, option, exit/return/break): it runs in the parent shell in the
                     interpreter and in a subshell in bash (KF-C26-1)
     ASubstStatus    "$?" or another command substitution expanded after a command substitution of
                     the same command whose status differs from $?: bash shows that status to the
                     later expansions (`echo "$(false)" "$?"` prints 1), the interpreter does not
   NO PROOFS in this file. *)
From Verif Require Import Base.Str Interp.Core.
Open Scope N_scope.

Inductive abort :=
| AFuel | AUnsupported | ABadCount | ABadStatus | AReturnOutside | ABreakInCond | AEmptyCond | ASetInIgnored
| ANegatedInSubshell | AErrexitInSubst | APipeLastStage | ASubstStatus.

Inductive outcome :=
| ONormal
| OBrk (n : Z)
| OCnt (n : Z)
| ORet (e : bool)
| OExit
| OAbort (why : abort).

Record sst := mkS {
  svars : list (str * str);
  sfuncs : list (str * stmt);
  sout : str;
  slast : N;            (* $? *)
  serrexit : bool;      (* set -e *)
  spipefail : bool }.   (* set -o pipefail *)

(* dynamic context: inside a loop of this function activation / subshell; inside a
   function; errexit ignored *)
Record sctx := mkK { inl : bool; infn : bool; noerr : bool }.

Definition sres := (sst * N * outcome)%type.

Definition s_set_vars v ss := mkS v (sfuncs ss) (sout ss) (slast ss) (serrexit ss) (spipefail ss).
Definition s_set_funcs v ss := mkS (svars ss) v (sout ss) (slast ss) (serrexit ss) (spipefail ss).
Definition s_set_out v ss := mkS (svars ss) (sfuncs ss) v (slast ss) (serrexit ss) (spipefail ss).
Definition s_set_last v ss := mkS (svars ss) (sfuncs ss) (sout ss) v (serrexit ss) (spipefail ss).
Definition s_set_errexit v ss := mkS (svars ss) (sfuncs ss) (sout ss) (slast ss) v (spipefail ss).
Definition s_set_pipefail v ss := mkS (svars ss) (sfuncs ss) (sout ss) (slast ss) (serrexit ss) v.

(* ---- boolean equality of syntax and states (used only by the scope predicates
   AErrexitInSubst and APipeLastStage; nothing is proved about them) ---- *)
Definition list_eqb {A} (f : A -> A -> bool) : list A -> list A -> bool :=
  fix go a b := match a, b with
                | [], [] => true
                | x :: a', y :: b' => f x y && go a' b'
                | _, _ => false
                end.
Fixpoint bytes_eqb (a b : str) : bool :=
  match a, b with [], [] => true | x :: a', y :: b' => N.eqb x y && bytes_eqb a' b' | _, _ => false end.

Fixpoint wpart_eqb (a b : wpart) {struct a} : bool :=
  match a, b with
  | WLit s, WLit t => bytes_eqb s t
  | WVar s, WVar t => bytes_eqb s t
  | WStatus, WStatus => true
  | WSubst l, WSubst m => list_eqb stmt_eqb l m
  | _, _ => false
  end
with pat_eqb (a b : pat) {struct a} : bool :=
  match a, b with
  | PWord w, PWord v => list_eqb wpart_eqb w v
  | PAny, PAny => true
  | _, _ => false
  end
with cmd_eqb (a b : cmd) {struct a} : bool :=
  match a, b with
  | CAssign x w, CAssign y v => bytes_eqb x y && list_eqb wpart_eqb w v
  | CCall w ws, CCall v vs => list_eqb wpart_eqb w v && list_eqb (list_eqb wpart_eqb) ws vs
  | CBlock l, CBlock m => list_eqb stmt_eqb l m
  | CSub l, CSub m => list_eqb stmt_eqb l m
  | CAnd x y, CAnd x' y' => stmt_eqb x x' && stmt_eqb y y'
  | COr x y, COr x' y' => stmt_eqb x x' && stmt_eqb y y'
  | CPipe x y, CPipe x' y' => stmt_eqb x x' && stmt_eqb y y'
  | CIf c t e, CIf c' t' e' =>
      list_eqb stmt_eqb c c' && list_eqb stmt_eqb t t' &&
      match e, e' with None, None => true | Some x, Some y => cmd_eqb x y | _, _ => false end
  | CWhile u c b0, CWhile u' c' b' => Bool.eqb u u' && list_eqb stmt_eqb c c' && list_eqb stmt_eqb b0 b'
  | CFor x it b0, CFor y it' b' => bytes_eqb x y && list_eqb (list_eqb wpart_eqb) it it' && list_eqb stmt_eqb b0 b'
  | CCase w it, CCase v it' =>
      list_eqb wpart_eqb w v &&
      list_eqb (fun p q => list_eqb pat_eqb (fst p) (fst q) && list_eqb stmt_eqb (snd p) (snd q)) it it'
  | CFunc n b0, CFunc m b' => bytes_eqb n m && stmt_eqb b0 b'
  | _, _ => false
  end
with stmt_eqb (a b : stmt) {struct a} : bool :=
  match a, b with Stmt n c, Stmt m d => Bool.eqb n m && cmd_eqb c d end.

(* same variables, functions and options (the output and $? may differ) *)
Definition same_shell (a b : sst) : bool :=
  list_eqb (fun p q => bytes_eqb (fst p) (fst q) && bytes_eqb (snd p) (snd q)) (svars a) (svars b) &&
  list_eqb (fun p q => bytes_eqb (fst p) (fst q) && stmt_eqb (snd p) (snd q)) (sfuncs a) (sfuncs b) &&
  Bool.eqb (serrexit a) (serrexit b) && Bool.eqb (spipefail a) (spipefail b).

(* `break 0` and friends leave ALL loops: represented by the largest count *)
Definition all_loops : Z := max_int64.

(* leaving one loop level: [outer] = the loop is the outermost one *)
Definition level_down (outer : bool) (n : Z) : Z := if outer then 0%Z else (n - 1)%Z.

Definition sem_builtin (k : sctx) (name : str) (args : list str) (ss : sst) : sres :=
  if str_eqb name n_colon || str_eqb name n_true then (ss, 0, ONormal)
  else if str_eqb name n_false then (ss, 1, ONormal)
  else if str_eqb name n_echo then
    match args with
    | a :: _ => if is_echo_opt a then (ss, 0, OAbort AUnsupported)
                else (s_set_out (sout ss ++ echo_bytes args) ss, 0, ONormal)
    | [] => (s_set_out (sout ss ++ echo_bytes args) ss, 0, ONormal)
    end
  else if str_eqb name n_break || str_eqb name n_continue then
    let mk n := if str_eqb name n_break then OBrk n else OCnt n in
    if negb (inl k) then (ss, 0, ONormal)            (* "only meaningful in a loop", status 0 *)
    else match args with
         | [] => (ss, 0, mk 1%Z)
         | [a] => match atoi a with
                  | Some n => if (n <? 1)%Z then (ss, 1, OAbort ABadCount) else (ss, 0, mk n)
                  | None => (ss, 2, OAbort ABadCount)
                  end
         | _ => (ss, 2, OAbort ABadCount)
         end
  else if str_eqb name n_return then
    if negb (infn k) then (ss, 2, OAbort AReturnOutside)
    else match args with
         | [] => (ss, slast ss, ORet false)
         | [a] => match atoi a with
                  | Some n => (ss, to_uint8 n, ORet false)
                  | None => (ss, 2, OAbort ABadStatus)
                  end
         | _ => (ss, 2, OAbort ABadStatus)
         end
  else if str_eqb name n_exit then
    match args with
    | [] => (ss, slast ss, OExit)
    | [a] => match atoi a with
             | Some n => (ss, to_uint8 n, OExit)
             | None => (ss, 2, OAbort ABadStatus)
             end
    | _ => (ss, 1, OAbort ABadStatus)
    end
  else if str_eqb name n_set then
    if noerr k then (ss, 0, OAbort ASetInIgnored) else
    match args with
    | [a] => if str_eqb a n_me then (s_set_errexit true ss, 0, ONormal)
             else if str_eqb a n_pe then (s_set_errexit false ss, 0, ONormal)
             else (ss, 0, OAbort AUnsupported)
    | [a; b] => if str_eqb b n_pipefail then
                  if str_eqb a n_mo then (s_set_pipefail true ss, 0, ONormal)
                  else if str_eqb a n_po then (s_set_pipefail false ss, 0, ONormal)
                  else (ss, 0, OAbort AUnsupported)
                else (ss, 0, OAbort AUnsupported)
    | _ => (ss, 0, OAbort AUnsupported)
    end
  else if is_other_builtin name then (ss, 0, OAbort AUnsupported)
  else (ss, 127, ONormal).                             (* command not found *)

Section SemInner.
(* the semantics of a command with one unit of fuel less *)
Variable semc : sctx -> cmd -> sst -> sres.

(* errexit applies to statements that are not negated, not an && || list, and not
   a compound command (group, if, while, until, for, case) *)
Definition errexit_stmt (neg : bool) (c : cmd) : bool :=
  negb neg && negb (is_andor c) && negb (is_compound c).

(* what a statement makes of the result of its command: negation, errexit, $? *)
Definition stmt_post (k : sctx) (neg : bool) (c : cmd) (res : sres) : sres :=
  let '(ss1, code, r) := res in
  let fires code := errexit_stmt neg c && negb (code =? 0) && negb (noerr k) && serrexit ss1 in
  match r with
  | OAbort why => (ss1, code, OAbort why)
  | OExit => (s_set_last code ss1, code, OExit)
  | ORet e =>
      (* `! return` returns before there is a status to negate.  The call that this
         return completes has the errexit context of this statement, so an active
         errexit will fire at that call: recorded in the outcome. *)
      (s_set_last code ss1, code, ORet (e || fires code))
  | ONormal =>
      let code' := if neg then (if code =? 0 then 1 else 0) else code in
      (s_set_last code' ss1, code', if fires code' then OExit else ONormal)
  | OBrk _ | OCnt _ =>
      let code' := if neg then (if code =? 0 then 1 else 0) else code in
      (s_set_last code' ss1, code', r)
  end.

Definition sem_stmt (k : sctx) (t : stmt) (ss : sst) : sres :=
  let '(Stmt neg c) := t in
  let k1 := if neg then mkK (inl k) (infn k) true else k in
  stmt_post k neg c (semc k1 c ss).

Fixpoint sem_stmts (k : sctx) (l : list stmt) (ss : sst) : sres :=
  match l with
  | [] => (ss, 0, ONormal)
  | t :: l' =>
      match sem_stmt k t ss with
      | (ss1, code, ONormal) =>
          match l' with
          | [] => (ss1, code, ONormal)
          | _ => sem_stmts k l' ss1
          end
      | res => res
      end
  end.

(* ---- expansion ---- *)
(* the text, and the status of the last command substitution (unchanged if there is none) *)
Inductive eres (A : Type) := EOk (v : A) (le : N) | EAbort (why : abort).
Arguments EOk {A} v le.
Arguments EAbort {A} why.

(* "$( l )": the list runs in a subshell; only its output, without the trailing newlines,
   and its status come back.  bash switches errexit off inside; the interpreter does not:
   when that makes a difference the program is outside the scope (AErrexitInSubst). *)
Definition sem_subst (k : sctx) (l : list stmt) (ss : sst) (le : N) : eres str :=
  match l with
  | [] => EOk [] le
  | _ =>
      let kk := mkK false false (noerr k) in
      let child := s_set_out [] ss in
      match sem_stmts kk l child with
      | (_, _, OAbort why) => EAbort why
      | (ss2, c2, _) =>
          if serrexit ss then
            match sem_stmts kk l (s_set_errexit false child) with
            | (_, _, OAbort why) => EAbort why
            | (ss1, c1, _) =>
                if bytes_eqb (sout ss1) (sout ss2) && (c1 =? c2)
                then EOk (subst_output (sout ss2)) c2
                else EAbort AErrexitInSubst
            end
          else EOk (subst_output (sout ss2)) c2
      end
  end.

(* [cur] is what bash shows as $? at this point of the expansion: the status of the last command
   substitution of the same command, if any.  The interpreter keeps showing the old $?; when the
   two differ where it matters the program is outside the scope (ASubstStatus). *)
Fixpoint sem_expand_word (k : sctx) (w : word) (ss : sst) (le cur : N) : eres (str * N) :=
  match w with
  | [] => EOk ([], cur) le
  | p :: w' =>
      let r := match p with
               | WSubst l =>
                   if negb (cur =? slast ss) then EAbort ASubstStatus else
                   match sem_subst k l ss le with
                   | EOk a le1 => EOk (a, match l with [] => cur | _ => le1 end) le1
                   | EAbort why => EAbort why
                   end
               | WStatus =>
                   if negb (cur =? slast ss) then EAbort ASubstStatus else EOk (itoa_u8 cur, cur) le
               | _ => EOk (match part_pure (svars ss) (slast ss) p with Some a => a | None => [] end, cur) le
               end in
      match r with
      | EAbort why => EAbort why
      | EOk (a, cur1) le1 =>
          match sem_expand_word k w' ss le1 cur1 with
          | EAbort why => EAbort why
          | EOk (b, cur2) le2 => EOk (a ++ b, cur2) le2
          end
      end
  end.

Fixpoint sem_expand_words (k : sctx) (ws : list word) (ss : sst) (le cur : N) : eres (list str * N) :=
  match ws with
  | [] => EOk ([], cur) le
  | w :: ws' =>
      match sem_expand_word k w ss le cur with
      | EAbort why => EAbort why
      | EOk (a, cur1) le1 =>
          match sem_expand_words k ws' ss le1 cur1 with
          | EAbort why => EAbort why
          | EOk (l, cur2) le2 => EOk (a :: l, cur2) le2
          end
      end
  end.

(* does the command look at $? before it has set it: a function body, `exit` / `return` without
   arguments *)
Definition observes_status (fields : list str) (ss : sst) : bool :=
  match fields with
  | [] => false
  | name :: args =>
      match lookup name (sfuncs ss) with
      | Some _ => true
      | None => (str_eqb name n_exit || str_eqb name n_return) && match args with [] => true | _ => false end
      end
  end.

(* what a loop does with the outcome of one run of its body;
   None = go on with the next iteration *)
Definition loop_after (k : sctx) (res : sres) : option sres :=
  let outer := negb (inl k) in
  match res with
  | (ss, code, ONormal) => None
  | (ss, code, OCnt n) =>
      let n' := level_down outer n in
      if (0 <? n')%Z then Some (ss, code, OCnt n') else None
  | (ss, code, OBrk n) =>
      let n' := level_down outer n in
      if (0 <? n')%Z then Some (ss, code, OBrk n') else Some (ss, code, ONormal)
  | _ => Some res
  end.

Definition in_loop (k : sctx) : sctx := mkK true (infn k) (noerr k).
Definition in_cond (k : sctx) : sctx := mkK (inl k) (infn k) true.

(* while / until: [last] is the status of the last run of the body (0 if none) *)
Fixpoint sem_while (n : nat) (k : sctx) (u : bool) (c b : list stmt) (last : N) (ss : sst) : sres :=
  match n with
  | O => (ss, 0, OAbort AFuel)
  | S n' =>
      match c with
      | [] => (ss, 0, OAbort AEmptyCond)
      | _ =>
      match sem_stmts (in_cond k) c ss with
      | (ss1, c1, ONormal) =>
          if Bool.eqb (c1 =? 0) u then (ss1, last, ONormal)
          else
            let res := sem_stmts (in_loop k) b ss1 in
            match loop_after k res with
            | Some res' => res'
            | None => let '(ss2, c2, _) := res in sem_while n' k u c b c2 ss2
            end
      | (ss1, c1, OBrk _) | (ss1, c1, OCnt _) => (ss1, c1, OAbort ABreakInCond)
      | res => res
      end
      end
  end.

(* for x in items: [last] is the status of the last run of the body (0 if none) *)
Fixpoint sem_for (k : sctx) (x : str) (items : list str) (b : list stmt) (last : N) (ss : sst) : sres :=
  match items with
  | [] => (ss, last, ONormal)
  | f :: items' =>
      let res := sem_stmts (in_loop k) b (s_set_vars (update x f (svars ss)) ss) in
      match loop_after k res with
      | Some res' => res'
      | None => let '(ss2, c2, _) := res in sem_for k x items' b c2 ss2
      end
  end.

Definition spat_match (ss : sst) (subject : str) (p : pat) : bool :=
  match p with
  | PAny => true
  | PWord w => str_eqb (expand_pure (svars ss) (slast ss) w) subject
  end.

Fixpoint sem_case (k : sctx) (subject : str) (items : list (list pat * list stmt)) (ss : sst) : sres :=
  match items with
  | [] => (ss, 0, ONormal)
  | (pats, body) :: rest =>
      if existsb pat_has_subst pats then (ss, 0, OAbort AUnsupported)
      else if existsb (spat_match ss subject) pats then sem_stmts k body ss
      else sem_case k subject rest ss
  end.

Definition sem_call (k : sctx) (fields : list str) (ss : sst) : sres :=
  match fields with
  | [] => (ss, 0, ONormal)
  | name :: args =>
      match lookup name (sfuncs ss) with
      | Some body =>
          (* the body runs as a function activation: no enclosing loop is visible *)
          match sem_stmt (mkK false true (noerr k)) body ss with
          | (ss1, code, ORet e) => (ss1, code, if e then OExit else ONormal)
          | res => res
          end
      | None => sem_builtin k name args ss
      end
  end.

Definition sem_step (fuel : nat) (k : sctx) (c : cmd) (ss : sst) : sres :=
  match c with
  | CAssign x w =>
      (* the status of an assignment is that of its last command substitution *)
      match sem_expand_word k w ss 0 (slast ss) with
      | EAbort why => (ss, 0, OAbort why)
      | EOk (v, _) le => (s_set_vars (update x v (svars ss)) ss, le, ONormal)
      end
  | CCall w ws =>
      match sem_expand_words k (w :: ws) ss 0 (slast ss) with
      | EAbort why => (ss, 0, OAbort why)
      | EOk (fields, cur) _ =>
          if negb (cur =? slast ss) && observes_status fields ss then (ss, 0, OAbort ASubstStatus)
          else sem_call k fields ss
      end
  | CBlock l => sem_stmts k l ss
  | CSub l =>
      if existsb (fun t => match t with Stmt n _ => n end) l then (ss, 0, OAbort ANegatedInSubshell) else
      (* a subshell gives back only its output and its status *)
      match sem_stmts (mkK false false (noerr k)) l ss with
      | (ss1, code, OAbort why) => (s_set_out (sout ss1) ss, code, OAbort why)
      | (ss1, code, _) => (s_set_out (sout ss1) ss, code, ONormal)
      end
  | CAnd x y =>
      match sem_stmt (in_cond k) x ss with
      | (ss1, c1, ONormal) => if c1 =? 0 then sem_stmt k y ss1 else (ss1, c1, ONormal)
      | res => res
      end
  | COr x y =>
      match sem_stmt (in_cond k) x ss with
      | (ss1, c1, ONormal) => if c1 =? 0 then (ss1, c1, ONormal) else sem_stmt k y ss1
      | res => res
      end
  | CIf c t e =>
      match sem_stmts (in_cond k) c ss with
      | (ss1, c1, ONormal) =>
          if c1 =? 0 then sem_stmts k t ss1
          else match e with
               | Some e' => semc k e' ss1
               | None => (ss1, 0, ONormal)
               end
      | (ss1, c1, OBrk _) | (ss1, c1, OCnt _) => (ss1, c1, OAbort ABreakInCond)
      | res => res
      end
  | CWhile u c b => sem_while fuel k u c b 0 ss
  | CFor x items b =>
      match sem_expand_words k items ss 0 (slast ss) with
      | EAbort why => (ss, 0, OAbort why)
      | EOk (fields, cur) _ =>
          if negb (cur =? slast ss) then (ss, 0, OAbort ASubstStatus)   (* the body starts with that $? *)
          else sem_for k x fields b 0 ss
      end
  | CCase w items =>
      match sem_expand_word k w ss 0 (slast ss) with
      | EAbort why => (ss, 0, OAbort why)
      | EOk (subject, cur) _ =>
          if negb (cur =? slast ss) then (ss, 0, OAbort ASubstStatus)
          else sem_case k subject items ss
      end
  | CPipe x y =>
      (* every stage runs in a subshell; the status is that of the last stage, or with pipefail
         that of the first stage if it failed and the last did not.  No core builtin reads stdin,
         so only the status of the first stage matters.  The interpreter runs the last stage in
         the parent shell: when that stage leaves any trace (variables, functions, options, an
         exit/return/break) the program is outside the scope (APipeLastStage). *)
      match sem_stmt (mkK false false (noerr k)) x (s_set_out [] ss) with
      | (_, _, OAbort why) => (ss, 0, OAbort why)
      | (_, c1, _) =>
          match sem_stmt k y ss with
          | (ss2, c2, ONormal) =>
              if same_shell ss ss2
              then (ss2, if spipefail ss2 && negb (c1 =? 0) && (c2 =? 0) then c1 else c2, ONormal)
              else (ss2, c2, OAbort APipeLastStage)
          | (ss2, c2, OAbort why) => (ss2, c2, OAbort why)
          | (ss2, c2, _) => (ss2, c2, OAbort APipeLastStage)
          end
      end
  | CFunc name body => (s_set_funcs (update name body (sfuncs ss)) ss, 0, ONormal)
  end.
End SemInner.
Arguments EOk {A} v le.
Arguments EAbort {A} why.

Fixpoint sem (fuel : nat) (k : sctx) (c : cmd) (ss : sst) {struct fuel} : sres :=
  match fuel with
  | O => (ss, 0, OAbort AFuel)
  | S fuel' => sem_step (sem fuel') fuel' k c ss
  end.

Definition top_ctx : sctx := mkK false false false.

Definition sem_prog (fuel : nat) (p : prog) (ss : sst) : sres :=
  sem_stmts (sem fuel) top_ctx p ss.

Definition init_sst : sst := mkS [] [] [] 0 false false.

Definition is_abort (r : outcome) : bool := match r with OAbort _ => true | _ => false end.

(* what bash shows: stdout, exit status (and the variables, for the refinement) *)
Definition sobs (res : sres) : str * N * list (str * str) :=
  let '(ss, code, _) := res in (sout ss, code, svars ss).
