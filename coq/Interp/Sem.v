(* Interp/Sem.v — Spec: a structured big-step semantics of the core language of
   Interp/Core.v in the style of the POSIX / bash description.

   A command yields a new shell state, an exit status, and an OUTCOME:
     ONormal            ran to completion
     OBrk n / OCnt n    a `break n` / `continue n` is looking for its loop (n >= 1)
     ORet e             a `return` is looking for its function call; e = the call will
                        then fail under an active errexit (see [sem_stmt])
     OExit              the shell exits
     OAbort why         the program left the scope of the semantics (named classes below)
   There are no flags: loops consume OBrk/OCnt, function calls consume ORet, a subshell
   turns everything into (output, status).  errexit is a RULE on outcomes: a simple
   command, function call or subshell that completes with a non-zero status while
   errexit is on and not ignored (condition of if/while/until, operand of !, left
   operand of && ||: inherited dynamically) makes the shell exit.

   Scope (OAbort): the known divergences between the interpreter and bash inside the
   core language that are NOT repaired by a fix: commit are aborts here, so the
   refinement theorem (Props/C26.v) excludes exactly these named classes:
     AFuel           out of fuel (not a property of the program)
     AUnsupported    builtin/option outside the core language (echo -n/-e/-E, set other
                     than -e/+e, any other builtin of interp.IsBuiltin)
     ABadCount       break/continue with a count < 1, non-numeric, or several arguments
                     (bash: fatal for non-numeric / too many; the interpreter continues)
     ABadStatus      return/exit with a non-numeric argument or several arguments
                     (bash: status 2 and exits/returns; the interpreter continues)
     AReturnOutside  return outside any function of the current (sub)shell, which includes
                     a return directly inside a subshell inside a function
                     (bash: status 2 resp. leaves the subshell; interpreter: status 1, goes on)
     ABreakInCond    a break/continue reaches the condition list of an if/while/until
                     (bash counts the loop whose condition is running; the interpreter
                     uses the enclosing inLoop; an `until` keeps a stale counter)
     AEmptyCond      while/until with an empty condition list (not expressible in source)
     ASetInIgnored   set -e / set +e executed where errexit is being ignored (bash: inside a
                     negated command the new setting acts at once, `! { set -e; false; }` exits;
                     the interpreter keeps ignoring until the context ends)
     ANegatedInSubshell  a subshell whose list has a negated statement at its top level: under errexit
                     bash lets a failure inside that negated command end the subshell
                     (`set -e; ( ! { false; echo a; } ); echo $?` prints 0), the interpreter ignores it
   NO PROOFS in this file. *)
From Verif Require Import Base.Str Interp.Core.
Open Scope N_scope.

Inductive abort :=
| AFuel | AUnsupported | ABadCount | ABadStatus | AReturnOutside | ABreakInCond | AEmptyCond | ASetInIgnored
| ANegatedInSubshell.

Inductive outcome :=
| ONormal
| OBrk (n : Z)
| OCnt (n : Z)
| ORet (e : bool)
| OExit
| OAbort (why : abort).

Record sst := mkS {
  svars : list (str * str);
  sfuncs : list (str * stmt);
  sout : str;
  slast : N;            (* $? *)
  serrexit : bool }.    (* set -e *)

(* dynamic context: inside a loop of this function activation / subshell; inside a
   function; errexit ignored *)
Record sctx := mkK { inl : bool; infn : bool; noerr : bool }.

Definition sres := (sst * N * outcome)%type.

Definition s_set_vars v ss := mkS v (sfuncs ss) (sout ss) (slast ss) (serrexit ss).
Definition s_set_funcs v ss := mkS (svars ss) v (sout ss) (slast ss) (serrexit ss).
Definition s_set_out v ss := mkS (svars ss) (sfuncs ss) v (slast ss) (serrexit ss).
Definition s_set_last v ss := mkS (svars ss) (sfuncs ss) (sout ss) v (serrexit ss).
Definition s_set_errexit v ss := mkS (svars ss) (sfuncs ss) (sout ss) (slast ss) v.

Definition sexpw (ss : sst) (w : word) : str := expand_word (svars ss) (slast ss) w.

(* `break 0` and friends leave ALL loops: represented by the largest count *)
Definition all_loops : Z := max_int64.

(* leaving one loop level: [outer] = the loop is the outermost one *)
Definition level_down (outer : bool) (n : Z) : Z := if outer then 0%Z else (n - 1)%Z.

Definition sem_builtin (k : sctx) (name : str) (args : list str) (ss : sst) : sres :=
  if str_eqb name n_colon || str_eqb name n_true then (ss, 0, ONormal)
  else if str_eqb name n_false then (ss, 1, ONormal)
  else if str_eqb name n_echo then
    match args with
    | a :: _ => if is_echo_opt a then (ss, 0, OAbort AUnsupported)
                else (s_set_out (sout ss ++ echo_bytes args) ss, 0, ONormal)
    | [] => (s_set_out (sout ss ++ echo_bytes args) ss, 0, ONormal)
    end
  else if str_eqb name n_break || str_eqb name n_continue then
    let mk n := if str_eqb name n_break then OBrk n else OCnt n in
    if negb (inl k) then (ss, 0, ONormal)            (* "only meaningful in a loop", status 0 *)
    else match args with
         | [] => (ss, 0, mk 1%Z)
         | [a] => match atoi a with
                  | Some n => if (n <? 1)%Z then (ss, 1, OAbort ABadCount) else (ss, 0, mk n)
                  | None => (ss, 2, OAbort ABadCount)
                  end
         | _ => (ss, 2, OAbort ABadCount)
         end
  else if str_eqb name n_return then
    if negb (infn k) then (ss, 2, OAbort AReturnOutside)
    else match args with
         | [] => (ss, slast ss, ORet false)
         | [a] => match atoi a with
                  | Some n => (ss, to_uint8 n, ORet false)
                  | None => (ss, 2, OAbort ABadStatus)
                  end
         | _ => (ss, 2, OAbort ABadStatus)
         end
  else if str_eqb name n_exit then
    match args with
    | [] => (ss, slast ss, OExit)
    | [a] => match atoi a with
             | Some n => (ss, to_uint8 n, OExit)
             | None => (ss, 2, OAbort ABadStatus)
             end
    | _ => (ss, 1, OAbort ABadStatus)
    end
  else if str_eqb name n_set then
    if noerr k then (ss, 0, OAbort ASetInIgnored) else
    match args with
    | [a] => if str_eqb a n_me then (s_set_errexit true ss, 0, ONormal)
             else if str_eqb a n_pe then (s_set_errexit false ss, 0, ONormal)
             else (ss, 0, OAbort AUnsupported)
    | _ => (ss, 0, OAbort AUnsupported)
    end
  else if is_other_builtin name then (ss, 0, OAbort AUnsupported)
  else (ss, 127, ONormal).                             (* command not found *)

Section SemInner.
(* the semantics of a command with one unit of fuel less *)
Variable semc : sctx -> cmd -> sst -> sres.

(* errexit applies to statements that are not negated, not an && || list, and not
   a compound command (group, if, while, until, for, case) *)
Definition errexit_stmt (neg : bool) (c : cmd) : bool :=
  negb neg && negb (is_andor c) && negb (is_compound c).

(* what a statement makes of the result of its command: negation, errexit, $? *)
Definition stmt_post (k : sctx) (neg : bool) (c : cmd) (res : sres) : sres :=
  let '(ss1, code, r) := res in
  let fires code := errexit_stmt neg c && negb (code =? 0) && negb (noerr k) && serrexit ss1 in
  match r with
  | OAbort why => (ss1, code, OAbort why)
  | OExit => (s_set_last code ss1, code, OExit)
  | ORet e =>
      (* `! return` returns before there is a status to negate.  The call that this
         return completes has the errexit context of this statement, so an active
         errexit will fire at that call: recorded in the outcome. *)
      (s_set_last code ss1, code, ORet (e || fires code))
  | ONormal =>
      let code' := if neg then (if code =? 0 then 1 else 0) else code in
      (s_set_last code' ss1, code', if fires code' then OExit else ONormal)
  | OBrk _ | OCnt _ =>
      let code' := if neg then (if code =? 0 then 1 else 0) else code in
      (s_set_last code' ss1, code', r)
  end.

Definition sem_stmt (k : sctx) (t : stmt) (ss : sst) : sres :=
  let '(Stmt neg c) := t in
  let k1 := if neg then mkK (inl k) (infn k) true else k in
  stmt_post k neg c (semc k1 c ss).

Fixpoint sem_stmts (k : sctx) (l : list stmt) (ss : sst) : sres :=
  match l with
  | [] => (ss, 0, ONormal)
  | t :: l' =>
      match sem_stmt k t ss with
      | (ss1, code, ONormal) =>
          match l' with
          | [] => (ss1, code, ONormal)
          | _ => sem_stmts k l' ss1
          end
      | res => res
      end
  end.

(* what a loop does with the outcome of one run of its body;
   None = go on with the next iteration *)
Definition loop_after (k : sctx) (res : sres) : option sres :=
  let outer := negb (inl k) in
  match res with
  | (ss, code, ONormal) => None
  | (ss, code, OCnt n) =>
      let n' := level_down outer n in
      if (0 <? n')%Z then Some (ss, code, OCnt n') else None
  | (ss, code, OBrk n) =>
      let n' := level_down outer n in
      if (0 <? n')%Z then Some (ss, code, OBrk n') else Some (ss, code, ONormal)
  | _ => Some res
  end.

Definition in_loop (k : sctx) : sctx := mkK true (infn k) (noerr k).
Definition in_cond (k : sctx) : sctx := mkK (inl k) (infn k) true.

(* while / until: [last] is the status of the last run of the body (0 if none) *)
Fixpoint sem_while (n : nat) (k : sctx) (u : bool) (c b : list stmt) (last : N) (ss : sst) : sres :=
  match n with
  | O => (ss, 0, OAbort AFuel)
  | S n' =>
      match c with
      | [] => (ss, 0, OAbort AEmptyCond)
      | _ =>
      match sem_stmts (in_cond k) c ss with
      | (ss1, c1, ONormal) =>
          if Bool.eqb (c1 =? 0) u then (ss1, last, ONormal)
          else
            let res := sem_stmts (in_loop k) b ss1 in
            match loop_after k res with
            | Some res' => res'
            | None => let '(ss2, c2, _) := res in sem_while n' k u c b c2 ss2
            end
      | (ss1, c1, OBrk _) | (ss1, c1, OCnt _) => (ss1, c1, OAbort ABreakInCond)
      | res => res
      end
      end
  end.

(* for x in items: [last] is the status of the last run of the body (0 if none) *)
Fixpoint sem_for (k : sctx) (x : str) (items : list str) (b : list stmt) (last : N) (ss : sst) : sres :=
  match items with
  | [] => (ss, last, ONormal)
  | f :: items' =>
      let res := sem_stmts (in_loop k) b (s_set_vars (update x f (svars ss)) ss) in
      match loop_after k res with
      | Some res' => res'
      | None => let '(ss2, c2, _) := res in sem_for k x items' b c2 ss2
      end
  end.

Definition spat_match (ss : sst) (subject : str) (p : pat) : bool :=
  match p with
  | PAny => true
  | PWord w => str_eqb (sexpw ss w) subject
  end.

Fixpoint sem_case (k : sctx) (subject : str) (items : list (list pat * list stmt)) (ss : sst) : sres :=
  match items with
  | [] => (ss, 0, ONormal)
  | (pats, body) :: rest =>
      if existsb (spat_match ss subject) pats then sem_stmts k body ss
      else sem_case k subject rest ss
  end.

Definition sem_call (k : sctx) (fields : list str) (ss : sst) : sres :=
  match fields with
  | [] => (ss, 0, ONormal)
  | name :: args =>
      match lookup name (sfuncs ss) with
      | Some body =>
          (* the body runs as a function activation: no enclosing loop is visible *)
          match sem_stmt (mkK false true (noerr k)) body ss with
          | (ss1, code, ORet e) => (ss1, code, if e then OExit else ONormal)
          | res => res
          end
      | None => sem_builtin k name args ss
      end
  end.

Definition sem_step (fuel : nat) (k : sctx) (c : cmd) (ss : sst) : sres :=
  match c with
  | CAssign x w => (s_set_vars (update x (sexpw ss w) (svars ss)) ss, 0, ONormal)
  | CCall w ws => sem_call k (List.map (sexpw ss) (w :: ws)) ss
  | CBlock l => sem_stmts k l ss
  | CSub l =>
      if existsb (fun t => match t with Stmt n _ => n end) l then (ss, 0, OAbort ANegatedInSubshell) else
      (* a subshell gives back only its output and its status *)
      match sem_stmts (mkK false false (noerr k)) l ss with
      | (ss1, code, OAbort why) => (s_set_out (sout ss1) ss, code, OAbort why)
      | (ss1, code, _) => (s_set_out (sout ss1) ss, code, ONormal)
      end
  | CAnd x y =>
      match sem_stmt (in_cond k) x ss with
      | (ss1, c1, ONormal) => if c1 =? 0 then sem_stmt k y ss1 else (ss1, c1, ONormal)
      | res => res
      end
  | COr x y =>
      match sem_stmt (in_cond k) x ss with
      | (ss1, c1, ONormal) => if c1 =? 0 then (ss1, c1, ONormal) else sem_stmt k y ss1
      | res => res
      end
  | CIf c t e =>
      match sem_stmts (in_cond k) c ss with
      | (ss1, c1, ONormal) =>
          if c1 =? 0 then sem_stmts k t ss1
          else match e with
               | Some e' => semc k e' ss1
               | None => (ss1, 0, ONormal)
               end
      | (ss1, c1, OBrk _) | (ss1, c1, OCnt _) => (ss1, c1, OAbort ABreakInCond)
      | res => res
      end
  | CWhile u c b => sem_while fuel k u c b 0 ss
  | CFor x items b => sem_for k x (List.map (sexpw ss) items) b 0 ss
  | CCase w items => sem_case k (sexpw ss w) items ss
  | CFunc name body => (s_set_funcs (update name body (sfuncs ss)) ss, 0, ONormal)
  end.
End SemInner.

Fixpoint sem (fuel : nat) (k : sctx) (c : cmd) (ss : sst) {struct fuel} : sres :=
  match fuel with
  | O => (ss, 0, OAbort AFuel)
  | S fuel' => sem_step (sem fuel') fuel' k c ss
  end.

Definition top_ctx : sctx := mkK false false false.

Definition sem_prog (fuel : nat) (p : prog) (ss : sst) : sres :=
  sem_stmts (sem fuel) top_ctx p ss.

Definition init_sst : sst := mkS [] [] [] 0 false.

Definition is_abort (r : outcome) : bool := match r with OAbort _ => true | _ => false end.

(* what bash shows: stdout, exit status (and the variables, for the refinement) *)
Definition sobs (res : sres) : str * N * list (str * str) :=
  let '(ss, code, _) := res in (sout ss, code, svars ss).
