(* Interp/Conc.v — C31 "Cancelling the context stops any program promptly": the part of
   Run's behaviour under cancellation that is a matter of discipline rather than of time.

   1. Non-blocking code.  The context oracle of Interp/Flags.v ([ctx], [late]) models
      ctx.Err() as seen by Runner.stop: once cancelled, every later stop() returns true.
      The definitions below state what "cancelled" means for a machine state and what a
      construct may still do (nothing but observe the context).

   2. Blocking operations.  Each shell thread (main program, background job, pipeline
      stage, process substitution) is abstracted to the list of blocking operations it
      performs, annotated as in the code:
        BRead          Runner.readLine: context.AfterFunc sets the read deadline -> wakes on cancel
        BExec          external command (DefaultExecHandler): interrupted, killed after KillTimeout
        BWaitAll ts    the wait builtin: <-bg.done for every listed thread; does NOT look at ctx
        BPipeIO p      read/write on an interpreter pipe: returns when thread p closes its end
        BFifoOpen b    os.OpenFile on the FIFO of a process substitution: returns only when the
                       other end is opened (b = it ever is); does NOT look at ctx
      [returns] says whether a thread gets past all its blocking operations once the
      context is cancelled.  NO PROOFS in this file. *)
From Verif Require Import Base.Str Interp.Core Interp.Flags.

(* ---- 1. cancelled machine states ---- *)
Definition cancelled (s : st) : Prop := ctx s = Some O /\ stuck s = false.

(* what may differ between a cancelled state and its successors: only the observation
   counter and the fatal error recorded in r.exit *)
Definition same_effects (s s' : st) : Prop :=
  vars s' = vars s /\ funcs s' = funcs s /\ out s' = out s /\ errexit s' = errexit s /\
  brk s' = brk s /\ cnt s' = cnt s /\ inLoop s' = inLoop s /\ inFunc s' = inFunc s /\
  noErrExit s' = noErrExit s /\ lastEx s' = lastEx s.

(* ---- 2. blocking operations ---- *)
Inductive bop :=
| BRead
| BExec
| BWaitAll (ts : list nat)
| BPipeIO (p : nat)
| BFifoOpen (peer_opens : bool).

Definition sys := list (list bop).

Fixpoint returns (fuel : nat) (sy : sys) (t : nat) : bool :=
  match fuel with
  | O => false
  | S f =>
      match nth_error sy t with
      | None => true
      | Some ops =>
          forallb (fun op =>
            match op with
            | BRead | BExec => true
            | BWaitAll ts => forallb (returns f sy) ts
            | BPipeIO p => returns f sy p
            | BFifoOpen b => b
            end) ops
      end
  end.

(* an operation is fine for thread t if it is cancel-aware, or waits only for threads
   created later (larger index: children), or opens a FIFO that the peer does open *)
Definition good_op (t : nat) (op : bop) : Prop :=
  match op with
  | BRead | BExec => True
  | BWaitAll ts => Forall (fun u => (t < u)%nat) ts
  | BPipeIO p => (t < p)%nat
  | BFifoOpen b => b = true
  end.

Definition good_sys (sy : sys) : Prop :=
  forall t ops, nth_error sy t = Some ops -> Forall (good_op t) ops.

(* `: <(echo hi); wait` : main (thread 0) waits for the process substitution (thread 1),
   which is blocked opening a FIFO that nobody ever opens *)
Definition procsubst_never_opened_then_wait : sys := [[BWaitAll [1%nat]]; [BFifoOpen false]].

(* the known-finding class: some thread waits (directly) for a thread whose FIFO is never opened *)
Definition has_unopened_fifo (ops : list bop) : bool :=
  existsb (fun op => match op with BFifoOpen false => true | _ => false end) ops.
Definition procsubst_fifo_never_opened_then_wait (sy : sys) : bool :=
  existsb (fun ops => existsb (fun op =>
     match op with
     | BWaitAll ts => existsb (fun u => match nth_error sy u with Some o => has_unopened_fifo o | None => false end) ts
     | _ => false end) ops) sy.
