(* Syntax/Schema.v — generic model of the syntax package's data (C14, C15).
   A [schema] describes the Go types reachable from *syntax.File through exported
   fields; Gen/Schema.v holds the instance reflected from the running code on every
   run.  A [value] is a generic Go value of such a type; a [json] is what
   encoding/json produces/consumes (the byte level is not modelled).
   NO PROOFS in this file. *)
From Verif Require Import Base.Str.
Open Scope N_scope.

(* ---- types ------------------------------------------------------------- *)
Inductive ty :=
| TStruct (sid : nat)          (* struct by value (only []Comment elements and non-node structs behind pointers) *)
| TPtr (sid : nat)             (* *struct; every pointer in the package points to a struct *)
| TIface (iid : nat)           (* interface type (Node, Command, WordPart, ...) *)
| TSlice (elem : ty)
| TString
| TBool
| TUint (uid : nat)            (* named/unnamed uint8/uint32 type, index into [uints] *)
| TPos.                        (* syntax.Pos *)

Record uint_decl := { u_name : str; u_bits : N; u_stringer : bool; u_unmarshaler : bool }.
Record field_decl := { f_name : str; f_ty : ty }.
Record struct_decl := { s_name : str; s_node : bool (* *T implements syntax.Node *); s_fields : list field_decl }.
Record iface_decl := { i_name : str; i_impls : list nat (* structs T such that *T implements it *) }.
Record schema := { structs : list struct_decl; ifaces : list iface_decl; uints : list uint_decl;
                   node_iface : nat (* index of syntax.Node in ifaces *) }.

Definition dummy_struct : struct_decl := {| s_name := []; s_node := false; s_fields := [] |}.
Definition get_struct (sch : schema) (sid : nat) : option struct_decl := nth_error (structs sch) sid.
Definition get_iface (sch : schema) (iid : nat) : option iface_decl := nth_error (ifaces sch) iid.
Definition get_uint (sch : schema) (uid : nat) : option uint_decl := nth_error (uints sch) uid.
Definition is_node (sch : schema) (sid : nat) : bool :=
  match get_struct sch sid with Some d => s_node d | None => false end.
Definition struct_fields (sch : schema) (sid : nat) : list field_decl :=
  match get_struct sch sid with Some d => s_fields d | None => [] end.
Definition mem_nat (x : nat) (l : list nat) : bool := existsb (Nat.eqb x) l.
Definition iface_impls (sch : schema) (iid : nat) : list nat :=
  match get_iface sch iid with Some d => i_impls d | None => [] end.

(* ---- positions ---------------------------------------------------------- *)
(* syntax.Pos{offs, lineCol uint32} *)
Definition pos := (N * N)%type.
Definition offsetMax : N := 4294967284.        (* math.MaxUint32 - 11 *)
Definition offsetRecovered : N := 4294967285.  (* math.MaxUint32 - 10 *)
Definition colBitSize : N := 14.
Definition colMax : N := 16383.
Definition lineMax : N := 262143.
Definition maxUint32 : N := 4294967295.
Definition pos_zero : pos := (0, 0).
Definition pos_recovered : pos := (offsetRecovered, 0).
Definition pos_valid (p : pos) : bool := (fst p <=? offsetMax) && negb (snd p =? 0).
Definition pos_is_recovered (p : pos) : bool := (fst p =? offsetRecovered) && (snd p =? 0).
Definition pos_offset (p : pos) : N := if offsetMax <? fst p then 0 else fst p.
Definition pos_line (p : pos) : N := N.shiftr (snd p) colBitSize.
Definition pos_col (p : pos) : N := N.land (snd p) colMax.
(* Pos.After *)
Definition pos_after (p p2 : pos) : bool := pos_valid p && (fst p2 <? fst p).
(* NewPos(offset, line, column) on arguments already known to be <= MaxUint32 *)
Definition new_pos (o l c : N) : pos :=
  (N.min o offsetMax,
   N.lor (N.shiftl (if lineMax <? l then 0 else l) colBitSize) (if colMax <? c then 0 else c)).
Definition pos_eqb (a b : pos) : bool := (fst a =? fst b) && (snd a =? snd b).
(* a pos that a 32-bit Go value can hold *)
Definition pos_wf (p : pos) : bool := (fst p <=? maxUint32) && (snd p <=? maxUint32).

(* ---- values --------------------------------------------------------------- *)
(* attrs of a struct value: Some (Pos(), End()) for a node struct = the results of
   its two methods (not modelled; exported by the harness), None for other structs
   and for freshly decoded values. *)
Inductive value :=
| VStruct (sid : nat) (attrs : option (pos * pos)) (fields : list value)
| VPtr (o : option value)            (* nil or pointer to a struct value *)
| VIface (o : option value)          (* nil or dynamic value *T, given as the struct value *)
| VSlice (isnil : bool) (elems : list value)   (* Go distinguishes nil from empty *)
| VStr (s : str)
| VBool (b : bool)
| VUint (uid : nat) (n : N)          (* the Go type of a uint value is known at run time *)
| VPos (p : pos).

Definition opt_attrs_eqb (a b : option (pos * pos)) : bool :=
  match a, b with
  | None, None => true
  | Some (p1, e1), Some (p2, e2) => pos_eqb p1 p2 && pos_eqb e1 e2
  | _, _ => false
  end.

Fixpoint value_eqb (a b : value) {struct a} : bool :=
  match a, b with
  | VStruct s1 a1 f1, VStruct s2 a2 f2 =>
      Nat.eqb s1 s2 && opt_attrs_eqb a1 a2 &&
      (fix go (l1 l2 : list value) {struct l1} : bool :=
         match l1, l2 with
         | [], [] => true
         | x :: r1, y :: r2 => value_eqb x y && go r1 r2
         | _, _ => false
         end) f1 f2
  | VPtr None, VPtr None => true
  | VPtr (Some x), VPtr (Some y) => value_eqb x y
  | VIface None, VIface None => true
  | VIface (Some x), VIface (Some y) => value_eqb x y
  | VSlice n1 l1, VSlice n2 l2 =>
      Bool.eqb n1 n2 &&
      (fix go (l1 l2 : list value) {struct l1} : bool :=
         match l1, l2 with
         | [], [] => true
         | x :: r1, y :: r2 => value_eqb x y && go r1 r2
         | _, _ => false
         end) l1 l2
  | VStr s1, VStr s2 => str_eqb s1 s2
  | VBool b1, VBool b2 => Bool.eqb b1 b2
  | VUint u1 n1, VUint u2 n2 => Nat.eqb u1 u2 && (n1 =? n2)
  | VPos p1, VPos p2 => pos_eqb p1 p2
  | _, _ => false
  end.

(* zero value of a type. A struct-typed field other than Pos does not occur in the
   package (schema_ok checks it), so one level is enough. *)
Definition zero_shallow (t : ty) : value :=
  match t with
  | TStruct sid => VStruct sid None []
  | TPtr _ => VPtr None
  | TIface _ => VIface None
  | TSlice _ => VSlice true []
  | TString => VStr []
  | TBool => VBool false
  | TUint u => VUint u 0
  | TPos => VPos pos_zero
  end.
Definition zero_value (sch : schema) (t : ty) : value :=
  match t with
  | TStruct sid => VStruct sid None (map (fun f => zero_shallow (f_ty f)) (struct_fields sch sid))
  | _ => zero_shallow t
  end.

(* ---- typing ---------------------------------------------------------------- *)
Definition uint_fits (sch : schema) (uid : nat) (n : N) : bool :=
  match get_uint sch uid with Some d => n <? N.shiftl 1 (u_bits d) | None => false end.

Fixpoint has_type (sch : schema) (t : ty) (v : value) {struct v} : bool :=
  match v, t with
  | VStruct sid attrs fs, TStruct sid' =>
      Nat.eqb sid sid' &&
      Bool.eqb (match attrs with Some _ => true | None => false end) (is_node sch sid) &&
      (fix go (fs : list value) (ds : list field_decl) {struct fs} : bool :=
         match fs, ds with
         | [], [] => true
         | x :: r, d :: ds' => has_type sch (f_ty d) x && go r ds'
         | _, _ => false
         end) fs (struct_fields sch sid)
  | VPtr None, TPtr _ => true
  | VPtr (Some u), TPtr sid => has_type sch (TStruct sid) u
  | VIface None, TIface _ => true
  | VIface (Some u), TIface iid =>
      match u with
      | VStruct sid _ _ => mem_nat sid (iface_impls sch iid) && has_type sch (TStruct sid) u
      | _ => false
      end
  | VSlice _ l, TSlice te =>
      (fix go (l : list value) {struct l} : bool :=
         match l with [] => true | x :: r => has_type sch te x && go r end) l
  | VStr _, TString => true
  | VBool _, TBool => true
  | VUint u n, TUint u' => Nat.eqb u u' && uint_fits sch u n
  | VPos p, TPos => pos_wf p
  | _, _ => false
  end.

(* ---- JSON ------------------------------------------------------------------- *)
(* a JSON number as encoding/json hands it over (float64): an integer or not *)
Inductive jnum := JInt (z : Z) | JFrac.
Inductive json :=
| JNull
| JBool (b : bool)
| JNum (n : jnum)
| JStr (s : str)
| JArr (l : list json)
| JObj (members : list (str * json)).   (* in emission order; keys distinct when read from Go *)

(* typed constructors for the generated case files (fast elaboration) *)
Definition jmem (k : str) (j : json) : str * json := (k, j).
Definition jint (z : Z) : json := JNum (JInt z).

Definition jnum_eqb (a b : jnum) : bool :=
  match a, b with JInt x, JInt y => Z.eqb x y | JFrac, JFrac => true | _, _ => false end.

Fixpoint json_eqb (a b : json) {struct a} : bool :=
  match a, b with
  | JNull, JNull => true
  | JBool x, JBool y => Bool.eqb x y
  | JNum x, JNum y => jnum_eqb x y
  | JStr x, JStr y => str_eqb x y
  | JArr l1, JArr l2 =>
      (fix go (l1 l2 : list json) {struct l1} : bool :=
         match l1, l2 with
         | [], [] => true
         | x :: r1, y :: r2 => json_eqb x y && go r1 r2
         | _, _ => false
         end) l1 l2
  | JObj m1, JObj m2 =>
      (fix go (l1 l2 : list (str * json)) {struct l1} : bool :=
         match l1, l2 with
         | [], [] => true
         | (k1, x) :: r1, (k2, y) :: r2 => str_eqb k1 k2 && json_eqb x y && go r1 r2
         | _, _ => false
         end) m1 m2
  | _, _ => false
  end.

(* error codes of the models (Err c): *)
Definition E_ILL : N := 1.    (* input not well-typed for the schema: cannot exist in Go *)
Definition E_FUEL : N := 2.   (* out of fuel *)
Definition E_DEC : N := 3.    (* typedjson.Decode returned an error *)

(* result equality for the case files *)
Definition res_eqb {A} (eqb : A -> A -> bool) (a b : res A) : bool :=
  match a, b with
  | Ok x, Ok y => eqb x y
  | Err c, Err d => c =? d
  | Panic, Panic => true
  | _, _ => false
  end.
