(* Syntax/MiniAst.v — MiniSh level S (statements): the Go AST of mvdan/sh restricted to
     File, Stmt{Negated, Cmd, Background}, CallExpr{Args}, BinaryCmd{Op = && || |; X; Y},
     Block, Subshell, IfClause{Cond, Then, Else (elif / else)}, WhileClause{Until, Cond, Do}
   with words of level W (Syntax/Word.v).  No positions at this level: under SingleLine the
   printer's decisions do not read them for these node kinds (see MiniPrinter.v); the
   multi-line printer is given an explicit canonical layout (MiniPrinter.v, part 2).
   Statement lists are their own type (SNil / SCons) so that the mutual induction schemes
   exist; they may be empty as in Go (the parser of LangBash never returns an empty body).
   NO PROOFS in this file. *)
From Verif Require Import Base.Str Syntax.Word.
Open Scope N_scope.

Inductive binop := AndStmt | OrStmt | Pipe.

Inductive cmd :=
| Call (args : list word)
| Block (ss : stmts)
| Subshell (ss : stmts)
| IfClause (cond thn : stmts) (els : else_)
| WhileClause (until : bool) (cond body : stmts)
| Binary (op : binop) (x y : stmt)
with stmt :=
| Stmt (neg : bool) (c : cmd) (bg : bool)
with stmts :=
| SNil
| SCons (s : stmt) (ss : stmts)
(* IfClause.Else: nil | an IfClause with ThenPos valid (elif) | one without (else) *)
with else_ :=
| NoElse
| Elif (cond thn : stmts) (els : else_)
| Else (thn : stmts).

Definition file := stmts.

Scheme cmd_mind := Induction for cmd Sort Prop
  with stmt_mind := Induction for stmt Sort Prop
  with stmts_mind := Induction for stmts Sort Prop
  with else_mind := Induction for else_ Sort Prop.
Combined Scheme mini_mutind from cmd_mind, stmt_mind, stmts_mind, else_mind.

Fixpoint slen (ss : stmts) : nat :=
  match ss with SNil => O | SCons _ r => S (slen r) end.

Definition stmt_bg (s : stmt) : bool := match s with Stmt _ _ b => b end.
Definition stmt_neg (s : stmt) : bool := match s with Stmt n _ _ => n end.
Definition stmt_cmd (s : stmt) : cmd := match s with Stmt _ c _ => c end.

(* Background flag of the last statement of a list (false for the empty list) *)
Fixpoint last_bg (ss : stmts) : bool :=
  match ss with
  | SNil => false
  | SCons s SNil => stmt_bg s
  | SCons _ r => last_bg r
  end.

(* printer.go startsWithLparen / endsWithRparen on this fragment *)
Fixpoint starts_lparen_cmd (c : cmd) : bool :=
  match c with
  | Subshell _ => true
  | Binary _ (Stmt _ x _) _ => starts_lparen_cmd x
  | _ => false
  end.
Definition starts_lparen (s : stmt) : bool := starts_lparen_cmd (stmt_cmd s).

Fixpoint ends_rparen_cmd (c : cmd) : bool :=
  match c with
  | Subshell _ => true
  | Binary _ _ (Stmt _ y b) => if b then false else ends_rparen_cmd y
  | _ => false
  end.
Definition ends_rparen (s : stmt) : bool :=
  match s with Stmt _ c b => if b then false else ends_rparen_cmd c end.

(* ------------------------------------------------------------------ norm
   C01's ignoring clause on this fragment without Minify: only the word-level rewrite
   (doubled odd trailing backslash). *)
Fixpoint norm_cmd (c : cmd) : cmd :=
  match c with
  | Call args => Call (map (norm_word false) args)
  | Block ss => Block (norm_stmts ss)
  | Subshell ss => Subshell (norm_stmts ss)
  | IfClause c t e => IfClause (norm_stmts c) (norm_stmts t) (norm_else e)
  | WhileClause u c b => WhileClause u (norm_stmts c) (norm_stmts b)
  | Binary op x y => Binary op (norm_stmt x) (norm_stmt y)
  end
with norm_stmt (s : stmt) : stmt :=
  match s with Stmt n c b => Stmt n (norm_cmd c) b end
with norm_stmts (ss : stmts) : stmts :=
  match ss with SNil => SNil | SCons s r => SCons (norm_stmt s) (norm_stmts r) end
with norm_else (e : else_) : else_ :=
  match e with
  | NoElse => NoElse
  | Elif c t e' => Elif (norm_stmts c) (norm_stmts t) (norm_else e')
  | Else t => Else (norm_stmts t)
  end.
Definition norm_file (t : file) : file := norm_stmts t.

(* ------------------------------------------------------------------ reserved words *)
Fixpoint bytes_eqb (a b : str) : bool :=
  match a, b with
  | [], [] => true
  | x :: a', y :: b' => (x =? y) && bytes_eqb a' b'
  | _, _ => false
  end.

Definition kw_lbrace : str := [123].
Definition kw_rbrace : str := [125].
Definition kw_bang : str := [33].
Definition kw_if : str := [105;102].
Definition kw_then : str := [116;104;101;110].
Definition kw_elif : str := [101;108;105;102].
Definition kw_else : str := [101;108;115;101].
Definition kw_fi : str := [102;105].
Definition kw_while : str := [119;104;105;108;101].
Definition kw_until : str := [117;110;116;105;108].
Definition kw_do : str := [100;111].
Definition kw_done : str := [100;111;110;101].

(* literal words that Parser.gotStmtPipe does not treat as the name of a simple command
   in LangBash: the reserved words of this fragment, and the openers of node kinds
   outside it: for case esac [[ ]] let function declare local export readonly typeset
   nameref time coproc select, and the zsh block {} *)
Definition reserved_words : list str :=
  [ kw_lbrace; kw_rbrace; kw_bang; kw_if; kw_then; kw_elif; kw_else; kw_fi; kw_while; kw_until;
    kw_do; kw_done;
    [102;111;114]; [99;97;115;101]; [101;115;97;99]; [91;91]; [93;93]; [108;101;116];
    [102;117;110;99;116;105;111;110]; [100;101;99;108;97;114;101]; [108;111;99;97;108];
    [101;120;112;111;114;116]; [114;101;97;100;111;110;108;121]; [116;121;112;101;115;101;116];
    [110;97;109;101;114;101;102]; [116;105;109;101]; [99;111;112;114;111;99];
    [115;101;108;101;99;116]; [123;125] ].

Definition is_reserved (v : str) : bool := existsb (bytes_eqb v) reserved_words.

(* Parser.hasValidIdent on the literal that starts a word: the text before the first
   unescaped '=' (minus a trailing '+') is a valid name.  (The a[i]= form needs a '['
   which ends the literal in the real lexer; words containing '[' are outside the
   fragment's code leg, see notes.) *)
Fixpoint eql_offs (v : str) (acc : str) : option str :=   (* bytes before the first unescaped = *)
  match v with
  | [] => None
  | c :: t =>
      if c =? 61 then Some (rev acc)
      else if c =? BS then match t with [] => None | d :: t' => eql_offs t' (d :: c :: acc) end
      else eql_offs t (c :: acc)
  end.

Definition strip_plus (n : str) : str :=
  match rev n with
  | 43 :: r => rev r
  | _ => n
  end.

Definition assign_prefix (v : str) : bool :=
  match eql_offs v [] with
  | Some n => match n with [] => false | _ => valid_name (strip_plus n) end
  | None => false
  end.

(* the word may be the first word of a CallExpr *)
Definition first_word_ok (w : word) : bool :=
  match w with
  | [Lit v] => negb (is_reserved v) && negb (assign_prefix v)
  | Lit v :: _ => negb (assign_prefix v)
  | _ => true
  end.

(* ------------------------------------------------------------------ well-formedness
   = what Parser (LangBash) can return for this fragment:
   - bodies are non-empty; CallExpr has at least one word; the first word is neither a
     reserved word nor an assignment; words are well-formed level-W words that do not
     start a comment, and carry no odd trailing backslash (impossible before a delimiter);
   - && and || associate to the left and their right operand is a pipeline;
     | associates to the left and its operands are commands; `!` sits on a whole pipeline
     (Parser.gotStmtPipe moves Negated to the outer Stmt), never on an &&/|| list;
     operands of a BinaryCmd are not Background. *)
(* a carriage return is a blank for the real lexer: it cannot start a word *)
Definition first_not_cr (w : word) : Prop :=
  match w with Lit (c :: _) :: _ => c <> 13 | _ => True end.

Definition wf_sword (w : word) : Prop :=
  wf_word w /\ not_comment_start w /\ first_not_cr w /\ w <> [] /\ norm_word false w = w.

Definition is_andor (c : cmd) : bool :=
  match c with Binary AndStmt _ _ | Binary OrStmt _ _ => true | _ => false end.
Definition is_binary (c : cmd) : bool :=
  match c with Binary _ _ _ => true | _ => false end.

Fixpoint wf_cmd (c : cmd) : Prop :=
  match c with
  | Call args =>
      Forall wf_sword args /\
      match args with [] => False | w :: _ => first_word_ok w = true end
  | Block ss => ss <> SNil /\ wf_stmts ss
  | Subshell ss => ss <> SNil /\ wf_stmts ss
  | IfClause c t e => c <> SNil /\ t <> SNil /\ wf_stmts c /\ wf_stmts t /\ wf_else e
  | WhileClause _ c b => c <> SNil /\ b <> SNil /\ wf_stmts c /\ wf_stmts b
  | Binary op x y =>
      wf_stmt x /\ wf_stmt y /\ stmt_bg x = false /\ stmt_bg y = false /\
      match op with
      | Pipe => stmt_neg x = false /\ stmt_neg y = false /\
                is_andor (stmt_cmd x) = false /\ is_binary (stmt_cmd y) = false
      | _ => is_andor (stmt_cmd y) = false
      end
  end
with wf_stmt (s : stmt) : Prop :=
  match s with
  | Stmt n c b => wf_cmd c /\ (n = true -> is_andor c = false)
  end
with wf_stmts (ss : stmts) : Prop :=
  match ss with
  | SNil => True
  | SCons s r => wf_stmt s /\ wf_stmts r
  end
with wf_else (e : else_) : Prop :=
  match e with
  | NoElse => True
  | Elif c t e' => c <> SNil /\ t <> SNil /\ wf_stmts c /\ wf_stmts t /\ wf_else e'
  | Else t => t <> SNil /\ wf_stmts t
  end.

Definition wf_file (t : file) : Prop := wf_stmts t.
